"""Observer through the public API of a (live or re-opened) workspace.

snapshot(ws) -> {uid-string: entity record}; records contain only JSON-able,
value-normalised content so two snapshots can be compared with ==.
"""

from __future__ import annotations

import uuid

import numpy as np

ARRAY_ATTRS = (
    "vertices",
    "cells",
    "surveys",
    "trace",
    "trace_depth",
    "octree_cells",
    "layers",
    "prisms",
    "u_cell_delimiters",
    "v_cell_delimiters",
    "z_cell_delimiters",
)
BOOL_ATTRS = {"allow_delete", "allow_move", "allow_rename", "partially_hidden", "public", "visible", "modifiable"}
SKIP_ATTRS = {"uid", "property_groups", "concatenated_attributes", "concatenated_object_ids", "property_group_ids", "entity_type", "on_file", "parent", "workspace"}


def norm(v):
    """Value-normalisation: NaN -> None, numpy -> lists, uuid -> str, bytes -> hex."""
    if v is None or isinstance(v, bool):
        return v
    if isinstance(v, str):
        return str(v)  # numpy.str_ -> str
    if isinstance(v, (int,)):
        return v
    if isinstance(v, float):
        if v != v:
            return None
        if v in (float("inf"), float("-inf")):
            return repr(v)
        return v
    if isinstance(v, uuid.UUID):
        return str(v)
    if isinstance(v, bytes):
        return {"bytes": v.hex()}
    if isinstance(v, np.ndarray):
        if v.dtype.names:
            return {"fields": list(v.dtype.names), "rows": [norm(list(r)) for r in v.tolist()]}
        return [norm(x) for x in v.tolist()]
    if isinstance(v, np.generic):
        return norm(v.item())
    if isinstance(v, dict):
        return {str(k): norm(x) for k, x in v.items()}
    if isinstance(v, (list, tuple)):
        return [norm(x) for x in v]
    if isinstance(v, (set, frozenset)):
        return sorted((norm(x) for x in v), key=repr)
    if hasattr(v, "uid") and isinstance(getattr(v, "uid"), uuid.UUID):
        return {"ref": str(v.uid)}
    if hasattr(v, "name") and hasattr(v, "value") and type(v).__module__.startswith("geoh5py"):
        return v.name  # enums
    return repr(v)


def attr_names(entity):
    names = []
    for val in getattr(entity, "attribute_map", {}).values():
        nm = val.split(":")[0].strip()
        if nm not in SKIP_ATTRS and nm not in names:
            names.append(nm)
    return names


def type_record(et):
    rec = {"uid": str(et.uid), "cls": type(et).__name__}
    for nm in attr_names(et):
        try:
            rec[nm] = norm(getattr(et, nm))
        except Exception as err:  # pylint: disable=broad-except
            rec[nm] = f"!{type(err).__name__}"
    vm = getattr(et, "value_map", None)
    if vm is not None:
        rec["value_map"] = norm(vm.map) if hasattr(vm, "map") else norm(vm)
    cm = getattr(et, "color_map", None)
    if cm is not None:
        rec["color_map"] = {"name": cm.name, "values": norm(cm.values)}
    return rec


def pg_record(pg):
    return {
        "uid": str(pg.uid),
        "name": pg.name,
        "association": pg.association.name,
        "type": pg.property_group_type,
        "properties": sorted(str(u) for u in (pg.properties or [])),
    }


def entity_record(e, with_type=True):
    rec = {
        "uid": str(e.uid),
        "cls": type(e).__name__,
        "parent": str(e.parent.uid) if getattr(e, "parent", None) is not None else None,
    }
    for nm in attr_names(e):
        try:
            val = getattr(e, nm)
            if nm in BOOL_ATTRS and isinstance(val, (bool, int, np.integer, np.bool_)):
                val = bool(val)  # stored as int8 0/1, served as such after loading
            rec[nm] = norm(val)
        except Exception as err:  # pylint: disable=broad-except
            rec[nm] = f"!{type(err).__name__}"
    for nm in ARRAY_ATTRS:
        if hasattr(type(e), nm):
            try:
                rec[nm] = norm(getattr(e, nm))
            except Exception as err:  # pylint: disable=broad-except
                rec[nm] = f"!{type(err).__name__}"
    if hasattr(type(e), "values"):
        try:
            rec["values"] = norm(e.values)
        except Exception as err:  # pylint: disable=broad-except
            rec["values"] = f"!{type(err).__name__}"
    if hasattr(type(e), "metadata"):
        try:
            rec["metadata"] = norm(e.metadata)
        except Exception as err:  # pylint: disable=broad-except
            rec["metadata"] = f"!{type(err).__name__}"
    if hasattr(type(e), "options"):
        try:
            rec["options"] = norm(e.options)
        except Exception as err:  # pylint: disable=broad-except
            rec["options"] = f"!{type(err).__name__}"
    if with_type and getattr(e, "entity_type", None) is not None:
        rec["type"] = type_record(e.entity_type)
    if hasattr(e, "children"):
        kids = [c for c in e.children if hasattr(c, "entity_type")]
        rec["children"] = sorted(str(c.uid) for c in kids)
    pgs = getattr(e, "property_groups", None)
    if pgs:
        rec["pgs"] = sorted((pg_record(p) for p in pgs), key=lambda r: r["uid"])
    return rec


def walk(root):
    """Entities reachable from root through `children` (property groups excluded)."""
    out = []
    stack = [root]
    seen = set()
    while stack:
        e = stack.pop()
        if id(e) in seen:
            continue
        seen.add(id(e))
        out.append(e)
        for c in getattr(e, "children", []) or []:
            if hasattr(c, "entity_type"):
                stack.append(c)
    return out


def snapshot(ws, listings=True) -> dict:
    """{'tree': {uid: record}, 'listed': {'groups': [...], 'objects': [...], 'data': [...]}}.

    'tree' is what is reachable from ws.root; 'listed' what the workspace listings show
    (taking a listing is a public call with a side effect - it purges dead references -
    so it is done last)."""
    snap = {"tree": {}, "dup": []}
    for e in walk(ws.root):
        key = str(e.uid)
        if key in snap["tree"]:
            snap["dup"].append(key)
        snap["tree"][key] = entity_record(e)
    if listings:
        snap["listed"] = {
            "groups": sorted(str(g.uid) for g in ws.groups),
            "objects": sorted(str(o.uid) for o in ws.objects),
            "data": sorted(str(d.uid) for d in ws.data),
        }
    return snap


def diff(a: dict, b: dict, path="") -> list:
    """Human-readable list of differences between two normalised structures."""
    out = []
    if type(a) != type(b):  # pylint: disable=unidiomatic-typecheck
        return [f"{path}: {a!r} != {b!r}"]
    if isinstance(a, dict):
        for k in sorted(set(a) | set(b), key=str):
            if k not in a:
                out.append(f"{path}/{k}: missing on left (right={_short(b[k])})")
            elif k not in b:
                out.append(f"{path}/{k}: missing on right (left={_short(a[k])})")
            else:
                out += diff(a[k], b[k], f"{path}/{k}")
    elif isinstance(a, list):
        if len(a) != len(b):
            out.append(f"{path}: len {len(a)} != {len(b)}: {_short(a)} vs {_short(b)}")
        else:
            for i, (x, y) in enumerate(zip(a, b)):
                out += diff(x, y, f"{path}[{i}]")
    elif a != b:
        out.append(f"{path}: {a!r} != {b!r}")
    return out


def _short(v):
    s = repr(v)
    return s if len(s) < 120 else s[:117] + "..."
