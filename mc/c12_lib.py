"""C12 helper: one case = build the fixture of one class (enriched with a property group, typed
children and, for groups, a sub-tree of depth 2) in a fresh workspace, observe the whole source
workspace (live getters + per-node digests of the flushed file; for drillhole groups the file of an
identical closed twin scene), copy the entity once with one combination of options, observe source
and copy again, apply edits to the COPY (setters from the C03 domains and in-place edits of the
objects returned by getters), observe the source after every edit, close, re-open both files and
observe once more (live getters of the re-opened source, node digests of the source file).

history (JSON, self-contained):
    {"cls": fixture class, "target": "same" | "group" | "other" | "othergroup",
     "cc": copy_children, "clear": clear_cache, "mask": "none" | "all" | "part",
     "pre": source re-loaded from its file (r+) before the copy, "disk": workspaces on disk files,
     "edits": [[kind, path, attribute, index], ...]}      kind: "set" | "poke" | "poke2"
     path: "" the copy | "type" its entity type | "pg:<index>" one of its property groups |
           "sub:<label>" an entity of the copied sub-tree by its structural label | "sub:<label>|type" its type
     "enrich": "full" | "notext" (without the text child, which masks cannot blank)

Clauses (each a sentence of the statement of C12):
    copy-yields-entity     "Copying any entity ... yields an entity of the same class"
    copy-equals-source     "... with equal attributes, geometry, data values, metadata and property groups
                           that reference the copied children; copying a group reproduces its whole subtree and
                           copying a drillhole group reproduces every hole with its data" - live, and again
                           on the re-opened files
    source-unchanged       "The source entity, its children ... are unchanged" (live getters of every
                           entity that existed in the source workspace before the copy; same after re-open)
    source-file-unchanged  "... and the source file are unchanged" (per-node digests; a copy inside the
                           same workspace may only create nodes and extend the link set of the target parent)
    copy-independent       "later edits of the copy do not show through in the source" (live getters after
                           every edit; node digests and re-opened getters of the source file at the end)
"""

from __future__ import annotations

import enum
import io
import traceback
import uuid

import numpy as np

from . import core, domains, fixtures, rawh5, world

LINKS = ("receivers", "transmitters", "base_stations", "current_electrodes", "potential_electrodes")
CHILD_REFS = ("ab_cell_id", "tx_id_property", "visual_parameters")
NOT_OBSERVED = (set(domains.SKIP) - set(LINKS) - set(CHILD_REFS)) | {"entity_type", "property_groups", "attribute_map", "children", "property_group_ids"}
EXTRA_OBSERVED = ("trace", "trace_depth", "extent", "centroids", "image", "nan_value", "ndv")
GEOMETRY = {"vertices", "cells", "parts", "extent", "centroids", "n_vertices", "n_cells", "trace", "trace_depth", "surveys", "locations"}
BOOKKEEPING = ("A-B Cell ID", "Transmitter ID")  # children maintained by the linked survey classes (property C20)
DEFERRED_STORAGE = ("DrillholeGroup", "IntegratorDrillholeGroup")
TARGETS = ("same", "group", "other", "othergroup")
MASKS = ("none", "all", "part")


# --------------------------------------------------------------------------- small helpers
def mro_names(obj):
    return [k.__name__ for k in type(obj).__mro__]


def is_a(obj, *names):
    m = mro_names(obj)
    return any(n in m for n in names)


def defining_class(obj, attr) -> str:
    for klass in type(obj).__mro__:
        if attr in vars(klass):
            return klass.__name__
    return type(obj).__name__


def kind_of(entity) -> str:
    m = mro_names(entity)
    tag = "+concat" if ("Concatenated" in m or "Concatenator" in m) else ""
    if "Data" in m:
        return "data" + tag
    if "ObjectBase" in m:
        return "object" + tag
    if "Group" in m:
        return "group" + tag
    if "EntityType" in m:
        return "type"
    if "PropertyGroup" in m:
        return "pg"
    return "other"


def is_entity(obj) -> bool:
    return hasattr(obj, "entity_type") and isinstance(getattr(obj, "uid", None), uuid.UUID)


def entity_children(entity):
    try:  # concatenated children are attached lazily
        if is_a(entity, "ConcatenatedObject"):
            entity.get_entity("")
        elif is_a(entity, "Concatenator"):
            entity.workspace.fetch_children(entity)
    except Exception:  # pylint: disable=broad-except
        pass
    return [c for c in (getattr(entity, "children", None) or []) if is_entity(c)]


def observed_names(entity) -> list:
    names = set(domains.settable_attributes(entity))
    amap = getattr(entity, "attribute_map", None) or getattr(entity, "_attribute_map", {}) or {}
    for val in amap.values():
        nm = val.split(":")[0].strip()
        if isinstance(getattr(type(entity), nm, None), property):
            names.add(nm)
    for nm in EXTRA_OBSERVED + LINKS + CHILD_REFS:
        if isinstance(getattr(type(entity), nm, None), property):
            names.add(nm)
    names -= NOT_OBSERVED
    names.discard("uid")
    if is_a(entity, "Group"):
        names.discard("extent")  # derived from the descendants, which are compared themselves
    return sorted(names)


# --------------------------------------------------------------------------- labelling
class Labels:
    """uid -> structural label of an entity inside a (source or copy) sub-tree.  Source and
    copy use the same labels for corresponding entities, so identifiers compare 'modulo uid'."""

    def __init__(self):
        self.by_uid = {}
        self.entities = {}  # label -> entity

    def walk(self, entity, label="@"):
        self.by_uid[entity.uid] = label
        self.entities[label] = entity
        kids = entity_children(entity)
        groups = {}
        for c in kids:
            groups.setdefault((type(c).__name__.replace("Concatenated", ""), str(c.name)), []).append(c)
        for (cname, name), members in sorted(groups.items()):
            if len(members) > 1:  # same class and name: order by content, never by identifier
                members = sorted(members, key=lambda m: core.jdump(Canon(None).value(_safe(m, "values"))))
            for k, m in enumerate(members):
                self.walk(m, f"{label}/{cname}:{name}" + (f"#{k}" if len(members) > 1 else ""))
        for pg in getattr(entity, "property_groups", None) or []:
            self.by_uid[pg.uid] = f"{label}/pg:{pg.name}"


def _safe(obj, attr):
    try:
        return getattr(obj, attr)
    except Exception as err:  # pylint: disable=broad-except
        return f"!raise:{type(err).__name__}"


class Canon:
    """Value normalisation used on both sides of every comparison (NaN -> None, numpy -> lists,
    enums -> names, identifiers -> structural label / class of the entity they name)."""

    def __init__(self, labels, workspaces=()):
        self.labels = labels.by_uid if labels is not None else {}
        self.workspaces = workspaces

    def uid(self, u):
        if u in self.labels:
            return "lab:" + self.labels[u]
        for ws in self.workspaces:
            try:
                ent = ws.get_entity(u)[0]
            except Exception:  # pylint: disable=broad-except
                ent = None
            if ent is not None:
                return "ent:" + type(ent).__name__
        return "uuid:" + u.hex

    def value(self, v):  # noqa: C901  pylint: disable=too-many-return-statements,too-many-branches
        if v is None:
            return None
        if isinstance(v, (bool, np.bool_)):
            return bool(v)
        if isinstance(v, enum.Enum):
            return v.name.upper()
        if isinstance(v, (int, float, np.integer, np.floating)):
            f = float(v)
            if f != f:
                return None
            return repr(f) if f in (float("inf"), float("-inf")) else f
        if isinstance(v, uuid.UUID):
            return self.uid(v)
        if isinstance(v, (bytes, np.bytes_)):
            return {"bytes": bytes(v).hex()}
        if isinstance(v, str):
            s = str(v)
            if len(s) in (32, 36, 38):
                try:
                    return self.uid(uuid.UUID(s))
                except ValueError:
                    pass
            return s
        if isinstance(v, np.void):
            return [self.value(x) for x in v.tolist()]
        if isinstance(v, np.ndarray):
            if v.dtype.names:
                if v.ndim == 0:
                    return [self.value(x) for x in v.tolist()]
                return [[self.value(x) for x in row] for row in v.tolist()]
            return self._rows(v.tolist())
        if isinstance(v, dict):
            return {str(k): self.value(x) for k, x in v.items()}
        if isinstance(v, (list, tuple)):
            return [self.value(x) for x in v]
        name = type(v).__name__
        if name == "ColorMap":
            vals = getattr(v, "_values", None)
            return {"name": v.name, "values": self.value(np.asarray(vals)) if vals is not None and len(vals) else []}
        if name == "ReferenceValueMap":
            return self.value(v.map)
        if hasattr(v, "size") and hasattr(v, "mode") and hasattr(v, "getexif"):  # PIL image
            return {"mode": v.mode, "pixels": self.value(np.asarray(v))}
        if "EntityType" in [k.__name__ for k in type(v).__mro__]:
            return "type:" + v.uid.hex
        if isinstance(getattr(v, "uid", None), uuid.UUID):
            u = v.uid
            if u in self.labels:
                return "lab:" + self.labels[u]
            return "ent:" + type(v).__name__
        return repr(v)

    def _rows(self, x):
        if isinstance(x, list):
            return [self._rows(y) for y in x]
        return self.value(x)


def _mapped(data):
    """Referenced values seen through the value map (what the numbers mean)."""
    try:
        vmap = data.entity_type.value_map.map
        return [vmap.get(int(v), f"?{int(v)}") for v in np.asarray(data.values).ravel().tolist()]
    except Exception as err:  # pylint: disable=broad-except
        return f"!raise:{type(err).__name__}"


def type_record(etype, canon) -> dict:
    rec = {"cls": type(etype).__name__, "uid": "type:" + etype.uid.hex}
    for nm in observed_names(etype):
        rec[nm] = canon.value(_safe(etype, nm))
    return rec


def entity_record(entity, canon) -> dict:
    rec = {"cls": type(entity).__name__.replace("Concatenated", "").replace("Concatenator", ""), "attrs": {}, "type": None, "pgs": {},
           "meta": {"kind": kind_of(entity), "defs": {}, "uid": entity.uid.hex}}
    for nm in observed_names(entity):
        rec["attrs"][nm] = canon.value(_safe(entity, nm))
        rec["meta"]["defs"][nm] = defining_class(entity, nm)
    if is_a(entity, "TextData") and isinstance(rec["attrs"].get("values"), list) and len(rec["attrs"]["values"]) == 1:
        rec["attrs"]["values"] = rec["attrs"]["values"][0]  # a single text is served as str or as 1-array (reader's choice, property C01)
    if is_a(entity, "ReferencedData"):
        rec["attrs"]["values(mapped)"] = canon.value(_mapped(entity))
        rec["meta"]["defs"]["values(mapped)"] = "ReferencedData"
    etype = getattr(entity, "entity_type", None)
    if etype is not None:
        rec["type"] = type_record(etype, canon)
    for pg in getattr(entity, "property_groups", None) or []:
        rec["pgs"][str(pg.name)] = {
            "association": canon.value(pg.association),
            "property_group_type": canon.value(pg.property_group_type),
            "properties": [canon.value(u) for u in (pg.properties or [])],
        }
    rec["children"] = sorted(canon.labels[c.uid] for c in entity_children(entity) if c.uid in canon.labels)
    return rec


def tree_records(root, workspaces=()) -> tuple:
    """({label: record}, Labels) of the sub-tree hanging from `root`."""
    labels = Labels()
    labels.walk(root)
    canon = Canon(labels, workspaces)
    return {lab: entity_record(ent, canon) for lab, ent in labels.entities.items()}, labels


def workspace_records(ws, only=None) -> dict:
    """{uid hex: record} of EVERY entity reachable from the root of `ws` (labels = identifiers:
    this snapshot is compared with itself at another time, never with a copy).  `only`: keys of
    an earlier snapshot - entities that were not in it (the copy) are not walked."""
    labels = Labels()
    stack, seen = [ws.root], set()
    while stack:
        e = stack.pop()
        if e.uid in seen or (only is not None and "id:" + e.uid.hex not in only):
            continue
        seen.add(e.uid)
        labels.by_uid[e.uid] = "id:" + e.uid.hex
        labels.entities["id:" + e.uid.hex] = e
        for pg in getattr(e, "property_groups", None) or []:
            labels.by_uid[pg.uid] = "id:" + pg.uid.hex
        stack += entity_children(e)
    canon = Canon(labels, ())
    return {lab: entity_record(ent, canon) for lab, ent in labels.entities.items()}


# --------------------------------------------------------------------------- scene
def _workspace():
    from geoh5py.workspace import Workspace

    return Workspace


_COUNTER = [0]


def new_workspace(disk: bool, tag: str):
    Workspace = _workspace()
    if not disk:
        return Workspace()
    _COUNTER[0] += 1
    path = world.scratch() / f"c12_{tag}_{_COUNTER[0]}.geoh5"
    if path.exists():
        path.unlink()
    return Workspace.create(path)


def file_bytes(ws, closed=False) -> bytes:
    if not closed:
        ws.geoh5.flush()
    h5 = ws.h5file
    if isinstance(h5, io.BytesIO):
        return h5.getvalue()
    with open(h5, "rb") as f:
        return f.read()


def natural_association(obj):
    """('VERTEX' | 'CELL' | None, n) for the enrichment children of an object."""
    if is_a(obj, "Drillhole", "GeoImage", "Label", "NoTypeObject"):
        return None, 0
    if is_a(obj, "GridObject", "DrapeModel"):
        return "CELL", int(obj.n_cells)
    if getattr(obj, "vertices", None) is not None:
        return "VERTEX", int(obj.n_vertices)
    return None, 0


def enrich_object(obj, text=True):
    """Children that make every branch of the copy code reachable: a property group whose member
    order differs from the identifier order, a text and a referenced child of the natural
    association (typed children, value map), an OBJECT-associated text child."""
    assoc, n = natural_association(obj)
    if is_a(obj, "Drillhole"):
        return
    if not is_a(obj, "GeoImage"):
        obj.add_data({"note": {"values": "hello", "association": "OBJECT", "type": "TEXT"}})
    if assoc is None:
        return
    d_a, d_b = obj.add_data(
        {
            "pg_a": {"values": np.arange(n, dtype=float) + 0.5, "association": assoc},
            "pg_b": {"values": np.arange(n, dtype=float) * 2.0 - 1.0, "association": assoc},
        }
    )
    obj.add_data_to_group([d_b, d_a], "PG")
    if text:
        obj.add_data({"txt": {"values": np.array([("t" * (k % 3 + 1)) for k in range(n)]), "association": assoc, "type": "TEXT"}})
    obj.add_data(
        {
            "ref": {
                "values": (np.arange(n) % 3).astype("int32"),
                "association": assoc,
                "type": "REFERENCED",
                "value_map": {0: "Unknown", 1: "one", 2: "two"},
            },
        }
    )


def enrich_drillhole_group(ws, grp):
    """What the fast path of Concatenator.copy treats separately: plain (non-concatenated) children
    of the group - an attached file and a comment with a fixed date - and, on the first hole,
    interval data whose name contains '/' (stored under an escaped name in the file)."""
    from geoh5py.data import Data

    grp.add_file(b"\x00c12 attached bytes\xff", name="attached.dat")
    ws.create_entity(
        Data,
        entity={"name": "UserComments", "association": "OBJECT", "parent": grp,
                "values": [{"Author": "c12", "Date": "2024-03-01T00:00:00", "Text": "group comment"}]},
        entity_type={"primitive_type": "TEXT"},
    )
    hole = sorted((c for c in grp.children if is_a(c, "Drillhole")), key=lambda c: c.name)[0]
    hole.add_data({"Au g/t": {"from-to": np.array([[0.0, 5.0], [5.0, 15.0], [15.0, 25.0]]), "values": np.array([0.25, 1.25, 2.75])}})


def enrich_group(ws, grp):
    """Sub-tree of depth 2 below a group: an enriched Points, and a ContainerGroup holding a Curve."""
    from geoh5py.groups import ContainerGroup

    pts = fixtures.FACTORIES["Points"](ws, grp)
    pts.name = "P"
    enrich_object(pts)
    sub = ContainerGroup.create(ws, parent=grp, name="Sub")
    sub.metadata = {"depth": 2}
    crv = fixtures.FACTORIES["Curve"](ws, sub)
    crv.name = "C"


def build(history) -> dict:
    """Workspaces, source entity and target parent of one case."""
    from geoh5py.groups import ContainerGroup
    from geoh5py.objects import Points

    cls, target, disk = history["cls"], history["target"], bool(history.get("disk"))
    kind = fixtures.kind_of(cls)
    ws_a = new_workspace(disk, "a")
    ws_b = new_workspace(disk, "b") if target.startswith("other") else None
    src = fixtures.build_all(ws_a, only=[cls], include_unreadable=True)[cls]
    parent = None
    if kind == "object":
        enrich_object(src, text=history.get("enrich", "full") == "full")
    elif kind == "group" and cls != "RootGroup" and not is_a(src, "Concatenator"):
        enrich_group(ws_a, src)
    elif kind == "group" and is_a(src, "Concatenator"):
        enrich_drillhole_group(ws_a, src)
    elif cls == "RootGroup":
        enrich_group(ws_a, ContainerGroup.create(ws_a, name="G"))
    if kind == "data":
        if target == "same":
            parent = None
        elif target == "group":
            parent = Points.create(ws_a, vertices=fixtures.V4.copy() + 2.0, name="Host2")
        else:
            parent = Points.create(ws_b, vertices=fixtures.V4.copy() + 3.0, name="HostB")
    else:
        if target == "group":
            parent = ContainerGroup.create(ws_a, name="Target")
        elif target == "other":
            Points.create(ws_b, vertices=fixtures.V4.copy(), name="Resident")
            parent = ws_b
        elif target == "othergroup":
            parent = ContainerGroup.create(ws_b, name="TargetB")
    return {"ws_a": ws_a, "ws_b": ws_b, "src": src, "parent": parent, "kind": kind}


def reload_source(scene):
    """Close the source workspace and open its file again read-write; the source entity and
    the target parent are looked up by identifier."""
    Workspace = _workspace()
    ws_a, src, parent = scene["ws_a"], scene["src"], scene["parent"]
    ws_a.close()
    h5 = ws_a.h5file
    ws_new = Workspace(io.BytesIO(h5.getvalue()) if isinstance(h5, io.BytesIO) else h5, mode="r+")
    scene["ws_a"] = ws_new
    scene["src"] = ws_new.root if src is ws_a.root else fixtures.find(ws_new, src)
    if parent is not None and not isinstance(parent, Workspace) and parent.workspace is ws_a:
        scene["parent"] = fixtures.find(ws_new, parent)
    if scene["src"] is None:
        raise core.HarnessError("source entity absent after re-loading its own file")


def make_mask(src, which):
    """Boolean mask for the copy ('all': everything kept; 'part': the vertices of the first
    cell / the second vertex / the second cell or value)."""
    if which == "none":
        return None
    n, cells = None, None
    if is_a(src, "Data"):
        vals = _safe(src, "values")
        if not isinstance(vals, np.ndarray) or vals.ndim != 1:
            return "n/a"
        n = vals.shape[0]
    elif is_a(src, "Group"):
        n = None if is_a(src, "Concatenator", "RootGroup") else 4  # every object of the enrichment sub-tree has four vertices
    elif is_a(src, "GridObject", "DrapeModel"):
        n = int(src.n_cells) if is_a(src, "GridObject") else None
    elif is_a(src, "ObjectBase") and not is_a(src, "Drillhole", "GeoImage", "Label", "NoTypeObject") and getattr(src, "vertices", None) is not None:
        n = int(src.vertices.shape[0])
        cells = getattr(src, "cells", None)
    if n is None:
        return "n/a"
    mask = np.ones(n, dtype=bool)
    if which == "part":
        mask[:] = False
        if cells is not None and len(cells):
            mask[np.asarray(cells)[0]] = True
        else:
            mask[min(1, n - 1)] = True
    return mask


# --------------------------------------------------------------------------- edits of the copy
def resolve(copy, copy_labels, path):
    """Object an edit is applied to, inside the copy."""
    if path == "":
        return copy
    if path == "type":
        return copy.entity_type
    if path.startswith("pg:"):
        return (copy.property_groups or [])[int(path[3:])]
    if path.startswith("sub:"):
        rest = path[4:]
        as_type = rest.endswith("|type")
        ent = copy_labels.entities[rest[:-5] if as_type else rest]
        return ent.entity_type if as_type else ent
    raise ValueError(path)


def _pokeable(v) -> bool:
    if isinstance(v, np.ndarray):
        return v.size > 0 and v.flags.writeable
    if isinstance(v, (dict, list)):
        return True
    return type(v).__name__ in ("ReferenceValueMap", "ColorMap")


def poke(v, nested=False, undo=None) -> bool:  # noqa: C901  pylint: disable=too-many-return-statements,too-many-branches
    """In-place edit of an object returned by a getter; True when something was changed.
    `undo`: list that receives a callable restoring the previous content."""
    undo = [] if undo is None else undo
    if isinstance(v, np.ndarray):
        if v.dtype.names:
            return poke(v[v.dtype.names[0]], undo=undo)
        idx = (0,) * v.ndim
        old = v[idx]
        if v.dtype.kind == "b":
            new = not bool(old)
        elif v.dtype.kind in "iu":
            new = old + 1
        elif v.dtype.kind == "f":
            new = 12345.5 if not old == 12345.5 else 54321.5
        elif v.dtype.kind in "US":
            new = "Z" if old != "Z" else "Y"
        elif v.dtype.kind == "O":
            new = "poked"
        else:
            return False
        saved = old.copy() if hasattr(old, "copy") else old
        v[idx] = new
        undo.append(lambda: v.__setitem__(idx, saved))
        return True
    if isinstance(v, dict):
        if nested:
            for val in v.values():
                if isinstance(val, (dict, list)):
                    return poke(val, undo=undo)
            return False
        v["c12-poke"] = 1
        undo.append(lambda: v.pop("c12-poke", None))
        return True
    if isinstance(v, list):
        if v and isinstance(v[-1], (int, float)) and not isinstance(v[-1], bool):
            v.append(v[-1] + 1.0)
        elif v and isinstance(v[-1], dict):
            v.append(dict(v[-1]))
        else:
            v.append("c12-poke")
        undo.append(lambda: v.pop())
        return True
    name = type(v).__name__
    if name == "ReferenceValueMap":
        if nested:
            return poke(v.map, undo=undo)
        key = sorted(v.map)[-1]
        saved = v.map[key]
        v[key] = "poked"  # value-map item assignment
        undo.append(lambda: v.map.__setitem__(key, saved))
        return True
    if name == "ColorMap":
        return poke(getattr(v, "_values"), undo=undo)
    return False


def edit_targets(copy, copy_labels, same_workspace) -> list:
    """[(path, object)] edited in a copy: the copy, its entity type (other workspace only: a type
    is shared by design inside one workspace), its first property group, and in its sub-tree the
    first data child (and type), first object, first group, first hole and the hole's first data."""
    out = [("", copy)]
    if not same_workspace:
        out.append(("type", copy.entity_type))
    if getattr(copy, "property_groups", None):
        names = [p.name for p in copy.property_groups]
        k = names.index(sorted(names)[0])
        out.append((f"pg:{k}", copy.property_groups[k]))
    picked = {}
    for lab in sorted(copy_labels.entities):
        if lab == "@":
            continue
        ent = copy_labels.entities[lab]
        k = kind_of(ent) + ":" + str(lab.count("/"))
        if is_a(ent, "ReferencedData") and "ref" not in picked:
            picked["ref"] = lab
        if k not in picked:
            picked[k] = lab
    for lab in sorted(set(picked.values())):
        ent = copy_labels.entities[lab]
        out.append((f"sub:{lab}", ent))
        if not same_workspace and kind_of(ent).startswith("data"):
            out.append((f"sub:{lab}|type", ent.entity_type))
    return out


def enumerate_edits(copy, copy_labels, same_workspace) -> list:
    """All edits of one copy, in-place edits first (a setter may replace the object a later
    in-place edit would have reached), then one setter call per settable attribute."""
    pokes, sets = [], []
    for path, obj in edit_targets(copy, copy_labels, same_workspace):
        names = observed_names(obj) if not is_a(obj, "PropertyGroup") else []
        for attr in names:
            val = _safe(obj, attr)
            if _pokeable(val):
                pokes.append(["poke", path, attr, 0])
                if isinstance(val, dict) and any(isinstance(x, (dict, list)) for x in val.values()) or type(val).__name__ == "ReferenceValueMap":
                    pokes.append(["poke2", path, attr, 0])
        for attr in domains.settable_attributes(obj):
            try:
                nvals = len(domains.values_for(obj, attr))
            except core.HarnessError:
                raise
            except Exception:  # pylint: disable=broad-except
                continue
            for vi in range(nvals):
                sets.append(["set", path, attr, vi])
    # convenience setters that write INTO another stored field (domains.VIEWS) go before the setters
    # that replace that field as a whole, which would hide a shared nested object from them
    sets.sort(key=lambda e: 0 if e[2] in domains.VIEWS else 1)
    return pokes + sets


def apply_edit(copy, copy_labels, edit) -> dict:
    kind, path, attr, vi = edit
    info = {"edit": edit, "status": "refused", "defining": None, "role": None}
    try:
        obj = resolve(copy, copy_labels, path)
    except Exception as err:  # pylint: disable=broad-except
        info["error"] = f"resolve: {type(err).__name__}"
        return info
    info["defining"] = defining_class(obj, attr)
    info["role"] = "self" if path == "" else ("type" if path.endswith("type") else kind_of(obj))
    try:
        if kind == "set":
            vals = domains.values_for(obj, attr)
            if vi >= len(vals):
                info["error"] = "no such value"
                return info
            with time_limit():
                setattr(obj, attr, vals[vi])
            info["status"] = "applied"
        else:
            val = getattr(obj, attr)
            undo = []
            info["status"] = "applied" if poke(val, nested=(kind == "poke2"), undo=undo) else "refused"
            info["undo"] = undo
    except Exception as err:  # pylint: disable=broad-except
        info["error"] = f"{type(err).__name__}: {str(err)[:120]}"
    return info


# --------------------------------------------------------------------------- execution
class CopyTimeout(Exception):
    """The library call did not return within the limit (an endless loop is a failed copy)."""


TIME_LIMIT = float(__import__("os").environ.get("VERIF_C12_TIME_LIMIT", "60"))


class time_limit:  # pylint: disable=invalid-name
    """Raise CopyTimeout inside the block after `seconds`; fires again every half second because
    an exception raised inside a weak-reference callback or __del__ is swallowed by the interpreter."""

    def __init__(self, seconds=None):
        self.seconds = TIME_LIMIT if seconds is None else seconds
        self.armed = False
        self.old = None

    def _fire(self, *_):
        if self.armed:
            raise CopyTimeout(f"no return within {self.seconds:.0f} s")

    def __enter__(self):
        import signal

        self.old = signal.signal(signal.SIGALRM, self._fire)
        self.armed = True
        signal.setitimer(signal.ITIMER_REAL, self.seconds, 0.5)

    def __exit__(self, *exc):
        import signal

        self.armed = False
        signal.setitimer(signal.ITIMER_REAL, 0)
        signal.signal(signal.SIGALRM, self.old)
        return False


def where_raised(err) -> str:
    """module.function of the innermost geoh5py frame of an exception (stable witness)."""
    frames = traceback.extract_tb(err.__traceback__)
    for fr in reversed(frames):
        if "geoh5py" in fr.filename:
            mod = fr.filename.split("geoh5py")[-1].strip("/").replace(".py", "").replace("/", ".")
            return f"{mod}.{fr.name}"
    return "harness"


def prepare(history) -> dict:  # noqa: C901  pylint: disable=too-many-branches,too-many-statements,too-many-locals
    """Build the scene, observe the source workspace, copy once, observe again.  Returns the
    live state `st` (st["obs"] holds the observations; st["copy"] is None when no copy exists)."""
    Workspace = _workspace()
    obs = {"phase": "build", "edits": [], "n_exec": 0}
    twin = None
    if history["cls"] in DEFERRED_STORAGE:
        # the concatenated tables reach the file when the workspace is closed: the "before" file
        # is the one an identical, closed twin scene leaves (identifiers are deterministic)
        world.reset("asc")
        tw = build(history)
        tw["ws_a"].close()
        twin = file_bytes(tw["ws_a"], closed=True)
        _close_all(tw["ws_b"])
        _unlink(tw["ws_a"])
    world.reset("asc")
    scene = build(history)
    if history.get("pre"):
        if history["cls"] in fixtures.UNREADABLE:
            obs["phase"] = "source-file-unreadable"
            _close_all(scene["ws_a"], scene["ws_b"])
            return {"obs": obs, "copy": None, "ws_a": None, "ws_b": None}
        reload_source(scene)
    ws_a, ws_b, src, parent = scene["ws_a"], scene["ws_b"], scene["src"], scene["parent"]
    same_ws = ws_b is None
    st = {"obs": obs, "ws_a": ws_a, "ws_b": ws_b, "src": src, "parent": parent, "same_ws": same_ws, "copy": None, "history": history}
    obs["kind"] = scene["kind"]
    obs["src_class"] = type(src).__name__
    obs["copy_defined_in"] = defining_class(src, "copy")
    obs["src_uid"] = src.uid.hex

    # ---- before (the first pass lets getters with side effects settle)
    workspace_records(ws_a)
    all0 = workspace_records(ws_a)
    st["all0"] = all0
    st["bytes0"] = twin if twin is not None else file_bytes(ws_a)
    st["dig0"] = rawh5.digests(st["bytes0"])
    obs["source_uids"] = sorted(k[3:] for k in all0)
    mask = make_mask(src, history.get("mask", "none"))
    if isinstance(mask, str):
        obs["phase"] = "mask-not-applicable"
        return st

    # ---- the copy
    kwargs = {"clear_cache": bool(history.get("clear"))}
    if parent is not None:
        kwargs["parent"] = parent
    if scene["kind"] != "data":
        kwargs["copy_children"] = bool(history.get("cc", True))
    if mask is not None:
        kwargs["mask"] = mask
        obs["mask"] = mask.tolist()
    obs["phase"] = "copy"
    obs["n_exec"] += 1
    try:
        with time_limit():
            copy = src.copy(**kwargs)
    except CopyTimeout as err:
        obs["copy_error"] = {"type": "Timeout", "where": "copy-did-not-return", "msg": str(err)}
        copy = None
    except Exception as err:  # pylint: disable=broad-except
        obs["copy_error"] = {"type": type(err).__name__, "where": where_raised(err), "msg": str(err)[:200]}
        copy = None
    if copy is None:
        obs.setdefault("copy_error", {"type": "None", "where": "returned-None", "msg": ""})
    # ---- after the copy: source side
    obs["phase"] = "after-copy"
    st["parent_key"] = _parent_key(src, parent, same_ws)
    all1 = workspace_records(ws_a, only=all0)
    st["all1"] = all1
    obs["source_live_diff"] = diff_records(all0, {k: v for k, v in all1.items() if k in all0}, ignore_children_of=st["parent_key"])
    obs["parent_uid"] = str(_expected_parent(src, parent).uid) if (same_ws and _expected_parent(src, parent) is not None) else None
    if copy is None:
        return st
    st["copy"] = copy
    target_ws = ws_b if ws_b is not None else ws_a
    obs["copy_class"] = type(copy).__name__
    obs["copy_is_source"] = copy is src
    obs["copy_parent_ok"] = _expected_parent(src, parent) is copy.parent
    cpy_recs, cpy_labels = tree_records(copy, (target_ws,))
    st["cpy_labels"] = cpy_labels
    src_recs1, _ = tree_records(src, (ws_a,))
    obs["src_recs"] = src_recs1
    obs["cpy_recs"] = cpy_recs
    obs["pg_dangling"] = _dangling_members(copy)
    copy_uids = {u.hex for u in cpy_labels.by_uid}
    for link in LINKS:  # a survey copy brings a copy of its complement: part of the copy's footprint
        comp = _safe(copy, link) if isinstance(getattr(type(copy), link, None), property) else None
        if is_entity(comp) and comp.uid.hex not in obs["source_uids"]:
            lab = Labels()
            lab.walk(comp)
            copy_uids |= {u.hex for u in lab.by_uid}
    st["copy_uids"] = copy_uids
    if history.get("list_edits"):
        obs["available_edits"] = enumerate_edits(copy, cpy_labels, same_ws)
    return st


def before_reopen(st) -> dict:
    """Records of the source file as it was before the copy, through a read-only re-opening."""
    if "before" not in st:
        ws_0 = _workspace()(io.BytesIO(st["bytes0"]), mode="r+")
        st["before"] = workspace_records(ws_0)
        ws_0.close()
    return st["before"]


def run_edits(st, edits):
    obs, ws_a, copy = st["obs"], st["ws_a"], st["copy"]
    all0 = st["all0"]
    prev_all = st.get("prev_all", st["all1"])
    for edit in edits:
        obs["phase"] = f"edit:{edit}"
        info = apply_edit(copy, st["cpy_labels"], edit)
        obs["n_exec"] += 1
        now = workspace_records(ws_a, only=all0)
        if info["status"] == "applied":
            info["live_diff"] = diff_records({k: v for k, v in prev_all.items() if k in all0}, {k: v for k, v in now.items() if k in all0})
        undo = info.pop("undo", None)
        if undo and len(edits) > 1:
            # inside a sequence an in-place edit is taken back once observed (nothing of it is on file):
            # the following edits and the end-of-sequence checks start from an undisturbed source
            for fn in reversed(undo):
                fn()
            now = workspace_records(ws_a, only=all0) if info.get("live_diff") else now
        prev_all = now  # a refused edit is not judged (it may leave partial state); the next edit starts from here
        obs["edits"].append(info)
    st["prev_all"] = prev_all


def finish(st):
    """Close both files, re-open them read-only, observe once more."""
    Workspace = _workspace()
    obs = st["obs"]
    if st.get("copy") is None:
        _close_all(st.get("ws_a"), st.get("ws_b"))
        return obs
    ws_a, ws_b, src, copy, same_ws = st["ws_a"], st["ws_b"], st["src"], st["copy"], st["same_ws"]
    before = before_reopen(st)
    obs["phase"] = "close"
    try:
        ws_a.close()
        if ws_b is not None:
            ws_b.close()
        bytes_a = file_bytes(ws_a, closed=True)
        bytes_t = bytes_a if same_ws else file_bytes(ws_b, closed=True)
    except Exception as err:  # pylint: disable=broad-except
        obs["close_error"] = {"type": type(err).__name__, "where": where_raised(err), "msg": str(err)[:160]}
        return obs
    obs["phase"] = "reopen"
    try:
        ws_ra = Workspace(io.BytesIO(bytes_a), mode="r+")
        after = workspace_records(ws_ra)
        obs["source_reopen_diff"] = diff_records(before, {k: v for k, v in after.items() if k in before}, ignore_children_of=st["parent_key"])
        obs["final_file_diff"] = _fmt_diff(
            {k: v for k, v in rawh5.diff_digests(st["dig0"], rawh5.digests(bytes_a)).items() if not _key_in(k, st["copy_uids"]) and v != {"created"}}
        )
        if not obs["edits"]:
            ws_rt = ws_ra if same_ws else Workspace(io.BytesIO(bytes_t), mode="r+")
            src_r = ws_ra.root if src.uid == ws_a.root.uid else ws_ra.get_entity(src.uid)[0]
            cpy_r = None if (src.uid == copy.uid and same_ws) else ws_rt.get_entity(copy.uid)[0]
            if src_r is None or cpy_r is None:
                obs["reopen_missing"] = {"source": src_r is None, "copy": cpy_r is None}
            else:
                obs["src_recs_reopen"], _ = tree_records(src_r, (ws_ra,))
                obs["cpy_recs_reopen"], _ = tree_records(cpy_r, (ws_rt,))
            if ws_rt is not ws_ra:
                ws_rt.close()
        ws_ra.close()
    except Exception as err:  # pylint: disable=broad-except
        obs["reopen_error"] = {"type": type(err).__name__, "where": where_raised(err), "msg": str(err)[:160]}
    obs["phase"] = "done"
    _unlink(ws_a, ws_b)
    world.full_collect()
    return obs


def execute(history) -> dict:
    """Run one history on the real library; returns observations only (see judge)."""
    st = prepare(history)
    if st["copy"] is not None:
        before_reopen(st)  # read before any edit: an in-place edit may reach process-wide defaults of the library
        run_edits(st, history.get("edits") or [])
    return finish(st)


def _close_all(*wss):
    for ws in wss:
        if ws is not None:
            try:
                ws.close()
            except Exception:  # pylint: disable=broad-except
                pass
    _unlink(*wss)
    world.full_collect()


def _unlink(*wss):
    import os

    for ws in wss:
        if ws is not None and not isinstance(ws.h5file, io.BytesIO):
            try:
                os.unlink(ws.h5file)
            except OSError:
                pass


def _expected_parent(src, parent):
    Workspace = _workspace()
    if parent is None:
        return src.parent
    if isinstance(parent, Workspace):
        return parent.root
    return parent


def _parent_key(src, parent, same_ws):
    """Label (workspace_records key) of the entity whose children list legitimately grows."""
    if not same_ws:
        return None
    tgt = _expected_parent(src, parent)
    return None if tgt is None else "id:" + tgt.uid.hex


def _key_in(key, uid_hexes) -> bool:
    for part in key:
        if isinstance(part, str) and part.replace("-", "") in uid_hexes:
            return True
    return False


def _fmt_diff(d) -> list:
    return sorted([list(map(str, k)), sorted(v)] for k, v in d.items())


def _dangling_members(copy) -> list:
    out = []
    kids = {c.uid for c in entity_children(copy)}
    for pg in getattr(copy, "property_groups", None) or []:
        for u in pg.properties or []:
            if u not in kids:
                out.append(str(pg.name))
                break
    return out


def diff_records(a: dict, b: dict, ignore_children_of=None) -> list:
    """[(label, section, attribute, left, right)] for two {label: record} dictionaries."""
    out = []
    for lab in sorted(set(a) | set(b)):
        if lab not in a or lab not in b:
            out.append([lab, "presence", "missing-right" if lab in a else "missing-left", None, None])
            continue
        ra, rb = a[lab], b[lab]
        if ra["cls"] != rb["cls"]:
            out.append([lab, "class", "cls", ra["cls"], rb["cls"]])
        for nm in sorted(set(ra["attrs"]) | set(rb["attrs"])):
            if lab == ignore_children_of and nm in CHILD_REFS + ("image",):
                continue  # pointers to children of the target parent, which legitimately gained a child
            if ra["attrs"].get(nm) != rb["attrs"].get(nm):
                out.append([lab, "attrs", nm, ra["attrs"].get(nm), rb["attrs"].get(nm), {"kind": ra["meta"]["kind"], "def": ra["meta"]["defs"].get(nm) or rb["meta"]["defs"].get(nm)}])
        ta, tb = ra["type"] or {}, rb["type"] or {}
        for nm in sorted(set(ta) | set(tb)):
            if ta.get(nm) != tb.get(nm):
                out.append([lab, "type", nm, ta.get(nm), tb.get(nm), {"kind": ra["meta"]["kind"], "tcls": ta.get("cls") or tb.get("cls")}])
        for nm in sorted(set(ra["pgs"]) | set(rb["pgs"])):
            if ra["pgs"].get(nm) != rb["pgs"].get(nm):
                out.append([lab, "pgs", nm, ra["pgs"].get(nm), rb["pgs"].get(nm), {"kind": ra["meta"]["kind"]}])
        if lab != ignore_children_of and ra["children"] != rb["children"]:
            out.append([lab, "children", "children", ra["children"], rb["children"], {"kind": ra["meta"]["kind"]}])
    return out


# --------------------------------------------------------------------------- judgement
CC_FALSE_SKIP = set(CHILD_REFS) | {"image", "extent"}
POINTS_LIKE = ("Points", "IntegratorPoints")
CELL_LIKE = ("Curve", "AirborneMagnetics", "Surface", "NeighbourhoodSurface")
GRID_LIKE = ("Grid2D", "BlockModel", "Octree")


def _entry_witness(entry, recs_a, recs_b) -> str:
    lab, section, name = entry[0], entry[1], entry[2]
    rec = recs_a.get(lab) or recs_b.get(lab)
    role = "self" if lab == "@" else rec["meta"]["kind"]
    if section == "attrs":
        return f"{rec['meta']['defs'].get(name, rec['cls'])}.{name}@{role}"
    if section == "type":
        return f"{(rec['type'] or {}).get('cls', 'EntityType')}.{name}@type-of-{role}"
    if section == "pgs":
        return f"property-group@{role}"
    if section == "children":
        return f"children@{role}"
    if section == "presence":
        return f"{name}:{rec['cls'] if rec['meta']['kind'].startswith('data') else rec['meta']['kind']}"
    return f"{section}@{role}"


def _without_pg_list(meta):
    """EM metadata without the list of component property groups (owned by the children)."""
    if isinstance(meta, dict) and isinstance(meta.get("EM Dataset"), dict):
        inner = {k: v for k, v in meta["EM Dataset"].items() if k != "Property groups"}
        return dict(meta, **{"EM Dataset": inner})
    return meta


def compare_copy(history, obs, src_recs, cpy_recs, phase) -> list:
    """copy-equals-source for one phase ('live' | 'reopen')."""
    viol = []
    cc = history.get("cc", True) or fixtures.kind_of(history["cls"]) == "data"
    mask = history.get("mask", "none")
    expected, unmodelled = src_recs, set()
    if mask == "part":
        expected, unmodelled = mask_model(history, obs, src_recs)
    entries = diff_records(expected, cpy_recs)
    tag = f"[{phase}]" + ("[mask]" if mask != "none" else "")
    seen = set()
    for e in entries:
        lab, section, name = e[0], e[1], e[2]
        if not cc:
            # "without children": what is stored in, or derived from, the children is not expected
            if lab != "@" or section in ("children", "pgs", "presence") or (section == "attrs" and name in CC_FALSE_SKIP):
                continue
            if section == "attrs" and name == "metadata" and _without_pg_list(e[3]) == _without_pg_list(e[4]):
                continue
        if (lab, section, name) in unmodelled:
            continue
        if section == "type" and name == "uid":
            continue  # identifiers are property C06; "equal attributes" is read modulo identifiers
        if history["cls"] == "RootGroup" and lab == "@" and (section in ("class", "type") or (section == "attrs" and name != "metadata")):
            continue  # name, flags and type of the root are hard-wired; its copy is an ordinary group
        if lab.rsplit(":", 1)[-1] in BOOKKEEPING and (section == "type" or (section == "attrs" and name == "values")):
            continue  # compared through "values(mapped)": the copy may renumber these references
        wit = _entry_witness(e, expected, cpy_recs) + tag
        if wit in seen:
            continue
        seen.add(wit)
        viol.append(("copy-equals-source", wit, {"label": lab, "section": section, "attribute": name, "source": e[3], "copy": e[4]}))
    return viol


def _sub(values, keep):
    return [v for v, k in zip(values, keep) if k]


def mask_model(history, obs, src_recs):  # noqa: C901  pylint: disable=too-many-branches,too-many-locals
    """Expected records of a copy made with the 'part' mask, for the classes whose masking rule is
    documented: vertices and cells sub-sampled and re-indexed, data of the masked association
    sub-sampled (objects with vertices), grid data and data copied alone blanked with the class's
    own no-data value.  Whatever else a mask may touch is returned as unmodelled and not compared."""
    import copy as _copy

    exp = _copy.deepcopy(src_recs)
    unmodelled = set()
    mask = obs.get("mask")
    cls = history["cls"]
    root = exp["@"]
    modelled = cls in POINTS_LIKE + CELL_LIKE + GRID_LIKE or (fixtures.kind_of(cls) == "data" and isinstance(root["attrs"].get("values"), list))
    if not modelled or mask is None:
        for lab, rec in exp.items():
            for nm in rec["attrs"]:
                if nm in GEOMETRY or nm in ("values", "values(mapped)", "ab_cell_id", "tx_id_property", "metadata"):
                    unmodelled.add((lab, "attrs", nm))
            unmodelled.add((lab, "type", "value_map"))
        return exp, unmodelled
    if fixtures.kind_of(cls) == "data":
        nan = root["attrs"].get("nan_value")
        vals = root["attrs"]["values"]
        if len(vals) == len(mask) and cls in ("FloatData", "IntegerData"):
            root["attrs"]["values"] = [v if k else nan for v, k in zip(vals, mask)]
        else:
            unmodelled |= {("@", "attrs", "values"), ("@", "attrs", "values(mapped)")}
        return exp, unmodelled
    for nm in ("extent", "parts", "centroids"):
        unmodelled.add(("@", "attrs", nm))
    cell_mask = None
    if cls in POINTS_LIKE + CELL_LIKE:
        root["attrs"]["vertices"] = _sub(root["attrs"]["vertices"], mask)
        if cls in CELL_LIKE:
            new_id, k = {}, 0
            for i, keep in enumerate(mask):
                if keep:
                    new_id[i] = k
                    k += 1
            cells = [[int(c) for c in row] for row in root["attrs"]["cells"]]
            cell_mask = [all(mask[c] for c in row) for row in cells]
            root["attrs"]["cells"] = [[float(new_id[c]) for c in row] for row, keep in zip(cells, cell_mask) if keep]
    for lab, rec in exp.items():
        if lab == "@" or not rec["meta"]["kind"].startswith("data"):
            continue
        vals, assoc = rec["attrs"].get("values"), rec["attrs"].get("association")
        if not isinstance(vals, list):
            continue
        if cls in GRID_LIKE:
            if len(vals) == len(mask) and rec["cls"] == "FloatData":
                rec["attrs"]["values"] = [v if k else None for v, k in zip(vals, mask)]
            elif len(vals) == len(mask):
                unmodelled |= {(lab, "attrs", "values"), (lab, "attrs", "values(mapped)")}
            continue
        keep = mask if assoc == "VERTEX" else (cell_mask if assoc == "CELL" else None)
        if keep is not None and len(keep) == len(vals):
            rec["attrs"]["values"] = _sub(vals, keep)
            if rec["cls"] in ("TextData", "DatetimeData") and len(rec["attrs"]["values"]) == 1:
                rec["attrs"]["values"] = rec["attrs"]["values"][0]
            if "values(mapped)" in rec["attrs"] and isinstance(rec["attrs"]["values(mapped)"], list):
                rec["attrs"]["values(mapped)"] = _sub(rec["attrs"]["values(mapped)"], keep)
    return exp, unmodelled


def _allowed_file_change(key, comps, obs) -> bool:
    if comps == ["created"]:
        return True
    return bool(obs.get("parent_uid")) and key[0] == "node" and key[-1] == obs["parent_uid"] and comps == ["links"]


def judge(history, obs) -> list:  # noqa: C901  pylint: disable=too-many-branches,too-many-locals,too-many-statements
    """[(clause, witness, detail)]"""
    viol = []
    if obs["phase"] in ("mask-not-applicable", "source-file-unreadable"):
        return viol
    mask = history.get("mask", "none")
    mtag = "[mask]" if mask != "none" else ""
    ctag = "[clear_cache]" if history.get("clear") else ""
    source_changed = False
    if obs.get("source_live_diff"):
        # one copy, one disturbance: the signature names the most basic changed field (geometry first,
        # then other fields of objects / groups, then data), the detail lists every changed field
        source_changed = True
        first = sorted(obs["source_live_diff"], key=_rank)[0]
        viol.append(("source-unchanged", _diff_witness(first) + ctag, {"changed": [e[:5] for e in obs["source_live_diff"][:8]], "copy_error": obs.get("copy_error")}))
    if "copy_error" in obs:
        if source_changed:
            return viol  # the failed copy is reported through the damage it left in the source
        err = obs["copy_error"]
        if err["type"] == "None":
            wit = f"{obs['copy_defined_in']}.copy:returns-None"
        else:
            wit = f"{err['type']}@{err['where']}{mtag}"
        viol.append(("copy-yields-entity", wit, {"class": obs["src_class"], "error": err}))
        return viol
    if obs["copy_class"] != obs["src_class"] and obs["src_class"] != "RootGroup":  # a file has one root: its copy may be any group
        viol.append(("copy-yields-entity", f"{obs['copy_defined_in']}.copy:class-differs", {"source": obs["src_class"], "copy": obs["copy_class"]}))
    if obs["copy_is_source"]:
        viol.append(("copy-yields-entity", f"{obs['copy_defined_in']}.copy:returns-the-source", {}))
    if not obs["copy_parent_ok"]:
        viol.append(("copy-yields-entity", f"{obs['copy_defined_in']}.copy:not-under-the-target-parent", {"class": obs["src_class"]}))
    # ---- source unchanged by the copy (live getters, then the flushed file)
    file_changed = False
    for key, comps in obs.get("file_diff") or []:
        if not _allowed_file_change(key, comps, obs):
            file_changed = True
            viol.append(("source-file-unchanged", _file_witness(key, comps), {"key": key, "components": comps}))
    # ---- copy equals source (meaningless once the source itself was changed: reported above)
    live_unequal = []
    if not source_changed:
        live_unequal = compare_copy(history, obs, obs["src_recs"], obs["cpy_recs"], "live")
        viol += live_unequal
    if obs.get("pg_dangling"):
        viol.append(("copy-equals-source", "property-group-member-not-a-child-of-the-copy", {"groups": obs["pg_dangling"]}))
    for k in ("close_error", "reopen_error"):
        if k in obs:
            err = obs[k]
            if not obs["edits"]:  # after edits the copy may be invalid by the harness's own doing: not judged (outcome "aborted")
                viol.append(("copy-equals-source", f"{k.split('_')[0]}-raises:{err['type']}@{err['where']}", {"error": err}))
            return viol
    # ---- edits of the copy
    shown = False
    for idx, info in enumerate(obs["edits"]):
        if info["status"] != "applied" or not info.get("live_diff"):
            continue
        shown = True  # one edit, one action: one signature, every affected field in the detail
        viol.append(("copy-independent", f"{_edit_name(info)}->live", {"edit": info["edit"], "edit_index": idx, "shows_in": [e[:5] for e in info["live_diff"][:6]]}))
    if obs["edits"]:
        applied = [i for i in obs["edits"] if i["status"] == "applied"]
        single = len(obs["edits"]) == 1 and len(applied) == 1
        name = _edit_name_stored(applied[-1]) if single else "edit-sequence"
        if applied and not (shown and single) and not source_changed and not file_changed:
            bad = [[key, comps] for key, comps in obs.get("final_file_diff") or [] if not _allowed_file_change(key, comps, obs)]
            if bad:
                viol.append(("copy-independent", f"{name}->file", {"nodes": bad[:6], "edits": [i["edit"] for i in applied][-6:]}))
            elif obs.get("source_reopen_diff"):
                viol.append(("copy-independent", f"{name}->reopen", {"shows_in": [e[:5] for e in obs["source_reopen_diff"][:6]], "edits": [i["edit"] for i in applied][-6:]}))
    else:
        if not source_changed and not file_changed:
            for key, comps in obs.get("final_file_diff") or []:
                if not _allowed_file_change(key, comps, obs):
                    file_changed = True
                    viol.append(("source-file-unchanged", _file_witness(key, comps), {"key": key, "components": comps}))
        if not source_changed:
            seen = set()
            if obs.get("source_reopen_diff"):
                first = sorted(obs["source_reopen_diff"], key=_rank)[0]
                seen.add(1)
                viol.append(("source-unchanged", _diff_witness(first) + "[reopen]" + ctag, {"changed": [e[:5] for e in obs["source_reopen_diff"][:8]]}))
            if obs.get("reopen_missing"):
                viol.append(("copy-equals-source", "absent-after-reopen:" + ("copy" if obs["reopen_missing"]["copy"] else "source"), obs["reopen_missing"]))
            elif "src_recs_reopen" in obs and not seen and not live_unequal:  # re-opened copies are judged when the live ones were equal
                viol += compare_copy(history, obs, obs["src_recs_reopen"], obs["cpy_recs_reopen"], "reopen")
    return viol


def _rank(entry):
    section, name = entry[1], entry[2]
    kind = ((entry[5] if len(entry) > 5 else None) or {}).get("kind", "")
    if section == "attrs" and name in ("vertices", "cells"):
        return (0, name, entry[0])
    if not kind.startswith("data"):
        return (1, section, name, entry[0])
    return (2, section, name, entry[0])


def _edit_name(info) -> str:
    kind, _path, attr, _vi = info["edit"]
    return f"{'set' if kind == 'set' else 'inplace'}:{info['defining']}.{attr}"


def _edit_name_stored(info) -> str:
    """Name of an edit whose effect was found in the source FILE: attributes of concatenated holes
    and data all live in one table of their group, so the attribute is incidental there."""
    if "+concat" in (info.get("role") or ""):
        return f"{'set' if info['edit'][0] == 'set' else 'inplace'}:attribute-of-concatenated-entity"
    return _edit_name(info)


def _edit_tag(obs) -> str:
    applied = [i for i in obs["edits"] if i["status"] == "applied"]
    if not applied:
        return ""
    return "[after " + (_edit_name(applied[-1]) if len(obs["edits"]) == 1 else "edit-sequence") + "]"


def _diff_witness(entry) -> str:
    """Witness of one changed field of a source-side record."""
    section, name = entry[1], entry[2]
    meta = (entry[5] if len(entry) > 5 else None) or {}
    role = meta.get("kind", "entity")
    if section == "attrs":
        return f"{meta.get('def', '?')}.{name}@{role}"
    if section == "type":
        return f"{meta.get('tcls', 'EntityType')}.{name}@type-of-{role}"
    return f"{section}@{role}"


def _file_witness(key, comps) -> str:
    if key[0] == "node":
        return f"node:{key[1]}:{'+'.join(comps)}"
    return f"{key[0]}:{'+'.join(comps)}"


# --------------------------------------------------------------------------- workers
def outcome_of(history, obs, viol) -> tuple:
    if obs["phase"] in ("mask-not-applicable", "source-file-unreadable"):
        res = obs["phase"]
    elif "copy_error" in obs:
        res = "copy-raised:" + obs["copy_error"]["type"]
    elif "close_error" in obs or "reopen_error" in obs:
        res = "aborted"
    else:
        res = "copied"
    return (history["cls"], history["target"], bool(history.get("cc", True)), bool(history.get("clear")), history.get("mask", "none"),
            bool(history.get("pre")), res, tuple(i["status"] for i in obs["edits"]), tuple(sorted({v[0] for v in viol})))


def _state_of(history, obs) -> str:
    return core.digest([history["cls"], history["target"], obs.get("src_recs"), obs.get("cpy_recs"), obs.get("mask"),
                        [(i["edit"], i["status"]) for i in obs["edits"]], obs.get("source_reopen_diff"), obs.get("cpy_recs_reopen")])


def _result(history, obs, viol) -> dict:
    return {
        "viol": [[history, c, w, d] for c, w, d in viol],
        "outcome": outcome_of(history, obs, viol),
        "state": _state_of(history, obs),
        "n_exec": obs["n_exec"],
        "statuses": [i["status"] for i in obs["edits"]],
        "errors": {core.jdump(i["edit"]): i.get("error") for i in obs["edits"] if i["status"] != "applied"},
        "n_entities": len(obs.get("src_recs") or {}),
        "aborted": "close_error" in obs or "reopen_error" in obs,
    }


def run_case(history) -> dict:
    """One plain execution (base case or edit history), judged."""
    obs = execute(history)
    return _result(history, obs, judge(history, obs))


def run_case_isolated(history) -> dict:
    """run_case in a forked clone: in-place edits may reach module-level objects of the library
    (shared defaults), which must not leak into the next case of a long-lived worker."""
    return run_forked(lambda: run_case(history))


def replay(history) -> list:
    obs = execute(history)
    return judge(history, obs)


def describe(history) -> dict:
    """Discovery step: the edits available on the copy made by `history` (not judged)."""
    st = prepare(dict(history, edits=[]))
    out = {"history": history, "edits": [], "copy_class": None}
    if st.get("copy") is not None:
        out["edits"] = enumerate_edits(st["copy"], st["cpy_labels"], st["same_ws"])
        out["copy_class"] = type(st["copy"]).__name__
    _close_all(st.get("ws_a"), st.get("ws_b"))
    return out


def run_forked(fn):
    """fn() in a forked clone of this process (live Python objects and in-memory files are
    copied on write); returns fn's picklable result."""
    import os
    import pickle

    rfd, wfd = os.pipe()
    pid = os.fork()
    if pid == 0:
        code = 0
        try:
            os.close(rfd)
            out = pickle.dumps(("ok", fn()))
        except BaseException:  # pylint: disable=broad-except
            out = pickle.dumps(("err", traceback.format_exc()))
            code = 1
        try:
            with os.fdopen(wfd, "wb") as fh:
                fh.write(out)
        finally:
            os._exit(code)
    os.close(wfd)
    with os.fdopen(rfd, "rb") as fh:
        data = fh.read()
    os.waitpid(pid, 0)
    status, payload = pickle.loads(data)
    if status != "ok":
        raise core.HarnessError(f"forked execution failed:\n{payload}")
    return payload


def run_singles(item) -> list:
    """item = {"base": history without edits, "edits": [edit, ...]}: every edit alone, each in a
    forked clone of ONE prepared scene (build + copy done once).  Same result as run_case on
    dict(base, edits=[edit]) - cross-checked by the property module."""
    base, edits = item["base"], item["edits"]
    if base.get("disk"):
        return [run_case_isolated(dict(base, edits=[e])) for e in edits]
    st = prepare(dict(base, edits=[]))
    if st.get("copy") is None:
        obs = finish(st) if st.get("ws_a") is not None else st["obs"]
        res = _result(dict(base, edits=[]), obs, [])
        return [res for _ in edits]
    before_reopen(st)
    uid_n = world.uid_counter()
    out = []
    for e in edits:
        hist = dict(base, edits=[e])

        def child(hist=hist, e=e):
            world._STATE["n"] = uid_n  # pylint: disable=protected-access
            run_edits(st, [e])
            obs = finish(st)
            return _result(hist, obs, judge(hist, obs))

        out.append(run_forked(child))
    _close_all(st["ws_a"], st["ws_b"])
    return out


def _sequence_exec(history):
    obs = execute(history)
    viol = judge(history, obs)
    return _result(history, obs, viol), viol


def run_sequence(history) -> dict:
    """All edits of history["edits"] one after the other on ONE copy (in a forked clone of the
    worker); the source is observed after every edit.  A show-through seen right after one edit is
    confirmed by running that edit alone; when the end-of-sequence checks (re-opened source, file
    digests) fail, or the sequence had to be aborted, every edit is run again alone."""
    res, viol = run_forked(lambda: _sequence_exec(history))
    out = []
    unattributed = False
    for c, w, d in viol:
        if c == "copy-independent" and "edit_index" in d:
            # seen right after edit k: the prefix up to k is a complete, replayable history
            out.append([dict(history, edits=history["edits"][: d["edit_index"] + 1]), c, w, dict(d)])
        elif c == "copy-independent":
            unattributed = True
        else:
            out.append([dict(history, edits=[]), c, w, d])
    if unattributed or res["aborted"]:
        singles = run_singles({"base": {k: v for k, v in history.items() if k != "edits"}, "edits": history["edits"]})
        found = False
        for r in singles:
            res["n_exec"] += r["n_exec"]
            for h, c, w, d in r["viol"]:
                if c == "copy-independent":
                    found = True
                    out.append([h, c, w, d])
        if unattributed and not found:
            out += [[history, c, w, d] for c, w, d in viol if c == "copy-independent" and "edit_index" not in d]
    res["viol"] = out
    return res
