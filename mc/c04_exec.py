"""C04 - executor, lock-step reference model, observers and oracle clauses for the
concatenated drillhole storage (DrillholeGroup / Concatenator, format versions 2.0, 2.1).

A history is {"property": "C04", "cfg": {"version": 2.0|2.1, "uid_order": "asc"|"desc"},
"scene": name, "alpha": name, "ops": [[kind, args...], ...]}.  Every history is executed on a
fresh in-memory workspace holding one drillhole group "DG"; after the last operation the
state is observed by three observers (live API, closed file read with plain h5py, fresh
read-only re-opening) and each is compared with the reference model.

Alphabet (holes A,B,C; data names x,y (+z as rename target); groups G,K depth tables, H interval table)
    add_hole h nsurv            Drillhole.create(ws, parent=DG, surveys=nsurv rows)
    copy_hole src dst           src.copy(parent=DG, name=...)
    add h name g n short how    hole.add_data({name: {depth|from-to: locs, values: tags}}, property_group=g)
    update h name               data.values = new tags (same length)
    resurvey h                  hole.surveys = other number of rows
    rename_hole h               hole.name = ...
    rename_data h name          data.name = "z"
    rm_data h name via          via=ws: workspace.remove_entity(data) ; via=parent: hole.remove_children([data])
    rm_group h g via            same two entry points on the property group
    rm_hole h via               workspace.remove_entity(hole) ; DG.remove_children([hole])
    copy where                  DG.copy() (same workspace) ; DG.copy(parent=other workspace)
    reopen                      close, open the bytes again (r+)

Every value written is a unique tag 1000*hole + 100*name + 10*version + i (depths:
100*hole + 10*group + 0.25*generation + i), exactly representable in float32, so foreign or
stale content is recognisable.
"""

from __future__ import annotations

import copy as _copy
import io
import os
import pickle
import traceback

import numpy as np

from . import core, rawh5, world

HOLES = ("A", "B", "C")
HIDX = {"A": 1, "B": 2, "C": 3}
NIDX = {"x": 1, "y": 2, "z": 3, "t": 4}
GKIND = {"G": "depth", "H": "interval", "K": "depth"}
GIDX = {"G": 1, "H": 2, "K": 3}
GTYPE = {"depth": "Depth table", "interval": "Interval table"}
ZERO = "00000000-0000-0000-0000-000000000000"
OBJECT_LABELS = ("Surveys", "Trace", "TraceDepth", "Property Group IDs")


# ---------------------------------------------------------------------------
# payloads
# ---------------------------------------------------------------------------
def tags(h, name, ver, n):
    """Unique tags; a NaN gap (None in the model) at position 1 for every second (hole, name) pair, so
    that no-data handling of arrays SHARED between holes is exercised (length >= 2 only)."""
    if name == "t":
        # text data: the width of the entries grows with the hole and with every re-write, so a
        # shared text array must widen whenever a later hole / update brings longer entries
        return [f"{h.lower() * (2 * HIDX[h])}{'+' * (ver % 10)}{i}" for i in range(n)]
    out = [float(1000 * HIDX[h] + 100 * NIDX[name] + 10 * (ver % 10) + i) for i in range(n)]
    if n >= 2 and (HIDX[h] + NIDX[name]) % 2 == 1:
        out[1] = None
    return out


def as_array(vals):
    if vals and isinstance(vals[0], str):
        return np.array(vals)
    return np.array([np.nan if v is None else v for v in vals], dtype=float)


def locs(h, g, gen, n):
    base = 100 * HIDX[h] + 10 * GIDX[g] + 0.25 * (gen % 4)
    return [float(base + i) for i in range(n)]


def survey_rows(h, ver, n):
    return [[10.0 * i, float(10 * HIDX[h] + (ver % 10)), -90.0 + i] for i in range(n)]


def classify(got, exp, h, name, role):
    """Stable description of how a value list differs from the expected one."""
    if got is None:
        return "none"
    if not isinstance(got, list):
        return "not-an-array"
    vals = [v for v in got if isinstance(v, (int, float))]
    if role == "prop":
        for v in vals:
            if 1000 <= v < 4000:
                if int(v) // 1000 != HIDX[h]:
                    return "foreign-hole"
                if (int(v) % 1000) // 100 != NIDX.get(name, -1):
                    return "foreign-data"
            elif 100 <= v < 400:
                return "foreign-depths"
        exp_ver = {(int(v) % 100) // 10 for v in (exp or []) if isinstance(v, (int, float))}
        got_ver = {(int(v) % 100) // 10 for v in vals}
        if exp_ver and got_ver and exp_ver != got_ver:
            return "stale-version"
    else:
        for v in vals:
            if v >= 1000:
                return "foreign-values"
            if 100 <= v < 400 and int(v) // 100 != HIDX[h]:
                return "foreign-hole"
    if exp is not None and len(got) != len(exp):
        return "length"
    if any(v is None for v in got):
        return "nan"
    return "other"


# ---------------------------------------------------------------------------
# reference model (plain dicts / lists)
# ---------------------------------------------------------------------------
def new_model():
    return {"holes": {}, "order": [], "writes": {}, "ggen": {}, "hgen": {}, "copies": [], "stale_groups": []}


def m_assoc_names(hole, kind):
    """Names the library gives to the depth / from-to data of a new group (documented: DEPTH,
    DEPTH(1), ... / FROM, TO, FROM(1), TO(1), ... numbered by the groups of that kind present)."""
    k = sum(1 for g in hole["groups"].values() if g["kind"] == kind)
    lab = f"({k})" if k else ""
    return [f"DEPTH{lab}"] if kind == "depth" else [f"FROM{lab}", f"TO{lab}"]


def m_apply(m, op):
    """Effect of an *accepted* operation on the model."""
    k = op[0]
    H = m["holes"]
    if k == "add_hole":
        _, h, ns = op
        gen = m["hgen"].get(h, 0)
        m["hgen"][h] = gen + 1
        H[h] = {"name": f"{h}{gen}", "nsurv": ns, "sver": 0, "groups": {}, "data": {}, "renamed": 0}
        m["order"].append(h)
    elif k == "copy_hole":
        _, src, dst = op
        gen = m["hgen"].get(dst, 0)
        m["hgen"][dst] = gen + 1
        H[dst] = _copy.deepcopy(H[src])
        H[dst]["name"] = f"{dst}{gen}"
        H[dst]["renamed"] = 0
        H[dst]["origin"] = H[src].get("origin", src)
        m["order"].append(dst)
    elif k == "add":
        _, h, name, g, n, short, _how = op
        hole = H[h]
        kind = GKIND[g]
        if g not in hole["groups"]:
            gen = m["ggen"].get(f"{h}.{g}", 0)
            m["ggen"][f"{h}.{g}"] = gen + 1
            an = m_assoc_names(hole, kind)
            lv = locs(h, g, gen, n)
            hole["groups"][g] = {"kind": kind, "n": n, "gen": gen, "assoc": an, "members": list(an)}
            if kind == "depth":
                hole["data"][an[0]] = {"vals": lv, "group": g, "role": "assoc", "src": h}
            else:
                hole["data"][an[0]] = {"vals": lv, "group": g, "role": "assoc", "src": h}
                hole["data"][an[1]] = {"vals": [v + 0.5 for v in lv], "group": g, "role": "assoc", "src": h}
        grp = hole["groups"][g]
        ver = m["writes"].get(f"{h}.{name}", 0)
        m["writes"][f"{h}.{name}"] = ver + 1
        nv = max(grp["n"] - (1 if short else 0), 0)
        vals = tags(h, name, ver, grp["n"])[:nv] + [None] * (grp["n"] - nv)
        hole["data"][name] = {"vals": vals, "group": g, "role": "prop", "src": h}
        grp["members"].append(name)
    elif k == "update":
        _, h, name = op
        d = H[h]["data"][name]
        ver = m["writes"].get(f"{h}.{name}", 0)
        m["writes"][f"{h}.{name}"] = ver + 1
        d["vals"] = tags(h, name, ver, len(d["vals"]))
        d["src"] = h
    elif k == "resurvey":
        _, h = op
        H[h]["nsurv"] = 3 - H[h]["nsurv"]
        H[h]["sver"] += 1
        H[h].pop("origin", None)
    elif k == "rename_hole":
        _, h = op
        H[h]["renamed"] += 1
        H[h]["name"] = H[h]["name"] + "r"
    elif k == "rename_data":
        _, h, name = op
        hole = H[h]
        hole["data"]["z"] = hole["data"].pop(name)
        grp = hole["groups"][hole["data"]["z"]["group"]]
        grp["members"] = ["z" if x == name else x for x in grp["members"]]
    elif k == "rm_data":
        _, h, name, _via = op
        hole = H[h]
        g = hole["data"].pop(name)["group"]
        grp = hole["groups"][g]
        grp["members"].remove(name)
        if set(grp["members"]) == set(grp["assoc"]):
            # documented: "The property group is removed if only the depth or from/to data are left"
            for an in grp["assoc"]:
                hole["data"].pop(an)
            del hole["groups"][g]
            m["stale_groups"] = sorted(set(m["stale_groups"]) | {g})
    elif k == "rm_protected":
        pass  # never legitimate: whatever the library did, the model keeps the data
    elif k == "rm_group":
        _, h, g, _via = op
        hole = H[h]
        for nm in hole["groups"][g]["members"]:
            hole["data"].pop(nm)
        del hole["groups"][g]
        m["stale_groups"] = sorted(set(m["stale_groups"]) | {g})
    elif k == "rm_hole":
        _, h, _via = op
        m["stale_groups"] = sorted(set(m["stale_groups"]) | set(H[h]["groups"]))
        del H[h]
        m["order"].remove(h)
    elif k == "copy":
        m["copies"].append({"where": op[1], "holes": _copy.deepcopy(H), "order": list(m["order"])})
    elif k == "reopen":
        m["stale_groups"] = []
    else:
        raise core.HarnessError(f"unknown op {op}")


def expected_view(holes: dict) -> dict:
    out = {}
    for h, hole in holes.items():
        sh = hole.get("origin", h)
        out[hole["name"]] = {
            "handle": h,
            "surveys": survey_rows(sh, hole["sver"], hole["nsurv"]),
            "data": {nm: list(d["vals"]) for nm, d in hole["data"].items()},
            "roles": {nm: d["role"] for nm, d in hole["data"].items()},
            "src": {nm: d.get("src", h) for nm, d in hole["data"].items()},
            "groups": {g: {"type": GTYPE[grp["kind"]], "members": sorted(grp["members"])} for g, grp in hole["groups"].items()},
        }
    return out


def enabled(m, alpha, n_ops_done=0):
    ops = []
    H = m["holes"]
    kinds = alpha["ops"]
    live = [h for h in alpha["holes"] if h in H]
    free = [h for h in alpha["holes"] if h not in H]
    via = alpha.get("via", ("ws", "parent"))
    if "add_hole" in kinds and free:
        for ns in alpha.get("nsurv", (1,)):
            ops.append(["add_hole", free[0], ns])
    if "add" in kinds:
        for h in live:
            hole = H[h]
            for name in alpha["names"]:
                if name in hole["data"]:
                    continue
                for g in alpha["groups"]:
                    if g in hole["groups"]:
                        for how in alpha.get("how", ("loc",)):
                            ops.append(["add", h, name, g, hole["groups"][g]["n"], 0, how])
                        if alpha.get("short") and hole["groups"][g]["n"] > 0:
                            ops.append(["add", h, name, g, hole["groups"][g]["n"], 1, "loc"])
                    else:
                        if any(an in hole["data"] for an in m_assoc_names(hole, GKIND[g])):
                            continue  # the library's numbering would reuse a depth label of this hole (excluded)
                        for n in alpha["lens"][GKIND[g]]:
                            ops.append(["add", h, name, g, n, 0, "loc"])
                            if alpha.get("short") and n > 1:
                                ops.append(["add", h, name, g, n, 1, "loc"])
    if "update" in kinds:
        for h in live:
            for name, d in H[h]["data"].items():
                if d["role"] == "prop":
                    ops.append(["update", h, name])
    if "resurvey" in kinds:
        for h in live:
            if H[h]["sver"] < alpha.get("max_resurvey", 1):
                ops.append(["resurvey", h])
    if "rename_hole" in kinds:
        for h in live:
            if H[h]["renamed"] < 1:
                ops.append(["rename_hole", h])
    if "rename_data" in kinds:
        for h in live:
            for name, d in H[h]["data"].items():
                if d["role"] == "prop" and name != "z" and "z" not in H[h]["data"]:
                    ops.append(["rename_data", h, name])
    if "rm_data" in kinds:
        for h in live:
            for name, d in H[h]["data"].items():
                if d["role"] == "prop":
                    for v in via:
                        ops.append(["rm_data", h, name, v])
    if "rm_group" in kinds:
        for h in live:
            for g in H[h]["groups"]:
                for v in via:
                    ops.append(["rm_group", h, g, v])
    if "rm_protected" in kinds:
        for h in live:
            for g in H[h]["groups"]:
                ops.append(["rm_protected", h, g])
    if "rm_hole" in kinds:
        for h in live:
            for v in via:
                ops.append(["rm_hole", h, v])
    if "copy_hole" in kinds and free:
        for h in live:
            ops.append(["copy_hole", h, free[0]])
    if "copy" in kinds and not m["copies"]:
        for where in alpha.get("copy", ("same", "other")):
            ops.append(["copy", where])
    if "reopen" in kinds:
        ops.append(["reopen"])
    return ops


def deviations(ops):
    return {"reopen": sum(1 for o in ops if o[0] == "reopen"), "copy": sum(1 for o in ops if o[0] == "copy")}


# ---------------------------------------------------------------------------
# executor
# ---------------------------------------------------------------------------
class _LeaveBlock(Exception):
    """The exception that leaves the with-block in the close_by="raise" configuration."""


class Exec:
    def __init__(self, cfg=None):
        from geoh5py.groups import DrillholeGroup
        from geoh5py.workspace import Workspace

        cfg = dict(cfg or {})
        cfg.setdefault("version", 2.0)
        cfg.setdefault("uid_order", "asc")
        self.cfg = cfg
        world.reset(cfg["uid_order"])
        self.Workspace = Workspace
        self.ws = Workspace(version=cfg["version"])
        self.ws2 = None
        dg = DrillholeGroup.create(self.ws, name="DG")
        self.dg_uid = dg.uid
        self.copy_uid = None
        self.copy_where = None
        self.model = new_model()
        self.hole_uid = {}  # handle -> uid of the live hole
        self.results = []  # per op: "ok" | "refused:<Exception>"
        self.all_ops = []
        self.before = None  # closed image before the last op

    # -- lookups through the public API ----------------------------------------
    def dg(self):
        return self.ws.get_entity(self.dg_uid)[0]

    def hole(self, h):
        uid = self.hole_uid[h]
        for c in self.dg().children:
            if c.uid == uid:
                return c
        raise LookupError(f"hole {h} not among the children of the group")

    def data(self, h, name):
        ents = self.hole(h).get_data(name)
        if len(ents) != 1 or ents[0] is None:
            raise LookupError(f"get_data({name!r}) on hole {h} returned {len(ents)} entities")
        return ents[0]

    def pg(self, h, g):
        hole = self.hole(h)
        hole.get_data_list()
        for p in hole.property_groups or []:
            if p.name == g:
                return p
        raise LookupError(f"property group {g} not on hole {h}")

    # -- operations --------------------------------------------------------------
    def apply(self, op):
        from geoh5py.objects import Drillhole

        k = op[0]
        m = self.model
        try:
            if k == "add_hole":
                _, h, ns = op
                gen = m["hgen"].get(h, 0)
                new = Drillhole.create(
                    self.ws, parent=self.dg(), name=f"{h}{gen}", collar=[float(HIDX[h]), 0.0, 0.0],
                    surveys=np.array(survey_rows(h, 0, ns)),
                )
                self.hole_uid[h] = new.uid
            elif k == "copy_hole":
                _, src, dst = op
                gen = m["hgen"].get(dst, 0)
                new = self.hole(src).copy(parent=self.dg(), name=f"{dst}{gen}")
                self.hole_uid[dst] = new.uid
            elif k == "add":
                _, h, name, g, n, short, how = op
                hole = self.hole(h)
                mh = m["holes"][h]
                kind = GKIND[g]
                if g in mh["groups"]:
                    grp = mh["groups"][g]
                    lv = locs(h, g, grp["gen"], grp["n"])
                else:
                    lv = locs(h, g, m["ggen"].get(f"{h}.{g}", 0), n)
                nv = max(len(lv) - (1 if short else 0), 0)
                spec = {"values": as_array(tags(h, name, m["writes"].get(f"{h}.{name}", 0), len(lv))[:nv])}
                if how == "loc":
                    if kind == "depth":
                        spec["depth"] = np.array(lv, dtype=float)
                    else:
                        spec["from-to"] = np.c_[np.array(lv, dtype=float), np.array(lv, dtype=float) + 0.5].reshape((-1, 2))
                if name == "t":
                    spec["type"] = "text"
                hole.add_data({name: spec}, property_group=g)
            elif k == "update":
                _, h, name = op
                d = self.data(h, name)
                n = len(m["holes"][h]["data"][name]["vals"])
                d.values = as_array(tags(h, name, m["writes"].get(f"{h}.{name}", 0), n))
            elif k == "resurvey":
                _, h = op
                mh = m["holes"][h]
                self.hole(h).surveys = np.array(survey_rows(h, mh["sver"] + 1, 3 - mh["nsurv"]))
            elif k == "rename_hole":
                _, h = op
                self.hole(h).name = m["holes"][h]["name"] + "r"
            elif k == "rename_data":
                _, h, name = op
                self.data(h, name).name = "z"
            elif k == "rm_data":
                _, h, name, via = op
                d = self.data(h, name)
                if via == "ws":
                    self.ws.remove_entity(d)
                else:
                    self.hole(h).remove_children([d])
            elif k == "rm_protected":
                # the depth / from-to data the library itself creates with allow_delete=False:
                # the workspace must refuse (documented UserWarning) and change nothing
                _, h, g = op
                self.ws.remove_entity(self.data(h, m["holes"][h]["groups"][g]["assoc"][0]))
            elif k == "rm_group":
                _, h, g, via = op
                p = self.pg(h, g)
                if via == "ws":
                    self.ws.remove_entity(p)
                else:
                    self.hole(h).remove_children([p])
            elif k == "rm_hole":
                _, h, via = op
                hole = self.hole(h)
                if via == "ws":
                    self.ws.remove_entity(hole)
                else:
                    self.dg().remove_children([hole])
            elif k == "copy":
                where = op[1]
                if where == "same":
                    new = self.dg().copy()
                else:
                    self.ws2 = self.Workspace(version=self.cfg["version"])
                    new = self.dg().copy(parent=self.ws2)
                self.copy_uid = new.uid
                self.copy_where = where
            elif k == "reopen":
                try:
                    b1, b2 = self.close_all()
                except Exception as err:  # pylint: disable=broad-except
                    self.close_error = (type(err).__name__, repr(err), traceback.format_exc()[-500:])
                    raise
                self.ws = self.Workspace(io.BytesIO(b1))
                if b2 is not None:
                    self.ws2 = self.Workspace(io.BytesIO(b2))
            else:
                raise core.HarnessError(f"unknown op {op}")
        except core.HarnessError:
            raise
        except Exception as err:  # pylint: disable=broad-except
            # a refusal: the model only says "state unchanged"
            self.results.append(f"refused:{type(err).__name__}")
            self.last_error = traceback.format_exc()
            if k == "rm_hole":
                pass
            return False
        m_apply(m, op)
        if k == "rm_hole":
            self.hole_uid.pop(op[1], None)
        self.results.append("ok")
        return True

    def run(self, ops):
        for op in ops:
            self.all_ops.append(op)
            self.apply(op)
        return self

    def _close(self, ws):
        """cfg close_by = "close": ws.close();  "raise": the history is the body of a
        `with workspace:` block that is left through an exception (Workspace.__exit__)."""
        if self.cfg.get("close_by", "close") == "raise":
            try:
                with ws:
                    raise _LeaveBlock()
            except _LeaveBlock:
                pass
        else:
            ws.close()

    def close_all(self):
        self._close(self.ws)
        b1 = self.ws.h5file.getvalue()
        b2 = None
        if self.ws2 is not None:
            self._close(self.ws2)
            b2 = self.ws2.h5file.getvalue()
        return b1, b2

    def cache_shape(self):
        """Which lazy caches are filled (part of the canonical key: later operations depend on it)."""
        out = {}
        try:
            dg = self.dg()
            out["dg"] = [
                getattr(dg, "_concatenated_attributes", None) is not None,
                getattr(dg, "_attributes_keys", None) is not None,
                getattr(dg, "_concatenated_object_ids", None) is not None,
                bool(getattr(dg, "_property_group_ids", None)),
                getattr(dg, "_data", None) is not None,
            ]
            inv = {u: h for h, u in self.hole_uid.items()}
            holes = {}
            for c in getattr(dg, "_children", []):
                h = inv.get(c.uid, "?")
                kids = []
                for d in getattr(c, "_children", []):
                    kids.append([type(d).__name__[:14], getattr(d, "name", ""), getattr(d, "_values", None) is not None])
                holes[h] = {"pgs": getattr(c, "_property_groups", None) is not None, "kids": sorted(kids, key=repr),
                            "surv": getattr(c, "_surveys", None) is not None}
            out["holes"] = holes
        except Exception as err:  # pylint: disable=broad-except
            out["error"] = type(err).__name__
        return out


# ---------------------------------------------------------------------------
# observers
# ---------------------------------------------------------------------------
def _norm_vals(v, ndv=False):
    """numpy / list of floats -> list with NaN (and, for raw file content, the format's
    no-data code) as None; None stays None."""
    if v is None:
        return None
    try:
        arr = np.asarray(v)
        if arr.dtype.kind in "fiu":
            arr = arr.astype(float).ravel()
            return [None if (x != x or (ndv and x == NDV32)) else float(x) for x in arr.tolist()]
        return [x.decode() if isinstance(x, bytes) else x for x in arr.ravel().tolist()]
    except Exception:  # pylint: disable=broad-except
        return repr(v)


def _is_hole(e):
    return hasattr(type(e), "surveys") and hasattr(type(e), "collar")


def api_view(dg, obs_name):
    """Per-hole content through public getters only.  Returns (view, violations-of-the-observer)."""
    from geoh5py.data import Data

    view = {}
    viol = []
    dup = []
    if dg is None:
        return None, [("hole-reads-back", f"{obs_name}:group-not-found", {})]
    try:
        children = list(dg.children)
    except Exception as err:  # pylint: disable=broad-except
        return None, [("hole-reads-back", f"{obs_name}:group-children-raises", {"error": repr(err)})]
    for c in children:
        if not _is_hole(c):
            continue
        ent = {"uid": str(c.uid), "data": {}, "groups": {}, "errors": {}}
        try:
            ent["surveys"] = [[float(x) for x in row] for row in np.asarray(c.surveys).tolist()]
        except Exception as err:  # pylint: disable=broad-except
            ent["surveys"] = None
            ent["errors"]["surveys"] = repr(err)
        try:
            ent["list"] = sorted(str(x) for x in c.get_data_list())
        except Exception as err:  # pylint: disable=broad-except
            ent["list"] = None
            ent["errors"]["get_data_list"] = repr(err)
        for nm in ent["list"] or []:
            try:
                ents = c.get_data(nm)
                ent["data"][nm] = [_norm_vals(e.values) for e in ents]
            except Exception as err:  # pylint: disable=broad-except
                ent["data"][nm] = None
                ent["errors"][f"get_data:{nm}"] = repr(err)
        try:
            ent["children"] = sorted(str(k.name) for k in c.children if isinstance(k, Data))
        except Exception as err:  # pylint: disable=broad-except
            ent["children"] = None
            ent["errors"]["children"] = repr(err)
        try:
            for p in c.property_groups or []:
                mem = []
                for u in p.properties or []:
                    found = [k for k in c.children if getattr(k, "uid", None) == u]
                    mem.append(str(found[0].name) if found else f"?{u}")
                key = str(p.name)
                if key in ent["groups"]:
                    ent["errors"][f"group-twice:{key}"] = True
                ent["groups"][key] = {"type": str(p.property_group_type), "members": sorted(mem)}
        except Exception as err:  # pylint: disable=broad-except
            ent["errors"]["property_groups"] = repr(err)
        nm = str(c.name)
        if nm in view:
            dup.append(nm)
        view[nm] = ent
    for nm in dup:
        viol.append(("hole-reads-back", f"{obs_name}:two-holes-one-name", {"name": nm}))
    return view, viol


def compare_view(exp, got, obs_name, removed_names=()):
    """Model view vs. an API observer's view -> violations of 'every drillhole reads back
    exactly the values last written for each of its data'."""
    out = []
    C = "hole-reads-back"
    if got is None:
        return out
    for nm in sorted(set(exp) - set(got)):
        out.append((C, f"{obs_name}:hole-missing", {"hole": nm}))
    for nm in sorted(set(got) - set(exp)):
        out.append((C, f"{obs_name}:hole-listed-but-not-live", {"hole": nm, "removed-by-the-last-operation": nm in removed_names}))
    for nm in sorted(set(exp) & set(got)):
        e, g = exp[nm], got[nm]
        h = e["handle"]
        for key in sorted(g.get("errors", {})):
            out.append((C, f"{obs_name}:getter-raises:{key.split(':')[0]}", {"hole": nm, "error": g["errors"][key]}))
        if g.get("surveys") is not None and not _same_vals(_flat(e["surveys"]), _flat(g["surveys"])):
            out.append((C, f"{obs_name}:surveys", {"hole": nm, "expected": e["surveys"], "got": g["surveys"]}))
        want = sorted(e["data"])
        if g.get("list") is not None and g["list"] != want:
            out.append((C, f"{obs_name}:data-list", {"hole": nm, "expected": want, "got": g["list"]}))
        if g.get("children") is not None and g["children"] != want:
            extra = sorted(set(g["children"]) - set(want))
            missing = sorted(set(want) - set(g["children"]))
            kind = "extra" if extra and not missing else ("missing" if missing and not extra else "differs")
            out.append((C, f"{obs_name}:data-children:{kind}", {"hole": nm, "expected": want, "got": g["children"]}))
        for dn in want:
            role = e["roles"][dn]
            vals = g["data"].get(dn)
            if vals is None:
                if g.get("list") is not None and dn in g["list"]:
                    continue  # getter raised: reported above
                continue  # not listed: reported by data-list
            if len(vals) != 1:
                out.append((C, f"{obs_name}:data-lookup:{role}:{len(vals)}-found", {"hole": nm, "data": dn}))
                continue
            if not _same_vals(e["data"][dn], vals[0]):
                cl = classify(vals[0], e["data"][dn], e["src"][dn], dn, role)
                out.append((C, f"{obs_name}:values:{role}:{cl}", {"hole": nm, "data": dn, "expected": e["data"][dn], "got": vals[0]}))
        if "groups" in g and "property_groups" not in g.get("errors", {}):
            if {k: v for k, v in g["groups"].items()} != e["groups"]:
                out.append((C, f"{obs_name}:property-groups", {"hole": nm, "expected": e["groups"], "got": g["groups"]}))
    return out


def _flat(rows):
    return [x for r in rows for x in r]


def _same_vals(a, b):
    if a is None or b is None or not isinstance(a, list) or not isinstance(b, list):
        return a == b
    if len(a) != len(b):
        return False
    for x, y in zip(a, b):
        if x is None or y is None:
            if x is not y:
                return False
        elif isinstance(x, (int, float)) and isinstance(y, (int, float)):
            if float(np.float32(x)) != float(np.float32(y)):
                return False
        elif x != y:
            return False
    return True


# -- group-wide table ---------------------------------------------------------
def _table_preconditions(g, owners, holes_model, stale_groups, obs_name):
    """Configurations in which the table view is known to go wrong whatever the values
    (one collapsed witness each, so that the generic witnesses stay free for anything else):
    D9 the holes keep this group on different depth labels (DEPTH / DEPTH(1)), or a hole that
       does not have the group carries a data set named like its depth label;
    D5 a hole that has the group also carries, in ANOTHER of its groups, a data set named like
       one of the table's columns."""
    labels = set()
    for h in owners:
        labels |= set(holes_model[h]["groups"][g]["assoc"])
    if len({tuple(holes_model[h]["groups"][g]["assoc"]) for h in owners}) > 1 or any(
        lbl in holes_model[h]["data"] for h in holes_model if h not in owners for lbl in labels
    ):
        return "depth-label-differs-between-holes-or-is-used-by-another-group"
    cols = {nm for h in owners for nm in holes_model[h]["groups"][g]["members"]}
    if any(col in holes_model[h]["data"] and holes_model[h]["data"][col]["group"] != g for h in owners for col in cols):
        return "column-name-also-used-in-another-group-of-a-hole"
    return None


def table_check(dg, holes_model, obs_name, stale_groups=()):
    """'the group-wide table view lists exactly the per-hole values in hole order'."""
    out = []
    C = "table-view"
    if dg is None:
        return out, {}
    names = sorted({g for hole in holes_model.values() for g in hole["groups"]})
    try:
        tables = dg.drillholes_tables
    except Exception as err:  # pylint: disable=broad-except
        if names:
            out.append((C, f"{obs_name}:drillholes_tables-raises:{type(err).__name__}", {"error": repr(err)}))
        return out, {}
    stats = {}
    for g in sorted(set(tables) - set(names)):
        try:
            n_rows = len(tables[g].depth_table)
        except Exception:  # pylint: disable=broad-except
            n_rows = 0
        if n_rows:
            out.append((C, f"{obs_name}:table-lists-rows-of-a-group-no-hole-has", {"group": str(g), "rows": n_rows}))
    for g in names:
        owners = [h for h in holes_model if g in holes_model[h]["groups"]]
        found = _table_one(tables, g, owners, holes_model, obs_name, stats)
        if found:
            pre = _table_preconditions(g, owners, holes_model, stale_groups, obs_name)
            only_d6 = all(w.endswith("depth_table-raises:IndexError:no-rows-at-all") for _, w, _ in found)
            if pre is not None and not only_d6:
                found = [(C, f"{obs_name}:table-wrong:{pre}", {"group": g, "symptoms": sorted({w for _, w, _ in found}), "first": found[0][2]})]
        out += found
    return out, stats


def _table_one(tables, g, owners, holes_model, obs_name, stats):
    out = []
    C = "table-view"
    if g not in tables:
        return [(C, f"{obs_name}:table-missing", {"group": g, "holes": owners})]
    try:
        tab = tables[g].depth_table
    except Exception as err:  # pylint: disable=broad-except
        empty = all(holes_model[h]["groups"][g]["n"] == 0 for h in owners)
        return [(C, f"{obs_name}:depth_table-raises:{type(err).__name__}" + (":no-rows-at-all" if empty else ""), {"group": g, "error": repr(err)[:300]})]
    cols = list(tab.dtype.names or [])
    if "Drillhole" not in cols:
        return [(C, f"{obs_name}:no-drillhole-column", {"group": g, "columns": cols})]
    want_cols = sorted({nm for h in owners for nm in holes_model[h]["groups"][g]["members"]})
    if sorted(c for c in cols if c != "Drillhole") != want_cols:
        return [(C, f"{obs_name}:columns", {"group": g, "expected": want_cols, "got": cols})]
    # rows grouped by hole, in order of appearance
    blocks = []
    for i, key in enumerate(tab["Drillhole"].tolist()):
        key = key.decode() if isinstance(key, bytes) else str(key)
        key = rawh5.norm_uid(key)
        if blocks and blocks[-1][0] == key:
            blocks[-1][1].append(i)
        else:
            blocks.append([key, [i]])
    keys = [b[0] for b in blocks]
    if len(set(keys)) != len(keys):
        return [(C, f"{obs_name}:hole-rows-not-contiguous", {"group": g, "order": keys})]
    stats[g] = len(tab)
    out += _table_blocks(tab, blocks, g, owners, holes_model, obs_name, cols)
    return out


def _table_blocks(tab, blocks, g, owners, holes_model, obs_name, cols):
    out = []
    C = "table-view"
    uid_of = {h: holes_model[h]["_uid"] for h in owners}
    by_uid = {u: h for h, u in uid_of.items()}
    seen = set()
    for key, rows in blocks:
        h = by_uid.get(key)
        if h is None:
            out.append((C, f"{obs_name}:rows-of-a-hole-without-the-group", {"group": g, "uid": key, "rows": len(rows)}))
            continue
        seen.add(h)
        hole = holes_model[h]
        grp = hole["groups"][g]
        for col in cols:
            if col == "Drillhole":
                continue
            got = _norm_vals(np.asarray(tab[col])[rows])
            if col in grp["members"]:
                exp = hole["data"][col]["vals"]
                role = hole["data"][col]["role"]
                src = hole["data"][col].get("src", h)
            else:
                # a text column has no NaN: the table's filler for a hole without that label is ""
                exp = [("" if col == "t" else None)] * grp["n"]
                role = "absent"
                src = h
            if not _same_vals(exp, got):
                if role == "absent" and col in hole["data"]:
                    cl = "data-of-another-group-of-the-hole"
                elif role == "absent":
                    cl = "values-under-a-name-the-hole-does-not-have"
                else:
                    cl = classify(got, exp, src, col, role)
                out.append((C, f"{obs_name}:values:{role}:{cl}", {"group": g, "hole": hole["name"], "column": col, "expected": exp, "got": got}))
    for h in owners:
        if h not in seen and holes_model[h]["groups"][g]["n"] > 0:
            out.append((C, f"{obs_name}:hole-missing-from-table", {"group": g, "hole": holes_model[h]["name"]}))
    return out


# -- raw file -----------------------------------------------------------------
def _rec_kind(r):
    if "Object Type ID" in r:
        return "hole"
    if "Type ID" in r:
        return "data"
    if "Properties" in r or "Group Name" in r or "Property Group Type" in r:
        return "group"
    return "empty" if not r else "other"


def raw_group(b, dg_uid):
    """The stored node of one drillhole group, read with plain h5py (rawh5 helpers): the
    'Concatenated Data' block, the node's own datasets and the names present."""
    if b is None:
        return None
    want = rawh5.norm_uid(str(dg_uid))
    with rawh5.open_bytes(b) as f:
        proj = f[list(f)[0]]
        for key, grp in proj["Groups"].items():
            if rawh5.norm_uid(key) != want:
                continue
            node = {"dsets": rawh5._dsets(grp), "concat": None, "concat_names": []}  # pylint: disable=protected-access
            if "Concatenated Data" in grp:
                node["concat"] = rawh5._concat(grp["Concatenated Data"])  # pylint: disable=protected-access
                node["concat_names"] = sorted(grp["Concatenated Data"])
            return node
    return None


NDV32 = float(np.float32(1.175494351e-38))  # the format's no-data code for float arrays


def node_digests(node):
    """{('record', id): hash, ('slice', label, object, data): hash of the slice CONTENT} - the
    same decomposition as rawh5.digests, computed from an already parsed node."""
    d = {}
    if node is None or node["concat"] is None:
        return d
    c = node["concat"]
    for rec in c["attributes"] or []:
        rid = rawh5.norm_uid(rec.get("ID", "?"))
        d[("record", rid)] = rawh5._h(rec)  # pylint: disable=protected-access
    for lab, rows in c["index"].items():
        arr = c["data"].get(lab)
        if arr is None:
            arr = c["other"].get(lab)
        for (start, size, oid, did) in rows:
            sl = None if arr is None else rawh5._arr(arr[start : start + size])  # pylint: disable=protected-access
            d[("slice", lab, oid, did)] = rawh5._h(sl)  # pylint: disable=protected-access
    return d


def raw_check(node, before_ids=None):
    """Structural reading of 'Concatenated Data' of one drillhole group, independent of the
    model: tiling of every array by its index rows, one record per entity, Property keys,
    object ids.  Returns (violations, view, ids) where view has the same shape as api_view and
    ids = {uid: (kind, owner hole uid)}."""
    out = []
    T, A = "index-tiling", "attribute-records"
    before_ids = before_ids or {}

    def why(uid):
        # (kept out of the signature: whether the id belonged to something removed one step
        # or many steps ago is not a property of the defect)
        return "no-such-live-entity"

    if node is None:
        return [(A, "group-node-missing", {})], None, {}
    c = node["concat"]
    if c is None:
        return [(A, "no-concatenated-data-group", {})], None, {}
    recs = c["attributes"]
    n_keys = sum(1 for k in ("Attributes", "Attributes Jsons") if k in node.get("concat_names", []))
    if recs is None:
        recs = []
    by_id = {}
    for r in recs:
        kind = _rec_kind(r)
        rid = rawh5.norm_uid(r["ID"]) if "ID" in r else None
        if rid is None:
            out.append((A, f"record-without-id:{kind}", {"record": r}))
            continue
        if rid in by_id:
            out.append((A, f"two-records-one-id:{kind}", {"id": rid}))
            continue
        by_id[rid] = r
    holes = {rid: r for rid, r in by_id.items() if _rec_kind(r) == "hole"}
    datas = {rid: r for rid, r in by_id.items() if _rec_kind(r) == "data"}
    groups = {rid: r for rid, r in by_id.items() if _rec_kind(r) == "group"}
    for rid, r in by_id.items():
        if _rec_kind(r) in ("other", "empty"):
            out.append((A, f"unclassifiable-record:{_rec_kind(r)}", {"id": rid, "keys": sorted(r)}))
    # Concatenated object IDs <-> hole records
    oid_ds = node["dsets"].get("Concatenated object IDs")
    oids = [rawh5.norm_uid(x) for x in (oid_ds["v"] if oid_ds else [])] if oid_ds is not None else []
    if len(set(oids)) != len(oids):
        out.append((A, "object-id-listed-twice", {"ids": oids}))
    for u in sorted(set(oids) - set(holes)):
        out.append((A, f"object-id-without-record:{why(u)}", {"id": u}))
    for u in sorted(set(holes) - set(oids)):
        out.append((A, f"hole-record-not-in-object-ids:{why(u)}", {"id": u, "name": holes[u].get("Name")}))
    # Property keys <-> data records
    owner = {}
    ids = {u: ("hole", u) for u in holes}
    for hu, r in holes.items():
        for k, v in r.items():
            if not k.startswith("Property:"):
                continue
            nm = k[len("Property:"):].replace("⁄", "/")
            du = rawh5.norm_uid(v)
            if du not in datas:
                out.append((A, f"property-key-without-data-record:{why(du)}", {"hole": r.get("Name"), "key": k, "id": du}))
                continue
            if du in owner:
                out.append((A, "data-record-owned-twice", {"id": du}))
                continue
            owner[du] = hu
            ids[du] = ("data", hu)
            if str(datas[du].get("Name", "")).replace("⁄", "/") != nm:
                out.append((A, "property-key-differs-from-record-name", {"hole": r.get("Name"), "key": k, "record-name": datas[du].get("Name")}))
    for du in sorted(set(datas) - set(owner)):
        out.append((A, f"data-record-without-property-key:{why(du)}", {"id": du, "name": datas[du].get("Name")}))
    # index rows / tiling
    rows_of = {}  # data uid -> [(label, start, size)]
    surveys = {}
    pg_of = {}  # hole uid -> [pg uid]
    labels = set(c["index"]) | set(c["data"])
    for lab in sorted(labels):
        lab_name = lab.replace("⁄", "/")
        cls = lab_name if lab_name in OBJECT_LABELS else "data"
        if lab not in c["index"]:
            out.append((T, f"array-without-index:{cls}", {"label": lab}))
            continue
        arr = c["data"].get(lab)
        if arr is None:
            arr = c["other"].get(lab)
        rows = c["index"][lab]
        if arr is None:
            if rows:
                out.append((T, f"index-without-array:{cls}", {"label": lab, "rows": len(rows)}))
            continue
        pos = 0
        for (start, size, ou, du) in sorted(rows, key=lambda r: (r[0], r[1])):
            if start > pos:
                out.append((T, f"gap:{cls}", {"label": lab, "at": pos, "next-start": start, "rows": rows}))
            elif start < pos:
                out.append((T, f"overlap:{cls}", {"label": lab, "at": pos, "start": start, "rows": rows}))
            pos = max(pos, start + size)
        if pos != len(arr) and not any(o[0] == T and o[2].get("label") == lab for o in out):
            out.append((T, f"array-longer-than-index:{cls}" if pos < len(arr) else f"index-longer-than-array:{cls}",
                        {"label": lab, "index-end": pos, "array-length": len(arr), "rows": rows}))
        seen = set()
        for (start, size, ou, du) in rows:
            if (ou, du) in seen:
                out.append((T, f"duplicate-row:{cls}", {"label": lab, "object": ou, "data": du}))
                continue
            seen.add((ou, du))
            if ou not in holes or ou not in oids:
                out.append((T, f"stale-row:{cls}:{why(ou)}", {"label": lab, "object": ou, "size": size}))
                continue
            sl = arr[start : start + size]
            if cls == "data":
                if du not in datas or owner.get(du) != ou:
                    out.append((T, f"stale-row:data:{why(du)}", {"label": lab, "object": ou, "data": du, "size": size}))
                    continue
                if str(datas[du].get("Name", "")).replace("⁄", "/") != lab_name:
                    out.append((T, "row-under-a-label-that-is-not-the-data-name", {"label": lab, "record-name": datas[du].get("Name")}))
                rows_of.setdefault(du, []).append((lab_name, _norm_vals(sl, ndv=True)))
            else:
                if du != ZERO:
                    out.append((T, f"object-level-row-with-data-id:{cls}", {"label": lab, "data": du}))
                if cls == "Surveys":
                    surveys[ou] = [[float(x) for x in list(r)[:3]] for r in sl.tolist()]
                elif cls == "Property Group IDs":
                    pg_of[ou] = [rawh5.norm_uid(x) for x in sl.tolist()]
    for du in sorted(owner):
        n = len(rows_of.get(du, []))
        if n == 0:
            out.append((T, "data-without-index-row", {"id": du, "name": datas[du].get("Name")}))
    # property groups
    pg_owner = {}
    for hu, lst in pg_of.items():
        for pu in lst:
            if pu not in groups:
                out.append((A, f"group-id-without-record:{why(pu)}", {"hole": holes[hu].get("Name"), "id": pu}))
                continue
            if pu in pg_owner:
                out.append((A, "group-record-owned-twice", {"id": pu}))
                continue
            pg_owner[pu] = hu
            ids[pu] = ("group", hu)
    for pu in sorted(set(groups) - set(pg_owner)):
        out.append((A, f"group-record-not-listed-by-a-hole:{why(pu)}", {"id": pu, "name": groups[pu].get("Group Name")}))
    # Property Group IDs array vs rows handled by tiling; build the view
    view = {}
    dup = []
    for hu, r in holes.items():
        ent = {"uid": hu, "data": {}, "groups": {}, "errors": {}, "surveys": surveys.get(hu), "children": None}
        for du, o in owner.items():
            if o != hu:
                continue
            nm = str(datas[du].get("Name", "")).replace("⁄", "/")
            ent["data"].setdefault(nm, [])
            for (_lab, vals) in rows_of.get(du, []):
                ent["data"][nm].append(vals)
        ent["list"] = sorted(k[len("Property:"):].replace("⁄", "/") for k in r if k.startswith("Property:"))
        for pu in pg_of.get(hu, []):
            if pu not in groups or pg_owner.get(pu) != hu:
                continue
            gr = groups[pu]
            mem = []
            for x in gr.get("Properties", []) or []:
                xu = rawh5.norm_uid(x)
                if xu in datas and owner.get(xu) == hu:
                    mem.append(str(datas[xu].get("Name")))
                else:
                    out.append((A, f"group-member-is-not-a-data-of-the-hole:{why(xu)}", {"group": gr.get("Group Name"), "id": xu}))
            ent["groups"][str(gr.get("Group Name"))] = {"type": str(gr.get("Property Group Type")), "members": sorted(mem)}
        nm = str(r.get("Name"))
        if nm in view:
            dup.append(nm)
        view[nm] = ent
    for nm in dup:
        out.append((A, "two-hole-records-one-name", {"name": nm}))
    if n_keys > 1:
        out.append((A, "both-attribute-encodings-present", {}))
    return out, view, ids


def compare_raw(exp, view):
    """Model vs. content of the file (slices, records) -> 'file-content' violations."""
    out = []
    C = "file-content"
    if view is None:
        return out
    for nm in sorted(set(exp) - set(view)):
        out.append((C, "hole-record-missing", {"hole": nm}))
    for nm in sorted(set(view) - set(exp)):
        out.append((C, "hole-record-of-no-live-hole", {"hole": nm}))
    for nm in sorted(set(exp) & set(view)):
        e, g = exp[nm], view[nm]
        if g["surveys"] is None:
            out.append((C, "surveys-slice-missing", {"hole": nm}))
        elif not _same_vals(_flat(e["surveys"]), _flat(g["surveys"])):
            out.append((C, "surveys-slice", {"hole": nm, "expected": e["surveys"], "got": g["surveys"]}))
        want = sorted(e["data"])
        if g["list"] != want:
            out.append((C, "property-keys", {"hole": nm, "expected": want, "got": g["list"]}))
        for dn in want:
            vals = g["data"].get(dn)
            role = e["roles"][dn]
            if vals is None:
                if dn in g["list"]:
                    out.append((C, f"data-record-under-other-name:{role}", {"hole": nm, "data": dn}))
                continue
            if len(vals) != 1:
                out.append((C, f"slices-for-one-data:{role}:{len(vals)}", {"hole": nm, "data": dn}))
                continue
            if not _same_vals(e["data"][dn], vals[0]):
                cl = classify(vals[0], e["data"][dn], e["src"][dn], dn, role)
                out.append((C, f"slice-values:{role}:{cl}", {"hole": nm, "data": dn, "expected": e["data"][dn], "got": vals[0]}))
        if g["groups"] != e["groups"]:
            out.append((C, "group-records", {"hole": nm, "expected": e["groups"], "got": g["groups"]}))
    return out


# -- before / after differential -------------------------------------------------
def isolation_check(op, node0, node1, target_uid, ids_before, ids_after, narrow):
    """'operations on one hole or one data set never alter another's values' (and records):
    per-record and per-slice digests of everything outside the operation's footprint are equal
    before and after.  narrow = set of uids the operation may touch inside the target hole
    (None: the whole hole)."""
    out = []
    C = "others-untouched"
    if node0 is None or node1 is None:
        return out
    diff = rawh5.diff_digests({k: {"h": v} for k, v in node_digests(node0).items()}, {k: {"h": v} for k, v in node_digests(node1).items()})

    def owner(uid):
        k = ids_after.get(uid) or ids_before.get(uid)
        return k[1] if k else None

    tu = rawh5.norm_uid(str(target_uid)) if target_uid is not None else None
    for key, comp in sorted(diff.items(), key=repr):
        if key[0] == "record":
            uid = key[1]
            own = owner(uid)
            touched = [uid]
            what = "record"
        else:
            _, _lab, ou, du = key
            own = ou
            touched = [du] if du != ZERO else [ou]
            what = "slice"
        rel = None
        if tu is None or own != tu:
            rel = "entry-of-no-hole" if (own is None and tu is not None) else "other-hole"
        elif narrow is not None and not any(t in narrow for t in touched):
            rel = "same-hole-other-data"
        if rel is None:
            continue
        how = "created" if "created" in comp else ("deleted" if "deleted" in comp else "changed")
        if rel == "entry-of-no-hole" and how == "deleted":
            continue  # clean-up of a leftover that belonged to nobody
        out.append((C, f"{op[0]}:{what}-{how}:{rel}", {"op": op, "entry": list(key)}))
    return out


# ---------------------------------------------------------------------------
# scenes
# ---------------------------------------------------------------------------
SCENES = {
    "S0": [],
    "S1": [["add_hole", "A", 2], ["add", "A", "x", "G", 2, 0, "loc"]],
    "S2": [
        ["add_hole", "A", 2],
        ["add_hole", "B", 1],
        ["add", "A", "x", "G", 2, 0, "loc"],
        ["add", "A", "y", "G", 2, 0, "loc"],
        ["add", "B", "x", "G", 3, 0, "loc"],
        ["add", "B", "z", "H", 1, 0, "loc"],
    ],
    "S3": [
        ["add_hole", "A", 1],
        ["add_hole", "B", 2],
        ["add_hole", "C", 1],
        ["add", "A", "x", "G", 2, 0, "loc"],
        ["add", "B", "x", "G", 3, 0, "loc"],
        ["add", "C", "x", "G", 1, 0, "loc"],
    ],
    "S4": [
        ["add_hole", "A", 1],
        ["add_hole", "B", 1],
        ["add", "A", "x", "H", 2, 0, "loc"],
        ["add", "B", "x", "H", 1, 0, "loc"],
        ["add", "B", "y", "H", 1, 0, "loc"],
    ],
    "S6": [
        ["add_hole", "A", 1],
        ["add_hole", "B", 1],
        ["add_hole", "C", 1],
        ["add", "A", "x", "G", 0, 0, "loc"],
        ["add", "B", "x", "G", 2, 0, "loc"],
        ["add", "C", "x", "G", 1, 0, "loc"],
    ],
    "S5": [
        ["add_hole", "A", 1],
        ["add_hole", "B", 1],
        ["add", "A", "x", "G", 2, 0, "loc"],
    ],
}
for _k in list(SCENES):
    SCENES[_k + "r"] = SCENES[_k] + [["reopen"]]


# ---------------------------------------------------------------------------
# running one history
# ---------------------------------------------------------------------------
def _in_fork(fn):
    """Run fn() in a forked copy of this process and return its (picklable) result, so that
    whatever fn does (closing the file, loading lazy fields) leaves this process untouched.
    Returns ("ok", result) or ("err", traceback text)."""
    rfd, wfd = os.pipe()
    pid = os.fork()
    if pid == 0:
        code = 0
        try:
            os.close(rfd)
            out = pickle.dumps(("ok", fn()))
        except BaseException:  # pylint: disable=broad-except
            out = pickle.dumps(("err", traceback.format_exc()))
            code = 1
        try:
            with os.fdopen(wfd, "wb") as fh:
                fh.write(out)
        finally:
            os._exit(code)
    os.close(wfd)
    with os.fdopen(rfd, "rb") as fh:
        data = fh.read()
    os.waitpid(pid, 0)
    return pickle.loads(data)


def template(history):
    ex = Exec(history.get("cfg"))
    scene = SCENES[history.get("scene", "S0")]
    ex.run(scene)
    ex.scene_refused = [[op, r] for op, r in zip(scene, ex.results) if r != "ok"]
    ex.n_scene = len(scene)
    return ex


HOLE_OPS = ("add", "update", "resurvey", "rename_hole", "rename_data", "rm_data", "rm_group", "rm_hole", "rm_protected")


def run_history(ex, history, alpha):
    """Run the ops of `history` on `ex` (already holding the scene), observe and judge."""
    ops = history["ops"]
    if getattr(ex, "scene_refused", None):
        # the seeding scene is plain documented use (add_data with depth / from-to on fresh
        # holes): a refusal there means written values cannot be read back at all
        op, res = ex.scene_refused[0]
        out = observe_and_judge(ex, dict(history, ops=[]), alpha, None, None, _copy.deepcopy(ex.model), ex.cache_shape())
        out["viol"] = [("hole-reads-back", f"scene-operation-refused:{op[0]}", {"op": op, "result": res, "error": getattr(ex, "last_error", "")[-600:]})] + out["viol"]
        out["succ"] = []
        return out
    ex.run(ops[:-1])
    before = None
    target_uid = None
    if ops:
        st, before = _in_fork(ex.close_all)  # what a close at this point would leave on file
        if st != "ok":
            before = None
        last = ops[-1]
        if last[0] in HOLE_OPS and last[1] in ex.hole_uid:
            target_uid = ex.hole_uid[last[1]]
    pre_model = _copy.deepcopy(ex.model)
    ex.run(ops[-1:])
    if getattr(ex, "close_error", None):
        # closing failed inside a re-open: there is no file to judge
        name, rep, tb = ex.close_error
        return _result(ex, history, alpha, [("file-content", f"close-raises:{name}", {"error": rep, "trace": tb})], None, {}, None, {}, True)
    if ops and ops[-1][0] in ("add_hole", "copy_hole"):
        target_uid = ex.hole_uid.get(ops[-1][1] if ops[-1][0] == "add_hole" else ops[-1][2])
    caches = ex.cache_shape()
    return observe_and_judge(ex, history, alpha, before, target_uid, pre_model, caches)


def _view_broken(viol, obs_name):
    """True when the per-hole reading of this observer already fails on data / values: the
    group-wide table is a view over the same data and is then not judged separately."""
    for c, w, _ in viol:
        if c == "hole-reads-back" and w.startswith(obs_name + ":") and "hole-listed-but-not-live" not in w and "data-children:extra" not in w:
            return True
    return False


def _uids_into_model(holes, hole_uid):
    for h, hole in holes.items():
        hole["_uid"] = rawh5.norm_uid(str(hole_uid[h])) if h in hole_uid else None


def _copy_dg(ex):
    try:
        cws = ex.ws if ex.copy_where == "same" else ex.ws2
        return cws.get_entity(ex.copy_uid)[0]
    except Exception:  # pylint: disable=broad-except
        return None


def _live_observation(ex, exp, removed_names, holes_model, copy_exp):
    """Everything read from the live objects (runs in a fork: public getters load lazy
    fields and must not influence what the close afterwards writes)."""
    viol = []
    try:
        dg = ex.dg()
    except Exception:  # pylint: disable=broad-except
        dg = None
    live, v = api_view(dg, "live")
    viol += v
    viol += compare_view(exp, live, "live", removed_names)
    tstats = {}
    if not _view_broken(viol, "live"):
        tv, tstats = table_check(dg, holes_model, "live", ex.model["stale_groups"])
        viol += tv
    cviol = []
    if ex.copy_uid is not None:
        cdg = _copy_dg(ex)
        cv, v = api_view(cdg, "copy-live")
        cviol += v
        cviol += compare_view(copy_exp, cv, "copy-live")
    return viol, cviol, tstats


def observe_and_judge(ex, history, alpha, before, target_uid, pre_model, caches):
    ops = history["ops"]
    last = ops[-1] if ops else ["-"]
    m = ex.model
    viol = []
    cviol = []  # about the copy of the group
    exp = expected_view(m["holes"])
    copy_exp = expected_view(m["copies"][0]["holes"]) if m["copies"] else None
    removed_names = {hole["name"] for hole in pre_model["holes"].values()} - set(exp)
    holes_model = _copy.deepcopy(m["holes"])
    _uids_into_model(holes_model, ex.hole_uid)
    tstats = {}

    # 1. live, through public getters (in a fork)
    st, res = _in_fork(lambda: _live_observation(ex, exp, removed_names, holes_model, copy_exp))
    if st != "ok":
        raise core.HarnessError(f"live observation crashed on {history!r}:\n{res}")
    v, cv, tstats = res
    viol += v
    cviol += cv

    # 2. close, read the file with plain h5py
    try:
        b1, b2 = ex.close_all()
    except Exception as err:  # pylint: disable=broad-except
        viol.append(("file-content", f"close-raises:{type(err).__name__}", {"error": repr(err), "trace": traceback.format_exc()[-500:]}))
        return _result(ex, history, alpha, viol, None, caches, None, tstats, False)
    node0 = raw_group(before[0], ex.dg_uid) if before is not None else None
    ids_before = {}
    if node0 is not None:
        try:
            _, _, ids_before = raw_check(node0)
        except Exception:  # pylint: disable=broad-except
            ids_before = {}
    node = raw_group(b1, ex.dg_uid)
    rv, rview, ids_after = raw_check(node, ids_before)
    viol += rv
    if not rv:  # content is read through the structure: judged only when the structure holds
        viol += compare_raw(exp, rview)
    cnode = None
    if ex.copy_uid is not None:
        cnode = raw_group(b1 if ex.copy_where == "same" else b2, ex.copy_uid)
        crv, crview, _ = raw_check(cnode, {})
        cviol += [(c, "copy:" + w, d) for c, w, d in crv]
        if not crv:
            cviol += [(c, "copy:" + w, d) for c, w, d in compare_raw(copy_exp, crview)]

    # 3. before / after differential
    accepted = bool(ex.results) and ex.results[-1] == "ok"
    if ops and node0 is not None and accepted:
        narrow = _narrow(last, target_uid, node0)
        viol += isolation_check(last, node0, node, target_uid, ids_before, ids_after, narrow)
        if ex.copy_uid is not None and last[0] != "copy":
            cnode0 = raw_group(before[0] if ex.copy_where == "same" else before[1], ex.copy_uid)
            if node_digests(cnode0) != node_digests(cnode):
                cviol.append(("others-untouched", "copy:file-changed", {"op": last}))

    # 4. fresh read-only re-opening
    try:
        ro = ex.Workspace(io.BytesIO(b1), mode="r")
        rdg = ro.get_entity(ex.dg_uid)[0]
        rop, v = api_view(rdg, "reopen")
        viol += v
        viol += compare_view(exp, rop, "reopen", removed_names)
        if not _view_broken(viol, "reopen"):
            tv, _ = table_check(rdg, holes_model, "reopen")
            viol += tv
        ro.close()
    except Exception as err:  # pylint: disable=broad-except
        viol.append(("hole-reads-back", f"reopen:open-raises:{type(err).__name__}", {"error": repr(err)[:300], "trace": traceback.format_exc()[-600:]}))
    if ex.copy_uid is not None:
        try:
            cro = ex.Workspace(io.BytesIO(b1 if ex.copy_where == "same" else b2), mode="r")
            cdg = cro.get_entity(ex.copy_uid)[0]
            cv, v = api_view(cdg, "copy-reopen")
            cviol += v
            cviol += compare_view(copy_exp, cv, "copy-reopen")
            cro.close()
        except Exception as err:  # pylint: disable=broad-except
            cviol.append(("hole-reads-back", f"copy-reopen:open-raises:{type(err).__name__}", {"error": repr(err)[:300]}))

    # the copy: judged in detail when it is made; afterwards any departure from the state it
    # was made in is ONE symptom - an operation on the source reached the copy
    dead = False
    if cviol:
        if last[0] == "copy":
            viol += cviol
            dead = True
        else:
            viol.append(("others-untouched", f"copy-in-{'same' if ex.copy_where == 'same' else 'other'}-workspace:no-longer-equals-the-source-it-was-copied-from",
                         {"op": last, "symptoms": sorted({f"{c}|{w}" for c, w, _ in cviol})[:12], "first": cviol[0][2]}))
    if last[0] == "rename_data" and viol:
        dead = True  # known defect D1 leaves label and name apart: nothing meaningful follows
    return _result(ex, history, alpha, viol, node, caches, rview, tstats, dead)


def _narrow(op, target_uid, node0):
    """uids inside the target hole that the operation is allowed to touch (None = all)."""
    if target_uid is None:
        return None
    tu = rawh5.norm_uid(str(target_uid))
    k = op[0]
    if k in ("rename_hole", "resurvey"):
        return {tu}
    if k != "update":
        return None
    allowed = set()
    try:
        for r in node0["concat"]["attributes"] or []:
            if rawh5.norm_uid(r.get("ID", "")) == tu:
                v = r.get(f"Property:{op[2]}")
                if v:
                    allowed.add(rawh5.norm_uid(v))
    except Exception:  # pylint: disable=broad-except
        return None
    return allowed or None


def _symbolic(ex, node, rview):
    """Physical layout of the file with uids replaced by (hole handle, data name)."""
    if node is None or node["concat"] is None:
        return None
    inv = {rawh5.norm_uid(str(u)): h for h, u in ex.hole_uid.items()}
    c = node["concat"]
    dname = {}
    for r in c["attributes"] or []:
        if "ID" in r:
            dname[rawh5.norm_uid(r["ID"])] = str(r.get("Name", r.get("Group Name", "?")))
    lay = {"index": {}, "records": [], "oids": []}
    for lab, rows in c["index"].items():
        lay["index"][lab] = [[inv.get(ou, "?"), dname.get(du, "0" if du == ZERO else "?"), size] for (_s, size, ou, du) in rows]
    for r in c["attributes"] or []:
        rid = rawh5.norm_uid(r["ID"]) if "ID" in r else None
        lay["records"].append([_rec_kind(r), inv.get(rid, dname.get(rid, "?")), sorted(k for k in r if k.startswith("Property:"))])
    ds = node["dsets"].get("Concatenated object IDs")
    lay["oids"] = [inv.get(rawh5.norm_uid(x), "?") for x in (ds["v"] if ds else [])]
    return lay


def _model_shape(m):
    return {
        "holes": {h: {"ns": hole["nsurv"], "sv": min(hole["sver"], 1), "rn": hole["renamed"],
                      "groups": {g: [grp["n"], grp["assoc"], sorted(grp["members"])] for g, grp in hole["groups"].items()},
                      "data": {nm: [len(d["vals"]), d["group"], sum(1 for v in d["vals"] if v is None)] for nm, d in hole["data"].items()}}
                  for h, hole in m["holes"].items()},
        "order": m["order"],
        "copies": [c["where"] for c in m["copies"]],
        "stale_groups": m["stale_groups"],
    }


def _successors(m, alpha, vl, refused, dead):
    if refused or dead:
        return []
    succ = enabled(m, alpha)
    if any(c == "hole-reads-back" and (w.startswith("live:") or w.startswith("copy-live:")) for c, w, _ in vl):
        # the live objects no longer show the state: such a state is continued only through a re-open
        succ = [op for op in succ if op[0] == "reopen"]
    return succ


def _result(ex, history, alpha, viol, node, caches, rview, tstats, dead=False):
    m = ex.model
    lay = _symbolic(ex, node, rview)
    last = history["ops"][-1][0] if history["ops"] else "-"
    # de-duplicate (one signature once per execution)
    seen = set()
    vl = []
    for c, w, d in viol:
        if (c, w) in seen:
            continue
        seen.add((c, w))
        vl.append((c, w, d))
    if last == "rename_data":
        # everything seen right after a rename is named after it (known finding D1), so that the
        # same symptom after any other operation stays a signature of its own
        vl = [(c, w + "@rename_data", d) for c, w, d in vl]
    refused = [f"{op[0]}:{r}" for op, r in zip(ex.all_ops[getattr(ex, 'n_scene', 0):], ex.results[getattr(ex, 'n_scene', 0):]) if r != "ok"]
    return {
        "key": core.digest([_model_shape(m), lay, caches, ex.cfg["version"], refused]),
        "model_key": core.digest(_model_shape(m)),
        "viol": vl,
        "succ": _successors(m, alpha, vl, refused, dead),
        "outcome": core.jdump([last, ex.results[-1] if ex.results else "-", sorted(f"{c}|{w}" for c, w, _ in vl), sorted(tstats.items()),
                               sorted(len(hole["data"]) for hole in m["holes"].values())]),
        "refused": refused,
        "last_error": getattr(ex, "last_error", None) if refused else None,
    }


def execute(history, alpha):
    """Plain run (replay files use this): fresh workspace, scene, ops, observation."""
    ex = template(history)
    return run_history(ex, history, alpha)


_TEMPLATES: dict = {}


def execute_forked(history, alpha):
    """Scene built once per worker, each history in a forked copy-on-write clone of it."""
    tkey = core.jdump([history.get("scene", "S0"), history.get("cfg")])
    if tkey not in _TEMPLATES:
        if len(_TEMPLATES) > 8:
            _TEMPLATES.clear()
        _TEMPLATES[tkey] = (template(history), world.uid_counter())
    ex, uid_n = _TEMPLATES[tkey]
    rfd, wfd = os.pipe()
    pid = os.fork()
    if pid == 0:
        code = 0
        try:
            os.close(rfd)
            world._STATE["n"] = uid_n  # pylint: disable=protected-access
            world._STATE["order"] = ex.cfg["uid_order"]  # pylint: disable=protected-access
            out = pickle.dumps(("ok", run_history(ex, history, alpha)))
        except BaseException:  # pylint: disable=broad-except
            out = pickle.dumps(("err", traceback.format_exc()))
            code = 1
        try:
            with os.fdopen(wfd, "wb") as fh:
                fh.write(out)
        finally:
            os._exit(code)
    os.close(wfd)
    with os.fdopen(rfd, "rb") as fh:
        data = fh.read()
    os.waitpid(pid, 0)
    status, payload = pickle.loads(data)
    if status != "ok":
        raise core.HarnessError(f"forked execution failed for {history!r}:\n{payload}")
    return payload
