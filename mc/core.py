"""Shared run context: violations, known findings, evidence, worker pool.

Every property module `mc.props.cXX` exposes

    run(ctx)              explore; call ctx.violation(...) and ctx.cover(...)
    replay(history)       re-execute one recorded history WITHOUT the explorer and
                          return a list of (clause, witness, detail) that fail

The context turns collected violations into replay files, re-executes each one in a
fresh interpreter before it is believed, matches it against known_findings.json and
prints the VIOLATION / KNOWN-FINDING lines required by the interface.
"""

from __future__ import annotations

import hashlib
import json
import multiprocessing as mp
import os
import subprocess
import sys
import time
import traceback
from pathlib import Path

ROOT = Path(__file__).resolve().parent.parent
EVIDENCE = ROOT / "evidence"
REPLAYS = ROOT / "replays"
KNOWN = ROOT / "known_findings.json"

NPROC = int(os.environ.get("VERIF_NPROC", "16"))


class HarnessError(Exception):
    """The machinery itself misbehaved (never reported as a VIOLATION)."""


def jdefault(obj):
    import uuid

    import numpy as np

    if isinstance(obj, np.ndarray):
        return {"__nd__": obj.tolist(), "dtype": str(obj.dtype)}
    if isinstance(obj, (np.integer,)):
        return int(obj)
    if isinstance(obj, (np.floating,)):
        return float(obj)
    if isinstance(obj, (np.bool_,)):
        return bool(obj)
    if isinstance(obj, uuid.UUID):
        return str(obj)
    if isinstance(obj, bytes):
        return {"__bytes__": obj.hex()}
    if isinstance(obj, (set, frozenset)):
        return sorted(obj, key=repr)
    if isinstance(obj, tuple):
        return list(obj)
    return repr(obj)


def jdump(obj, **kw) -> str:
    return json.dumps(obj, default=jdefault, sort_keys=True, **kw)


def digest(obj) -> str:
    return hashlib.sha256(jdump(obj).encode()).hexdigest()[:16]


def signature(prop: str, clause: str, witness: str) -> str:
    return f"{prop}|{clause}|{witness}"


def load_known() -> dict:
    out = {"findings": [], "fixed": []}
    files = [KNOWN] + sorted((ROOT / "known_findings.d").glob("*.json"))
    for f in files:
        if f.exists():
            k = json.loads(f.read_text())
            out["findings"] += k.get("findings", [])
            out["fixed"] += k.get("fixed", [])
    return out


# ---------------------------------------------------------------------------
# worker pool: long-lived forked workers, each with the World installed once
# ---------------------------------------------------------------------------
_POOL = None


def _worker_init():
    from . import world

    world.install()


def pool():
    global _POOL
    if _POOL is None:
        ctx = mp.get_context("fork")
        _POOL = ctx.Pool(NPROC, initializer=_worker_init)
    return _POOL


def close_pool():
    global _POOL
    if _POOL is not None:
        _POOL.close()
        _POOL.join()
        _POOL = None


def _guarded(args):
    fn, item = args
    try:
        return ("ok", fn(item))
    except Exception:  # pylint: disable=broad-except
        return ("err", traceback.format_exc(), item)


def pmap(fn, items, chunksize=None):
    """Ordered parallel map; a crash in the harness code is a HarnessError."""
    items = list(items)
    if not items:
        return []
    if NPROC <= 1 or len(items) < 4:
        from . import world

        world.install()
        out = [_guarded((fn, it)) for it in items]
    else:
        if chunksize is None:
            chunksize = max(1, min(64, len(items) // (NPROC * 8) or 1))
        out = pool().map(_guarded, [(fn, it) for it in items], chunksize=chunksize)
    res = []
    for o in out:
        if o[0] == "err":
            raise HarnessError(f"worker crashed on {o[2]!r}\n{o[1]}")
        res.append(o[1])
    return res


# ---------------------------------------------------------------------------
class Ctx:
    def __init__(self, prop: str, tier: str, seed: int):
        self.prop = prop
        self.tier = tier
        self.seed = seed
        self.t0 = time.time()
        self.found: dict[str, dict] = {}  # signature -> first (shortest) violation
        self.n_violating = 0
        self.coverage: dict = {}
        self.assumptions: list[str] = []
        self.level = "model_checking"
        self.samples: list = []
        self.outcomes: set = set()
        self.deadline = None
        self.known_sigs = {f["signature"] for f in load_known().get("findings", []) if f["property"] == prop}

    def all_known(self, vlist) -> bool:
        """True when every failing clause is a recorded known finding (exploration may
        then continue past this state: survivors' behaviour is still of interest)."""
        return all(signature(self.prop, c, w) in self.known_sigs for c, w, _ in vlist)

    @property
    def quick(self):
        return self.tier == "quick"

    def elapsed(self):
        return time.time() - self.t0

    # -- recording ---------------------------------------------------------
    def violation(self, clause: str, witness: str, history, detail=None):
        """Record one failing clause; the first reported per signature is kept
        (explorers are breadth-first, so that is a shortest history)."""
        self.n_violating += 1
        sig = signature(self.prop, clause, witness)
        if sig not in self.found:
            self.found[sig] = {
                "property": self.prop,
                "clause": clause,
                "witness": witness,
                "signature": sig,
                "history": history,
                "detail": detail,
            }

    def add_violations(self, history, vlist):
        for clause, witness, detail in vlist:
            self.violation(clause, witness, history, detail)

    def sample(self, item, cap=6):
        if len(self.samples) < cap:
            self.samples.append(item)

    def cover(self, **kw):
        for k, v in kw.items():
            if isinstance(v, (int, float)) and not isinstance(v, bool) and k in self.coverage:
                self.coverage[k] += v
            else:
                self.coverage[k] = v

    # -- finishing -----------------------------------------------------------
    def finish(self) -> int:
        known = load_known()
        known_sigs = {f["signature"]: f for f in known.get("findings", []) if f["property"] == self.prop}
        rc = 0
        lines = []
        new_viol = 0
        seen_known = set()
        paths = {}
        for sig, v in sorted(self.found.items()):
            d = REPLAYS / self.prop
            d.mkdir(parents=True, exist_ok=True)
            path = d / (hashlib.sha256(sig.encode()).hexdigest()[:12] + ".json")
            path.write_text(jdump(v, indent=1))
            paths[sig] = path
        # every violation is re-executed from its replay file in a FRESH interpreter before it
        # is believed (the confirmations are independent processes: run them concurrently)
        from concurrent.futures import ThreadPoolExecutor

        with ThreadPoolExecutor(max_workers=min(8, max(1, len(paths)))) as tp:
            confirmed = dict(zip(paths, tp.map(lambda s: confirm_in_fresh_interpreter(self.prop, paths[s]), paths)))
        for sig, v in sorted(self.found.items()):
            path = paths[sig]
            if not confirmed[sig]:
                print(f"HARNESS-ERROR: {sig} did not reproduce in a fresh interpreter ({path})")
                rc = max(rc, 2)
                continue
            if sig in known_sigs:
                seen_known.add(sig)
                lines.append(f"KNOWN-FINDING: property={self.prop} {known_sigs[sig]['what']} [{sig}] replay={path}")
            else:
                new_viol += 1
                lines.append(f"VIOLATION property={self.prop} replay={path}")
                lines.append(f"  signature: {sig}")
                lines.append(f"  detail: {jdump(v['detail'])[:600]}")
                rc = max(rc, 1)
        for sig, f in known_sigs.items():
            if sig not in seen_known:
                lines.append(f"NOTE: known finding not observed in this tier/run: {sig}")
        self.write_evidence(new_viol)
        for ln in lines:
            print(ln)
        cov = self.coverage
        print(
            f"[{self.prop}] tier={self.tier} seed={self.seed} states={cov.get('states')} "
            f"transitions={cov.get('transitions')} outcomes={cov.get('distinct_outcomes')} "
            f"violating_executions={self.n_violating} distinct_signatures={len(self.found)} "
            f"new_violations={new_viol} wall={self.elapsed():.1f}s"
        )
        return rc

    def write_evidence(self, new_viol: int):
        cov = dict(self.coverage)
        cov.setdefault("samples", self.samples or ["(none)"])
        cov.setdefault("states", 1)
        cov.setdefault("transitions", 1)
        cov.setdefault("traces_validated_against_impl", cov.get("transitions", 0))
        cov.setdefault("exhaustive", True)
        cov["violating_executions"] = self.n_violating
        cov["known_findings_observed"] = sorted(
            s for s in self.found if s in {f["signature"] for f in load_known().get("findings", [])}
        )
        if self.level == "fault_enumeration":
            cov.setdefault("evaluations", cov.get("transitions", 1))
            cov.setdefault("distinct_nontrivial", cov.get("states", 2))
            cov.setdefault("rule", "see explanation")
        ev = {
            "property_id": self.prop,
            "tier": self.tier,
            "seed": self.seed,
            "level": self.level,
            "coverage": cov,
            "assumptions": self.assumptions,
            "wall_s": round(self.elapsed(), 2),
            "violations": new_viol,
        }
        EVIDENCE.mkdir(exist_ok=True)
        (EVIDENCE / f"{self.prop}.json").write_text(jdump(ev, indent=1))


def confirm_in_fresh_interpreter(prop: str, path: Path) -> bool:
    if os.environ.get("VERIF_NO_CONFIRM"):
        return True
    r = subprocess.run(
        [str(ROOT / "check"), prop, "--replay", str(path)],
        capture_output=True,
        text=True,
        timeout=600,
    )
    return r.returncode == 1 and "REPRODUCED" in r.stdout


def load_prop(prop: str):
    import importlib

    return importlib.import_module(f"mc.props.{prop.lower()}")


def replay_file(prop: str, path: str) -> int:
    """Plain replay of one recorded violation, without the explorer."""
    from . import world

    world.install()
    rec = json.loads(Path(path).read_text())
    mod = load_prop(prop)
    vl = mod.replay(rec["history"])
    sigs = {signature(prop, c, w) for c, w, _ in vl}
    print(f"replay of {path}: {len(vl)} failing clause(s)")
    for c, w, d in vl:
        print(f"  {c} | {w} | {jdump(d)[:400]}")
    if rec["signature"] in sigs:
        print(f"REPRODUCED {rec['signature']}")
        return 1
    print(f"NOT-REPRODUCED {rec['signature']}")
    return 0
