"""C13 helpers: object catalogue, builder, box lattice, independent point-in-box oracle.

Everything the oracle knows about an object is read back through the public API
(`record`): coordinates (vertices / centroids / collar), cells, data values.  The
reference selection (`inside`, `qualify`, `cell_selection`) is written from the property
statement with plain closed comparisons and never calls geoh5py.
"""

from __future__ import annotations

import itertools

import numpy as np

# ---------------------------------------------------------------------------
# catalogue (DESIGN §4 C13)
# ---------------------------------------------------------------------------
LATTICE_T = [(x, y, z) for x in (0.0, 1.0, 2.0) for y in (0.0, 1.0, 2.0) for z in (0.0, 1.0)]
LATTICE_Q = [(x, y, z) for x in (0.0, 1.0, 2.0) for y in (0.0, 1.0) for z in (0.0, 1.0)]

CURVE_CELLS = {
    "chain": [[0, 1], [1, 2], [2, 3]],
    "two_parts": [[0, 1], [2, 3]],
    "last_unused": [[0, 1], [1, 2]],
    "first_unused": [[1, 2], [2, 3]],
    "unordered": [[2, 3], [0, 1]],
    "star": [[0, 1], [0, 2], [0, 3]],
}
PLACE4 = {
    "A": [(0, 0, 0), (1, 0, 0), (2, 0, 0), (2, 1, 1)],
    "B": [(0, 0, 0), (1, 1, 0), (2, 2, 1), (0, 2, 1)],
    "C": [(0, 0, 0), (2, 0, 1), (2, 2, 0), (0, 2, 1)],
    "D": [(0, 0, 0), (1, 0, 0), (1, 0, 0), (2, 0, 1)],  # two vertices at one place
    "E": [(1, 1, 0), (0, 0, 0), (2, 0, 0), (1, 2, 1)],
}
SURF_CELLS = {
    "one": [[0, 1, 4]],
    "two_shared": [[0, 1, 4], [1, 3, 4]],
    "two_unused4": [[0, 1, 2], [1, 3, 2]],
    "fan": [[4, 0, 1], [4, 1, 3], [4, 3, 2], [4, 2, 0]],
}
PLACE5 = {
    "A": [(0, 0, 0), (2, 0, 0), (0, 2, 0), (2, 2, 1), (1, 1, 1)],
    "B": [(0, 0, 0), (1, 0, 0), (2, 0, 1), (1, 1, 0), (1, 2, 1)],
}
ROTATIONS = [0.0, 30.0, 90.0, -45.0, 180.0]
DIPS = [0.0, 30.0, 90.0]
SIZES = [(1.0, 1.0), (2.0, 0.5)]
ORIGINS = [[0.0, 0.0, 0.0], [10.1, -20.3, 30.7]]

BLOCKS = {
    "2x2x2": ([0.0, 1.0, 2.0], [0.0, 1.0, 2.0], [0.0, 1.0, 2.0]),
    "3x1x2": ([0.0, 1.0, 2.0, 4.0], [0.0, 1.0], [0.0, 1.0, 3.0]),
}
OCTREES = {
    "2x2x2": (2, 2, 2, [[i, j, k, 1] for k in range(2) for j in range(2) for i in range(2)]),
    "4x2x2": (4, 2, 2, [[0, 0, 0, 2]] + [[2 + i, j, k, 1] for k in range(2) for j in range(2) for i in range(2)]),
}

NUMERIC = ["fv", "iv", "fc", "ic"]


def points_spec(pts, data=("fv", "iv")):
    return {"kind": "points", "v": [list(p) for p in pts], "data": list(data)}


def clouds(lattice, max_size):
    for size in range(1, max_size + 1):
        for sub in itertools.combinations(lattice, size):
            yield points_spec(sub)


def curve_spec(place, cells, perm=None, data=("fv", "fc")):
    pts = PLACE4[place]
    if perm is not None:
        pts = [pts[i] for i in perm]
    return {
        "kind": "curve",
        "v": [list(map(float, p)) for p in pts],
        "cells": CURVE_CELLS[cells],
        "tag": f"{place}/{cells}" + ("" if perm is None else "/" + "".join(map(str, perm))),
        "data": list(data),
    }


def surface_spec(place, cells, data=("fv", "fc")):
    return {
        "kind": "surface",
        "v": [list(map(float, p)) for p in PLACE5[place]],
        "cells": SURF_CELLS[cells],
        "tag": f"{place}/{cells}",
        "data": list(data),
    }


def grid2d_spec(nu, nv, size, rot, dip, origin, data=("fc", "ic")):
    return {
        "kind": "grid2d",
        "nu": nu,
        "nv": nv,
        "du": size[0],
        "dv": size[1],
        "rot": rot,
        "dip": dip,
        "origin": list(origin),
        "data": list(data),
    }


def block_spec(name, rot, origin, data=("fc", "ic")):
    u, v, z = BLOCKS[name]
    return {"kind": "blockmodel", "u": u, "v": v, "z": z, "rot": rot, "origin": list(origin), "tag": name, "data": list(data)}


def octree_spec(name, rot, origin, data=("fc",)):
    nu, nv, nw, cells = OCTREES[name]
    return {
        "kind": "octree",
        "nu": nu,
        "nv": nv,
        "nw": nw,
        "cells": cells,
        "rot": rot,
        "origin": list(origin),
        "tag": name,
        "data": list(data),
    }


def tipper_spec(place, cells, n_base, data=("fv", "fc")):
    """Tipper receivers (a curve) linked to base stations (one station, or one per receiver)."""
    spec = curve_spec(place, cells, data=data)
    spec.update(kind="tipper", n_base=n_base, tag=spec["tag"] + f"/base{n_base}")
    return spec


def dc_spec(place, cells, data=("fv", "fc")):
    """Potential electrodes (a curve) linked to two current dipoles through A-B cell ids."""
    spec = curve_spec(place, cells, data=data)
    spec.update(kind="dc")
    return spec


def drillhole_spec(collar, surveys=None):
    return {"kind": "drillhole", "collar": list(collar), "surveys": surveys, "data": []}


def group_spec(children, tag=""):
    return {"kind": "group", "children": children, "tag": tag, "data": []}


def label(spec):
    """Stable, run-independent short description of an object configuration."""
    k = spec["kind"]
    if k == "points":
        return f"Points n={len(spec['v'])}"
    if k in ("curve", "surface", "tipper", "dc"):
        return f"{CLASSNAME[k]} {spec.get('tag', '')}"
    if k == "grid2d":
        return f"Grid2D {spec['nu']}x{spec['nv']} size=({spec['du']},{spec['dv']}) rot={spec['rot']} dip={spec['dip']}"
    if k == "blockmodel":
        return f"BlockModel {spec['tag']} rot={spec['rot']}"
    if k == "octree":
        return f"Octree {spec['tag']} rot={spec['rot']}"
    if k == "drillhole":
        return "Drillhole"
    if k == "group":
        return "Group[" + ",".join(c["kind"] for c in spec["children"]) + "]"
    return k


CLASSNAME = {
    "points": "Points",
    "curve": "Curve",
    "surface": "Surface",
    "grid2d": "Grid2D",
    "blockmodel": "BlockModel",
    "octree": "Octree",
    "drillhole": "Drillhole",
    "group": "Group",
    "tipper": "TipperReceivers",
    "dc": "PotentialElectrode",
}
CELL_KINDS = ("curve", "surface", "tipper", "dc")
DATA_CODES = ("fv", "iv", "fc", "ic", "tv", "tc", "bv", "rv", "to", "fo")


# ---------------------------------------------------------------------------
# builder: spec -> live entity in a workspace
# ---------------------------------------------------------------------------
def _data_dict(code, n_vert, n_cell):
    if code == "fv":
        return {"values": 100.0 + np.arange(n_vert, dtype=float), "association": "VERTEX"}
    if code == "iv":
        return {"values": (1 + np.arange(n_vert)).astype(np.int32), "association": "VERTEX"}
    if code == "fc":
        return {"values": 200.0 + np.arange(n_cell, dtype=float), "association": "CELL"}
    if code == "ic":
        return {"values": (11 + np.arange(n_cell)).astype(np.int32), "association": "CELL"}
    if code == "tv":
        return {"values": np.array([f"t{i}" for i in range(n_vert)]), "association": "VERTEX", "type": "text"}
    if code == "tc":
        return {"values": np.array([f"c{i}" for i in range(n_cell)]), "association": "CELL", "type": "text"}
    if code == "bv":
        return {"values": np.array([i % 2 == 0 for i in range(n_vert)]), "association": "VERTEX"}
    if code == "rv":
        return {
            "values": (1 + np.arange(n_vert) % 2).astype(np.int32),
            "association": "VERTEX",
            "type": "referenced",
            "value_map": {1: "A", 2: "B"},
        }
    if code == "to":
        return {"values": "note", "association": "OBJECT"}
    if code == "fo":
        return {"values": np.array([7.5]), "association": "OBJECT"}
    raise ValueError(code)


def build(ws, spec, parent=None, name="src"):
    from geoh5py.groups import ContainerGroup
    from geoh5py.objects import (BlockModel, CurrentElectrode, Curve, Drillhole, Grid2D, Octree, Points, PotentialElectrode,
                                 Surface, TipperBaseStations, TipperReceivers)

    kw = {"name": name}
    if parent is not None:
        kw["parent"] = parent
    k = spec["kind"]
    if k == "group":
        grp = ContainerGroup.create(ws, **kw)
        for i, ch in enumerate(spec["children"]):
            build(ws, ch, parent=grp, name=f"{name}.{i}")
        return grp
    if k == "points":
        ent = Points.create(ws, vertices=np.array(spec["v"], dtype=float), **kw)
    elif k == "curve":
        ent = Curve.create(ws, vertices=np.array(spec["v"], dtype=float), cells=np.array(spec["cells"], dtype=np.uint32), **kw)
    elif k == "tipper":
        verts = np.array(spec["v"], dtype=float)
        ent = TipperReceivers.create(ws, vertices=verts, cells=np.array(spec["cells"], dtype=np.uint32), **kw)
        ent.channels = [30.0]
        base = TipperBaseStations.create(ws, vertices=verts[: spec["n_base"]] + np.array([0.0, 0.0, 7.0]), name=name + ".base")
        ent.base_stations = base
    elif k == "dc":
        verts = np.array(spec["v"], dtype=float)
        cur = CurrentElectrode.create(ws, vertices=verts + np.array([0.0, 0.0, 7.0]), cells=np.array([[0, 1], [2, 3]], dtype=np.uint32),
                                      name=name + ".tx")
        cur.add_default_ab_cell_id()
        ent = PotentialElectrode.create(ws, vertices=verts, cells=np.array(spec["cells"], dtype=np.uint32), **kw)
        ent.ab_cell_id = np.array([1 + i % 2 for i in range(len(spec["cells"]))], dtype=np.int32)
        ent.current_electrodes = cur
    elif k == "surface":
        ent = Surface.create(ws, vertices=np.array(spec["v"], dtype=float), cells=np.array(spec["cells"], dtype=np.uint32), **kw)
    elif k == "grid2d":
        ent = Grid2D.create(
            ws,
            origin=list(spec["origin"]),
            u_cell_size=float(spec["du"]),
            v_cell_size=float(spec["dv"]),
            u_count=int(spec["nu"]),
            v_count=int(spec["nv"]),
            rotation=float(spec["rot"]),
            dip=float(spec["dip"]),
            **kw,
        )
    elif k == "blockmodel":
        ent = BlockModel.create(
            ws,
            origin=list(spec["origin"]),
            u_cell_delimiters=np.array(spec["u"], dtype=float),
            v_cell_delimiters=np.array(spec["v"], dtype=float),
            z_cell_delimiters=np.array(spec["z"], dtype=float),
            rotation=float(spec["rot"]),
            **kw,
        )
    elif k == "octree":
        ent = Octree.create(
            ws,
            origin=list(spec["origin"]),
            u_count=spec["nu"],
            v_count=spec["nv"],
            w_count=spec["nw"],
            u_cell_size=1.0,
            v_cell_size=1.0,
            w_cell_size=1.0,
            rotation=float(spec["rot"]),
            octree_cells=np.array(spec["cells"]),
            **kw,
        )
    elif k == "drillhole":
        ent = Drillhole.create(ws, collar=list(spec["collar"]), **kw)
        if spec.get("surveys"):
            ent.surveys = np.array(spec["surveys"], dtype=float)
    else:
        raise ValueError(k)
    if spec.get("data"):
        n_vert = getattr(ent, "n_vertices", None) or 0
        n_cell = getattr(ent, "n_cells", None) or 0
        ent.add_data({code: _data_dict(code, n_vert, n_cell) for code in spec["data"]})
    return ent


# ---------------------------------------------------------------------------
# observation through the API
# ---------------------------------------------------------------------------
def kind_of(ent):
    from geoh5py.groups import Group
    from geoh5py.objects import (BlockModel, Curve, Drillhole, Grid2D, Octree, Points, PotentialElectrode, Surface,
                                 TipperReceivers)

    for cls, k in ((TipperReceivers, "tipper"), (PotentialElectrode, "dc"), (Drillhole, "drillhole"), (Surface, "surface"), (Curve, "curve"), (Points, "points"), (Grid2D, "grid2d"),
                   (BlockModel, "blockmodel"), (Octree, "octree"), (Group, "group")):
        if isinstance(ent, cls):
            return k
    return "other"


def _vals(child):
    v = getattr(child, "values", None)
    if isinstance(v, np.ndarray):
        return np.array(v)
    return v


def record(ent):
    """What the oracle may know about a live entity (all through public attributes)."""
    from geoh5py.data import Data

    k = kind_of(ent)
    rec = {"kind": k, "name": ent.name}
    if k == "group":
        rec["children"] = [record(ch) for ch in ent.children if not isinstance(ch, Data)]
        rec["coords"] = all_coords(rec)
        return rec
    if k in ("points",) + CELL_KINDS:
        rec["coords"] = np.array(ent.vertices, dtype=float).reshape(-1, 3)
        rec["cells"] = None if k == "points" else np.array(ent.cells).astype(int)
    elif k == "drillhole":
        col = ent.collar
        rec["coords"] = np.array([[float(col["x"]), float(col["y"]), float(col["z"])]])
        rec["cells"] = None
    else:
        rec["coords"] = np.array(ent.centroids, dtype=float).reshape(-1, 3)
        rec["cells"] = None
        if k == "grid2d":
            rec["nu"], rec["nv"] = int(ent.u_count), int(ent.v_count)
            rec["du"], rec["dv"] = float(ent.u_cell_size), float(ent.v_cell_size)
            rec["rot"], rec["dip"] = float(ent.rotation), float(ent.dip)
    rec["data"] = {}
    for ch in ent.children:
        if isinstance(ch, Data) and ch.name in DATA_CODES:
            rec["data"][ch.name] = {"assoc": ch.association.name, "values": _vals(ch), "cls": type(ch).__name__,
                                    "ndv": _ndv(ch)}
    return rec


def _ndv(child):
    try:
        v = child.nan_value
    except Exception:  # pylint: disable=broad-except
        return None
    if isinstance(v, float) and v != v:
        return "nan"
    if isinstance(v, (int, np.integer)) and not isinstance(v, bool):
        return int(v)
    if isinstance(v, str):
        return v
    return None


def all_coords(rec):
    if rec["kind"] != "group":
        return rec["coords"]
    parts = [all_coords(ch) for ch in rec["children"]]
    parts = [p for p in parts if p is not None and len(p)]
    if not parts:
        return np.zeros((0, 3))
    return np.vstack(parts)


# ---------------------------------------------------------------------------
# reference selection - literal reading of the statement
# ---------------------------------------------------------------------------
def inside(coords, ext):
    """Closed box test on the first ext.shape[1] coordinates (elevation ignored for 2 columns)."""
    out = []
    ncols = len(ext[0])
    for p in coords:
        ok = True
        for k in range(ncols):
            if not (ext[0][k] <= p[k] and p[k] <= ext[1][k]):
                ok = False
                break
        out.append(ok)
    return np.array(out, dtype=bool)


def qualify(coords, ext, inverse):
    ins = inside(coords, ext)
    return ~ins if inverse else ins


def misses_bbox(coords, ext):
    """The box and the bounding box of the coordinates do not intersect (on the box's axes)."""
    if len(coords) == 0:
        return True
    for k in range(len(ext[0])):
        cmin, cmax = min(p[k] for p in coords), max(p[k] for p in coords)
        if ext[1][k] < cmin or ext[0][k] > cmax:
            return True
    return False


def cell_selection(q_vert, cells):
    """Cells whose vertices all qualify and the vertices those cells use."""
    keep_c = np.array([all(q_vert[i] for i in c) for c in cells], dtype=bool)
    keep_v = np.zeros(len(q_vert), dtype=bool)
    for c, k in zip(cells, keep_c):
        if k:
            for i in c:
                keep_v[i] = True
    return keep_c, keep_v


def on_face(coords, ext, idx, tol=0.0):
    """Does element idx lie on a face plane of the box (within tol)?"""
    p = coords[idx]
    for k in range(len(ext[0])):
        if abs(p[k] - ext[0][k]) <= tol or abs(p[k] - ext[1][k]) <= tol:
            return True
    return False


# ---------------------------------------------------------------------------
# box lattice
# ---------------------------------------------------------------------------
def positions(values):
    """{min-1} + coordinates + midpoints of neighbours + {max+1}, sorted, distinct floats."""
    vals = sorted(set(float(v) for v in values))
    pos = [vals[0] - 1.0]
    for a, b in zip(vals, vals[1:]):
        pos += [a, (a + b) / 2.0]
    pos += [vals[-1], vals[-1] + 1.0]
    return sorted(set(pos))


class Lattice:
    """All order types of a box relative to a coordinate set, per axis and as a product."""

    def __init__(self, coords, ncols):
        self.coords = np.asarray(coords, dtype=float)
        self.ncols = ncols
        self.pos = [positions(self.coords[:, k]) for k in range(ncols)]
        self.pairs = [[(a, b) for i, a in enumerate(p) for b in p[i:]] for p in self.pos]
        self.n_boxes = int(np.prod([len(p) for p in self.pairs]))

    def boxes(self):
        for combo in itertools.product(*self.pairs):
            yield [[c[0] for c in combo], [c[1] for c in combo]]

    def box_at(self, index):
        idx = np.unravel_index(index, [len(p) for p in self.pairs])
        combo = [self.pairs[k][i] for k, i in enumerate(idx)]
        return [[c[0] for c in combo], [c[1] for c in combo]]

    def tables(self):
        """Vectorised reference: per box the bit code of the elements inside, miss flag, touch flag."""
        n = len(self.coords)
        assert n <= 62
        mem, miss, touch = [], [], []
        for k in range(self.ncols):
            lo = np.array([p[0] for p in self.pairs[k]])
            hi = np.array([p[1] for p in self.pairs[k]])
            c = self.coords[:, k]
            mem.append((lo[:, None] <= c[None, :]) & (c[None, :] <= hi[:, None]))
            miss.append((hi < c.min()) | (lo > c.max()))
            touch.append(np.isin(lo, c) | np.isin(hi, c))
        shape = [len(p) for p in self.pairs]
        weights = (1 << np.arange(n, dtype=np.int64))
        m = None
        ms = None
        tc = None
        for k in range(self.ncols):
            sh = [1] * self.ncols
            sh[k] = shape[k]
            mk = mem[k].reshape(sh + [n])
            m = mk if m is None else (m & mk)
            msk = miss[k].reshape(sh)
            ms = msk if ms is None else (ms | msk)
            tk = touch[k].reshape(sh)
            tc = tk if tc is None else (tc | tk)
        code = (m.astype(np.int64) * weights).sum(axis=-1)
        return code.ravel(), np.broadcast_to(ms, shape).ravel(), np.broadcast_to(tc, shape).ravel()

    def neighbours(self, k, value):
        p = self.pos[k]
        i = p.index(value)
        return p[i - 1], p[i + 1]

    def class_reps(self, code):
        """tight / loose / lo-touch / hi-touch boxes selecting exactly the elements of `code`."""
        sel = [i for i in range(len(self.coords)) if (code >> i) & 1]
        tl, th, ll, lh = [], [], [], []
        for k in range(self.ncols):
            lo = float(self.coords[sel, k].min())
            hi = float(self.coords[sel, k].max())
            tl.append(lo)
            th.append(hi)
            ll.append(self.neighbours(k, lo)[0])
            lh.append(self.neighbours(k, hi)[1])
        return {"tight": [tl, th], "loose": [ll, lh], "lo_touch": [tl, lh], "hi_touch": [ll, th]}

    def sweeps(self):
        """Every per-axis order type with the other axes wide open."""
        wide = [(p[0], p[-1]) for p in self.pos]
        for k in range(self.ncols):
            for pr in self.pairs[k]:
                combo = list(wide)
                combo[k] = pr
                yield [[c[0] for c in combo], [c[1] for c in combo]]
