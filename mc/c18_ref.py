"""C18 reference: the surveyed path written from the property statement only.

Nothing here imports geoh5py.  Conventions taken from the statement / the API contract:

* a survey row is (depth, azimuth, dip); azimuth in degrees clockwise from north, dip in
  degrees from the horizontal, negative downwards (the default table of a hole without
  surveys is (0, 0, -90) = straight down);
* direction of a station = (sin az cos dip, cos az cos dip, sin dip)  (east, north, up);
* the path starts at the collar (depth 0); between two stations at depths a < b it moves
  along the arithmetic mean of the two station directions, by (d - a) times that mean;
* the section between the collar and a first station deeper than 0 has a single station:
  its two "station directions" are both the first station's direction (clause reported
  under its own name, see props/c18.py);
* beyond the final station the hole "continues the last direction".  The sentence admits
  three readings, ALL accepted: direction of the final station; mean direction of the last
  leg (last two stations); direction of the last leg of non-zero length actually travelled.
"""

from __future__ import annotations

import bisect
import math

TOL_REL = 1e-9


def direction(az: float, dip: float):
    a = math.radians(az % 360.0)
    d = math.radians(dip)
    return (math.sin(a) * math.cos(d), math.cos(a) * math.cos(d), math.sin(d))


def _mean(u, v):
    return tuple((a + b) / 2.0 for a, b in zip(u, v))


def _add(p, s, u):
    return tuple(a + s * b for a, b in zip(p, u))


def _same(u, v):
    return max(abs(a - b) for a, b in zip(u, v)) < 1e-12


class Path:
    """Augmented stations: index 0 is the collar (depth 0, first station's direction)."""

    def __init__(self, collar, table):
        self.collar = tuple(float(c) for c in collar)
        self.table = [tuple(float(x) for x in row) for row in table]
        self.n = len(self.table)
        self.a = [0.0] + [r[0] for r in self.table]
        dirs = [direction(r[1], r[2]) for r in self.table]
        self.w = [dirs[0]] + dirs
        self.m = [_mean(self.w[i], self.w[i + 1]) for i in range(self.n)]
        self.zero = [self.a[i + 1] == self.a[i] for i in range(self.n)]
        self.p = [self.collar]
        for i in range(self.n):
            self.p.append(_add(self.p[i], self.a[i + 1] - self.a[i], self.m[i]))
        self.last = self.a[-1]

    # -- shape descriptors (stable witnesses) --------------------------------
    def shape(self) -> str:
        return f"n{self.n}-z" + "".join("1" if z else "0" for z in self.zero)

    def has_zero_leg(self) -> bool:
        return any(self.zero)

    def leg_of(self, q: float):
        """index i with a[i] < q <= a[i+1]; None at / above the collar or beyond the end."""
        if q <= 0.0 or q > self.last:
            return None
        return bisect.bisect_left(self.a, q) - 1

    def leg_kind(self, i: int) -> str:
        if i == 0:
            return "top"
        return "last" if i == self.n - 1 else "inner"

    def dirs_same(self, i: int) -> bool:
        return _same(self.w[i], self.w[i + 1])

    # -- positions -----------------------------------------------------------
    def inside(self, q: float):
        """Reference position for 0 <= q <= last station."""
        if q <= 0.0:
            return self.collar
        i = self.leg_of(q)
        return _add(self.p[i], q - self.a[i], self.m[i])

    def last_directions(self):
        """All admissible readings of 'the last direction' (label, vector)."""
        out = [("final-station", self.w[-1]), ("last-leg-mean", self.m[-1])]
        for i in range(self.n - 1, -1, -1):
            if not self.zero[i]:
                out.append(("last-travelled-leg", self.m[i]))
                break
        return out

    def admissible(self, q: float):
        """List of admissible reference positions of depth q (one inside, <=3 beyond)."""
        if q <= self.last:
            return [self.inside(q)]
        return [_add(self.p[-1], q - self.last, L) for _, L in self.last_directions()]

    def tol(self, q: float) -> float:
        return TOL_REL * (1.0 + max(abs(c) for c in self.collar) + abs(q))

    # -- query depths --------------------------------------------------------
    def queries(self):
        """0, every station, mid and quarter point of every leg of non-zero length, the two
        float neighbours of every station (and of 0), two depths beyond the last station."""
        qs = {0.0, math.nextafter(0.0, math.inf)}
        for i in range(self.n):
            lo, hi = self.a[i], self.a[i + 1]
            qs.update((hi, math.nextafter(hi, math.inf)))
            if math.nextafter(hi, -math.inf) >= 0.0:
                qs.add(math.nextafter(hi, -math.inf))
            if hi > lo:
                qs.update((lo + (hi - lo) / 2.0, lo + (hi - lo) / 4.0))
        qs.update((self.last + 7.0, self.last + 1000.0))
        return sorted(qs)


def close(p, q, tol) -> bool:
    return all(math.isfinite(a) and abs(a - b) <= tol for a, b in zip(p, q))


def sub(p, q):
    return tuple(a - b for a, b in zip(p, q))


def scale(s, u):
    return tuple(s * a for a in u)


def norm(u) -> float:
    return math.sqrt(sum(a * a for a in u))


def judge_path(path: Path, qs, pos):
    """pos[k] = position the implementation computed for depth qs[k].  Returns the list of
    failing (clause, witness, detail), each clause a sentence of the statement."""
    out = []
    at = {q: tuple(float(x) for x in p) for q, p in zip(qs, pos)}

    def fail(clause, witness, **detail):
        if not any(c == clause and w == witness for c, w, _ in out):
            out.append((clause, witness, detail))

    # "the position computed for any depth lies on the surveyed path": it is a point
    bad = [q for q in qs if not all(math.isfinite(x) for x in at[q])]
    if bad:
        fail("position-is-finite", "zero-length-leg" if path.has_zero_leg() else "no-zero-length-leg",
             depths=bad[:4], got=[at[q] for q in bad[:2]], shape=path.shape())
        return out

    # "it is the collar at depth zero"
    if not close(at[0.0], path.collar, path.tol(0.0)):
        fail("collar-at-depth-zero", "desurvey-of-zero", got=at[0.0], collar=path.collar, shape=path.shape())

    # "varies continuously with depth": float neighbours of 0 and of every station
    for s in sorted(set(path.a)):
        for nb in (math.nextafter(s, -math.inf), math.nextafter(s, math.inf)):
            if nb in at and not close(at[nb], at[s], path.tol(s)):
                side = "below" if nb < s else "above"
                where = "collar" if s == 0.0 else ("final-station" if s == path.last else "station")
                fail("continuous-at-station", f"{where}:{side}", station=s, at_station=at[s], neighbour=at[nb], shape=path.shape())

    # "moves within each survey leg along the mean of the leg's two station directions"
    for i in range(path.n):
        if path.zero[i]:
            continue
        lo = math.nextafter(path.a[i], math.inf)  # first depth inside the leg
        inside = [q for q in qs if path.leg_of(q) == i and q > lo]
        kind = path.leg_kind(i)
        clause = "top-section-follows-first-station" if kind == "top" else "leg-moves-along-mean-direction"
        same = path.dirs_same(i)
        for q in inside:
            want = scale(q - lo, path.m[i])
            got = sub(at[q], at[lo])
            if not close(got, want, path.tol(q)):
                fail(clause, f"{kind}:dirs-{'same' if same else 'differ'}", leg=[path.a[i], path.a[i + 1]],
                     depth=q, moved=got, expected=want, shape=path.shape())
            # "(hence by exactly the depth difference where the two coincide)"
            if same and kind != "top" and abs(norm(got) - (q - lo)) > path.tol(q):
                fail("moves-by-depth-difference-where-directions-coincide", kind, depth=q,
                     moved=norm(got), expected=q - lo, shape=path.shape())

    # "continues the last direction beyond the final survey"
    base = at[path.last]
    for q in qs:
        if q > math.nextafter(path.last, math.inf):
            got = sub(at[q], base)
            cands = path.last_directions()
            if not any(close(got, scale(q - path.last, L), path.tol(q)) for _, L in cands):
                w = f"last-leg-{'zero-length' if path.zero[-1] else 'normal'}:last-stations-{'same' if path.dirs_same(path.n - 1) else 'differ'}"
                fail("continues-last-direction", w, depth=q, moved=got, shape=path.shape(),
                     admissible={k: scale(q - path.last, L) for k, L in cands})

    # the clauses above chain into the whole path; say so explicitly if only the sum is off
    if not out:
        for q in qs:
            if q <= path.last and not close(at[q], path.inside(q), path.tol(q)):
                fail("lies-on-surveyed-path", "sum-of-increments", depth=q, got=at[q], expected=path.inside(q), shape=path.shape())
    return out
