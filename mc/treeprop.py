"""Boilerplate shared by the tree-alphabet properties: run plans (scene x config x depth x
alphabet), forked execution, determinism / fork-vs-plain self tests, evidence."""

from __future__ import annotations

import os

from . import core, explorer, treecheck, treeops

FULL = {
    "ops": ["rename", "flag", "values", "vertices", "meta", "mk_group", "mk_obj", "add_data", "pg_add", "pg_rm", "pg_del",
            "move", "copy", "rm_ws", "rm_par", "reopen", "gc"],
    "flags": ("allow_delete", "visible"),
    "classes": ("Points", "Curve"),
    "dkinds": ("fv", "to", "rv"),
    "pgs": ("P", "Q"),
    "caps": {"groups": 3, "objects": 3, "data_per_object": 3, "entities": 16},
    "ws2": True,
    "move_data": True,
    "copy_data": True,
    "defer": True,
    "pg_foreign": True,
    "retype": True,
}
FULL["ops"].append("rm_par_all")
FULL["ops"].append("parts")
# structural operations only: deeper histories for the same budget
STRUCT = dict(FULL, ops=["mk_group", "add_data", "pg_add", "pg_rm", "move", "copy", "rm_ws", "rm_par", "reopen", "gc"],
              dkinds=("fv",), classes=("Points",), pgs=("P",), caps={"groups": 3, "objects": 3, "data_per_object": 3, "entities": 14},
              copy_data=False, pg_foreign=False, retype=False, defer=False)
# edits only: assignments interleaved with re-open / GC
EDIT = dict(FULL, ops=["rename", "flag", "values", "vertices", "meta", "pg_add", "pg_rm", "pg_del", "move", "reopen", "gc"], ws2=False,
            move_data=False, flags=("allow_delete", "allow_move", "allow_rename", "partially_hidden", "public", "visible"))
# deletion-centred: builders, both removal entry points, permission flag, follow-ups
DEL = dict(FULL, ops=["flag", "add_data", "pg_add", "pg_rm", "pg_del", "mk_group", "move", "copy", "rm_ws", "rm_par", "rm_par_all", "reopen", "gc"],
           flags=("allow_delete",), dkinds=("fv",), classes=("Points",), caps={"groups": 3, "objects": 3, "data_per_object": 4, "entities": 16},
           copy_data=False)
DELCORE = dict(DEL, ops=["flag", "pg_rm", "rm_ws", "rm_par", "rm_par_all", "copy", "reopen", "gc"], copy_targets=("same", "root2"), defer=False,
               pg_foreign=False, retype=False)
# identifiers: creations with caller-supplied uids (in use / formerly used), copies, removals
IDS = dict(FULL, ops=["mk_group", "mk_obj", "add_data", "pg_add", "copy", "rm_ws", "rm_par", "reopen", "gc"], uid_reuse=True,
           dkinds=("fv",), classes=("Points",), pgs=("P",), caps={"groups": 3, "objects": 3, "data_per_object": 3, "entities": 14})
# operations explored under the most aggressive GC schedule (collection at every function
# entry / exit inside the library during the last operation) - no copy / re-open (cost)
GCOPS = dict(FULL, ops=["rename", "values", "pg_add", "pg_rm", "pg_del", "move", "rm_ws", "rm_par"], ws2=False, move_data=True)
# FULL without deferred creation: an entity created with save_on_creation=False reaches the
# file during some LATER operation, which legitimately widens that operation's footprint (C09)
FULLND = dict(FULL, defer=False)
# refused creations (identifier in use) followed by GC / re-open: a refusal must leave no trace
IDGC = dict(FULL, ops=["mk_group", "rename", "gc", "reopen"], uid_reuse=True, defer=False, pg_foreign=False, retype=False, ws2=False,
            caps={"groups": 3, "objects": 2, "data_per_object": 2, "entities": 8})
# re-assigning data types (shared, then un-shared) with purges of unused types in between
RETYPE = dict(FULL, ops=["rm_ws", "gc", "reopen", "values"], retype=True, defer=False, pg_foreign=False, ws2=False)
# copies only (with and without children, same and other workspace): identifier policy of copies
COPYONLY = dict(FULL, ops=["copy", "pg_add"], defer=False, pg_foreign=False, retype=False, copy_data=False)
# property groups declared without members (children of an object that are not entities and
# that no removal of data empties), then removals / re-creations / copies
PGDECL = dict(IDS, ops=["mk_obj", "add_data", "pg_add", "pg_rm", "copy", "rm_ws", "rm_par", "reopen", "gc"], pg_declare=("E",), pg_foreign=False, retype=False,
              defer=False, copy_data=False)
# removals around declared-but-empty property groups
PGDEL = dict(DELCORE, ops=["add_data", "pg_add", "pg_rm", "rm_ws", "rm_par", "rm_par_all", "copy", "reopen", "gc"], pg_declare=("E",))
ALPHAS = {"PGDEL": PGDEL, "PGDECL": PGDECL, "COPYONLY": COPYONLY, "RETYPE": RETYPE, "IDGC": IDGC, "FULLND": FULLND, "FULL": FULL, "STRUCT": STRUCT, "EDIT": EDIT, "DEL": DEL, "DELCORE": DELCORE, "IDS": IDS, "GCOPS": GCOPS}

DROP_ASC = {"uid_order": "asc", "policy": "drop"}
HOLD_DESC = {"uid_order": "desc", "policy": "hold"}
DROP_DESC = {"uid_order": "desc", "policy": "drop"}
HOLD_ASC = {"uid_order": "asc", "policy": "hold"}
GC_DROP = {"uid_order": "asc", "policy": "drop", "gc": "every-call"}


class TreeProp:
    def __init__(self, prop, clauses, want, quick_plan, thorough_plan, alphas=None, assumptions=(), bound=""):
        self.prop = prop
        self.clauses = clauses
        self.want = want
        self.quick_plan = quick_plan
        self.thorough_plan = thorough_plan
        self.alphas = alphas or ALPHAS
        self.assumptions = list(assumptions)
        self.bound = bound

    def body(self, ex, obs):
        alpha = self.alphas[ex.alpha_name]
        viol = list(self.clauses(ex, obs))
        for ev in ex.events:
            if ev[0] == "lost-entity":
                viol.append(("live-entities-can-be-looked-up", f"{ev[2]}-not-found-by-uid", {"entity": ev[1], "results": ex.results[-5:]}))
        return {
            "key": obs["key"],
            "model_key": obs["model_key"],
            "viol": viol,
            "succ": treeops.enabled(ex.model, alpha),
            "outcome": treecheck.outcome(ex, obs),
        }

    def _body(self, history):
        def fn(ex, obs):
            ex.alpha_name = history.get("alpha", "FULL")
            return self.body(ex, obs)

        return fn

    def run_one(self, history):
        return treecheck.execute_forked(history, self._body(history), self.want)

    def replay(self, history):
        return self._body(history)(*treecheck.execute(history, self.want))["viol"]

    def run(self, ctx):
        budget = {"reopen": 1, "gc": 1} if ctx.quick else {"reopen": 2, "gc": 2}
        total = {"states": 0, "transitions": 0, "model_states": 0}
        runs = []
        seeds = []
        plan = self.quick_plan if ctx.quick else self.thorough_plan
        if os.environ.get("VERIF_ONLY_ALPHA"):  # development aid: one alphabet of the plan
            plan = [r for r in plan if r[3] == os.environ["VERIF_ONLY_ALPHA"]]
        for scene, cfg, depth, alpha in plan:
            seed_h = {"property": self.prop, "cfg": cfg, "scene": scene, "alpha": alpha, "ops": []}
            st = explorer.explore(ctx, self.run_one, [seed_h], depth, cost=treeops.deviations, budget=budget)
            runs.append({"scene": scene, "cfg": cfg, "depth": depth, "alphabet": alpha,
                         **{k: st[k] for k in ("states", "transitions", "model_states", "levels")}})
            for k in total:
                total[k] += st[k]
            seeds.append(seed_h)
        # soundness of state merging (DESIGN §2.4): the same exploration WITHOUT merging must
        # reach exactly the same canonical states and verdicts (thorough tier, shallow depth)
        nomerge = None
        if not ctx.quick:
            scene, cfg, depth, alpha = self.thorough_plan[0]
            d0 = min(depth, 2)
            seed_h = {"property": self.prop, "cfg": cfg, "scene": scene, "alpha": alpha, "ops": []}
            a = explorer.explore(ctx, self.run_one, [seed_h], d0, cost=treeops.deviations, budget=budget, merge=True)
            b = explorer.explore(ctx, self.run_one, [seed_h], d0, cost=treeops.deviations, budget=budget, merge=False)
            if a["_keys"] != b["_keys"] or a["_viol_sigs"] != b["_viol_sigs"]:
                raise core.HarnessError(
                    f"state merging is unsound on {scene}/{alpha} depth {d0}: "
                    f"{len(a['_keys'])} vs {len(b['_keys'])} canonical states, verdicts {a['_viol_sigs'] ^ b['_viol_sigs']}"
                )
            nomerge = {"scene": scene, "alphabet": alpha, "depth": d0, "canonical_states": len(a["_keys"]),
                       "executions_merged": a["transitions"], "executions_unmerged": b["transitions"]}
        probe = dict(seeds[-1], ops=[["mk_group", "root"], ["reopen"], ["copy", 0, "root2", True]])
        ndet = explorer.determinism_check(self.run_one, [seeds[0], probe])
        for h in (seeds[0], probe):
            a, b = self.run_one(h), self._body(h)(*treecheck.execute(h, self.want))
            if core.jdump(a) != core.jdump(b):
                raise core.HarnessError(f"forked and plain execution disagree on {h}")
        ctx.cover(
            states=total["states"],
            transitions=total["transitions"],
            traces_validated_against_impl=total["transitions"],
            model_states=total["model_states"],
            distinct_outcomes=len(ctx.outcomes),
            deviation_budget_completed=budget,
            alphabets={r["alphabet"]: self.alphas[r["alphabet"]] for r in runs},
            runs=runs,
            determinism_replays=ndet,
            fork_vs_plain_crosscheck=2,
            nomerge_crosscheck=nomerge,
            exhaustive=True,
            bound=self.bound or "all histories over the listed alphabet up to the per-run depth (runs[].depth) after the scene",
        )
        ctx.assumptions += self.assumptions + [
            "bounded: scenes, depths, entity caps and deviation budget (re-open / GC points) as listed in coverage.runs; nothing is claimed beyond",
            "GC happens only at explicit gc operations and where the library itself calls gc.collect()",
        ]
