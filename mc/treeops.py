"""Tree alphabet: executor on the real library in lock-step with a boring reference model.

A history is {"cfg": {...}, "scene": "S1", "ops": [[name, arg...], ...]}.  Arguments are
symbolic: entity handles are creation indices (ints), "root" is the workspace root and
"root2" the root of a second workspace used as a cross-workspace copy target.

The executor applies operations to a fresh in-memory workspace; the model (plain dicts)
says what the tree must look like afterwards.  Implementation-only refusals are recorded
as results; the model then says "unchanged".
"""

from __future__ import annotations

import copy as _copy
import gc
import io
import uuid

import numpy as np

from . import observe, rawh5, world

FLAGS = ("allow_delete", "allow_move", "allow_rename", "partially_hidden", "public", "visible")
DATA_KINDS = {
    # kind: (association, builder of add_data attributes)
    "fv": "VERTEX",
    "iv": "VERTEX",
    "rv": "VERTEX",
    "to": "OBJECT",
    "fc": "CELL",
}
N_VERT = 3


def payload(kind: str, origin: int, ver: int, n: int):
    """Tagged values: unique per (origin entity, version, position)."""
    base = 1000 * (origin + 1) + 10 * ver
    if kind in ("fv", "fc"):
        return np.array([base + i + 0.5 for i in range(n)])
    if kind == "iv":
        return np.array([base + i for i in range(n)], dtype=np.int32)
    if kind == "rv":
        return np.array([1 + (origin + ver + i) % 2 for i in range(n)], dtype=np.int32)
    if kind == "to":
        return f"text-{origin}-{ver}-é"
    raise ValueError(kind)


def vertices(origin: int, ver: int, n: int = N_VERT):
    return np.array([[100.0 * origin + 10.0 * ver + i, float(i), float(origin)] for i in range(n)])


def _scribble(arr):
    """The caller re-uses the buffer it handed to the library (a work array refilled in a
    loop): an entity must not alias it."""
    if isinstance(arr, np.ndarray) and arr.dtype.kind in "fiu":
        arr[...] = -777


def metadata(origin: int, ver: int):
    if ver == 0:
        return None
    return {f"k{v}": {"a": v, "o": origin} for v in range(1, ver + 1)}


# ---------------------------------------------------------------------------
class Node:
    __slots__ = ("idx", "kind", "cls", "name", "parent", "flags", "children", "dkind", "vsrc", "gsrc", "msrc", "pgs", "ws", "tsrc", "pver")

    def __init__(self, idx, kind, cls, name, parent, ws=1):
        self.idx = idx
        self.kind = kind  # group | object | data
        self.cls = cls
        self.name = name
        self.parent = parent  # idx | "root" | "root2"
        self.flags = {f: True for f in FLAGS}
        self.flags["partially_hidden"] = False
        if kind == "data":
            self.flags["visible"] = False
        self.children = []
        self.dkind = None
        self.vsrc = None  # (origin, ver) of values
        self.gsrc = None  # (origin, ver) of vertices
        self.msrc = (idx, 0)  # metadata
        self.pgs = {}  # name -> [data idx]
        self.ws = ws
        self.tsrc = None  # data only: index of the data whose type is shared (None = own)
        self.pver = 0  # Curve only: 1 once parts were assigned


class Model:
    def __init__(self):
        self.nodes: dict[int, Node] = {}
        self.roots = {"root": [], "root2": []}
        self.n = 0
        self.removed: dict[int, str] = {}  # idx -> how ("ws" | "parent" | "cascade:<how>")
        self.ws_of: dict[int, int] = {}

    def clone(self):
        return _copy.deepcopy(self)

    def new(self, kind, cls, name, parent):
        idx = self.n
        self.n += 1
        ws = 2 if (parent == "root2" or (parent not in ("root", "root2") and self.nodes[parent].ws == 2)) else 1
        nd = Node(idx, kind, cls, name, parent, ws)
        self.nodes[idx] = nd
        self.ws_of[idx] = ws
        self.kids(parent).append(idx)
        return nd

    def kids(self, handle):
        return self.roots[handle] if handle in self.roots else self.nodes[handle].children

    def descendants(self, idx):
        out = []
        for c in self.nodes[idx].children:
            out.append(c)
            out += self.descendants(c)
        return out

    def is_ancestor(self, a, b):
        """a is b or an ancestor of b"""
        cur = b
        while cur not in ("root", "root2"):
            if cur == a:
                return True
            cur = self.nodes[cur].parent
        return False

    def remove(self, idx, how):
        nd = self.nodes[idx]
        for d in self.descendants(idx):
            self.removed[d] = f"cascade:{how}"
            del self.nodes[d]
        self.kids(nd.parent).remove(idx)
        if nd.kind == "data" and nd.parent in self.nodes:
            par = self.nodes[nd.parent]
            for name in list(par.pgs):
                if idx in par.pgs[name]:
                    par.pgs[name].remove(idx)
                    if not par.pgs[name]:
                        del par.pgs[name]
        self.removed[idx] = how
        del self.nodes[idx]

    def names_ambiguous(self, idx):
        """same-named siblings anywhere in the subtree (copy matching by name impossible)"""
        nd = self.nodes[idx]
        names = [self.nodes[c].name for c in nd.children]
        if len(names) != len(set(names)):
            return True
        return any(self.names_ambiguous(c) for c in nd.children)

    def alive(self, kind=None, ws=1):
        return [n for n in self.nodes.values() if (kind is None or n.kind == kind) and n.ws == ws]


# ---------------------------------------------------------------------------
class Refused(Exception):
    pass


class LostEntity(Exception):
    """An entity the model considers alive cannot be looked up by its identifier."""


def _with_gc_at_every_line(fn, args):
    """Most aggressive GC schedule: a full collection at every function entry and exit inside
    geoh5py while `fn` runs (the default schedule - no collection at all except where the
    library asks for one - is the other extreme; explicit `gc` operations sit in between)."""
    import sys

    def tracer(frame, event, arg):
        if "geoh5py" not in frame.f_code.co_filename:
            return None
        if event in ("call", "return"):
            gc.collect()
        return tracer

    old = sys.gettrace()
    sys.settrace(tracer)
    try:
        return fn(*args)
    finally:
        sys.settrace(old)


class TreeExec:
    """Applies a history to the real library and to the model."""

    def __init__(self, cfg: dict):
        from geoh5py.workspace import Workspace

        self.cfg = {"uid_order": "asc", "policy": "drop", "version": 2.1}
        self.cfg.update(cfg or {})
        world.reset(self.cfg["uid_order"])
        self.Workspace = Workspace
        self.ws = Workspace(version=self.cfg["version"])
        self.ws2 = None
        self.model = Model()
        self.uid: dict[int, uuid.UUID] = {}
        self.pg_uid: dict[tuple, uuid.UUID] = {}
        self.held: list = []
        self.results: list = []
        self.closed_bytes: list = []  # bytes after every close along the way
        self.events: list = []  # for property-specific oracles
        self.hold = self.cfg["policy"] == "hold"
        self.unexpected: list = []  # library refusals of operations the model considers valid
        self.all_ops: list = []
        self.gc_armed = False  # set for the LAST operation of a history only (cost)
        self.deferred: list = []

    # -- resolution -----------------------------------------------------------
    def wsof(self, handle):
        if handle == "root":
            return self.ws
        if handle == "root2":
            return self.get_ws2()
        return self.ws if self.model.nodes[handle].ws == 1 else self.get_ws2()

    def get_ws2(self):
        if self.ws2 is None:
            self.ws2 = self.Workspace(version=self.cfg["version"])
        return self.ws2

    def ent(self, handle):
        if handle == "root":
            return self.ws.root
        if handle == "root2":
            return self.get_ws2().root
        e = self.wsof(handle).get_entity(self.uid[handle])[0]
        if e is None:
            raise LostEntity(handle, self.model.nodes[handle].kind if handle in self.model.nodes else "?")
        if self.hold:
            self.held.append(e)
        return e

    def keep(self, e):
        if self.hold:
            self.held.append(e)
        return e

    # -- operations -----------------------------------------------------------
    def apply(self, op):
        name = op[0]
        fn = getattr(self, "op_" + name)
        pre = self.model.clone()
        try:
            if self.cfg.get("gc") == "every-call" and self.gc_armed and name not in ("gc", "stats"):
                res = _with_gc_at_every_line(fn, op[1:])
            else:
                res = fn(*op[1:])
            res = "ok" if res is None else res
        except Refused as err:
            self.model = pre
            res = f"refused:{err}"
            if not str(err).startswith("expected:"):
                self.unexpected.append((len(self.results), list(op), str(err)))
        except LostEntity as err:
            # the model says the entity is alive but the workspace cannot find it by uid
            self.model = pre
            res = "lost-entity"
            self.events.append(("lost-entity", err.args[0], err.args[1], len(self.results)))
        self.results.append(res)
        return res

    def _lib(self, fn):
        """Run a library call; any library exception is a refusal (model unchanged)."""
        try:
            return fn()
        except Exception as err:  # pylint: disable=broad-except
            raise Refused(type(err).__name__) from err

    def _uid_request(self, opt, kind):
        """Explicit identifier requested for a creation: (kwargs, expectation)."""
        if not opt or "uid_of" not in opt:
            return {}, None
        src = opt["uid_of"]
        uid = self.uid[src]
        if src in self.model.nodes and self.model.nodes[src].ws == 1:
            other = self.model.nodes[src].kind
            return {"uid": uid}, ("in-use", kind, other)
        return {"uid": uid}, ("of-removed", kind, None)

    def _create(self, make, expect):
        """Run a creation; a refusal of an in-use / formerly used uid is an expected outcome."""
        if expect is None:
            return self._lib(make)
        try:
            ent = make()
        except Exception as err:  # pylint: disable=broad-except
            self.events.append(("uid-request-refused", expect, len(self.results)))
            raise Refused(f"expected:uid-{expect[0]}:" + type(err).__name__) from err
        if expect[0] == "in-use":
            self.events.append(("reuse-accepted", expect, len(self.results)))
        return ent

    def op_mk_group(self, parent, opt=None):
        from geoh5py.groups import ContainerGroup

        kw, expect = self._uid_request(opt, "group")
        nd = self.model.new("group", "ContainerGroup", f"g{self.model.n}", parent)
        par = self.ent(parent)
        if opt and opt.get("defer"):
            # public option of Workspace.create_entity: the entity reaches the file later
            # (when a child is saved, or at close)
            g = self._lib(lambda: par.workspace.create_entity(ContainerGroup, save_on_creation=False, entity={"name": nd.name, "parent": par}))
            self.keep(g)
        else:
            g = self._create(lambda: ContainerGroup.create(par.workspace, name=nd.name, parent=par, **kw), expect)
        self.uid[nd.idx] = g.uid
        self.keep(g)

    def op_mk_obj(self, cls, parent, opt=None):
        from geoh5py import objects

        kw, expect = self._uid_request(opt, "object")
        nd = self.model.new("object", cls, f"o{self.model.n}", parent)
        nd.gsrc = (nd.idx, 0)
        par = self.ent(parent)
        klass = getattr(objects, cls)
        verts = vertices(nd.idx, 0)
        o = self._create(lambda: klass.create(par.workspace, name=nd.name, parent=par, vertices=verts, **kw), expect)
        _scribble(verts)
        self.uid[nd.idx] = o.uid
        self.keep(o)

    def n_values(self, obj_nd, dkind):
        assoc = DATA_KINDS[dkind]
        if assoc == "VERTEX":
            return N_VERT
        if assoc == "CELL":
            return N_VERT - 1
        return 1

    def op_add_data(self, obj, dkind, opt=None):
        kw, expect = self._uid_request(opt, "data")
        ond = self.model.nodes[obj]
        nd = self.model.new("data", None, f"d{self.model.n}", obj)
        nd.dkind = dkind
        nd.vsrc = (nd.idx, 0)
        o = self.ent(obj)
        vals = payload(dkind, nd.idx, 0, self.n_values(ond, dkind))
        attr = {"values": vals, "association": DATA_KINDS[dkind]}
        if dkind == "rv":
            attr["type"] = "referenced"
            attr["value_map"] = {1: "one", 2: "two"}
        attr.update(kw)
        d = self._create(lambda: o.add_data({nd.name: attr}), expect)
        _scribble(vals)
        self.uid[nd.idx] = d.uid
        self.keep(d)

    def op_pg_add(self, obj, data, pg):
        ond = self.model.nodes[obj]
        o = self.ent(obj)
        d = self.ent(data)
        self._lib(lambda: o.add_data_to_group(d, pg))
        ond.pgs.setdefault(pg, [])
        if data not in ond.pgs[pg]:
            ond.pgs[pg].append(data)

    def op_pg_declare(self, obj, pg):
        """Declare a property group WITHOUT members (properties None): it is a child of the
        object that is not an Entity and that no data removal ever empties."""
        ond = self.model.nodes[obj]
        o = self.ent(obj)
        self._lib(lambda: o.create_property_group(name=pg))
        ond.pgs.setdefault(pg, [])

    def op_pg_add_foreign(self, obj, own, foreign, pg):
        """Put [own data, data of ANOTHER object] (by identifier) in a property group in one
        call: the own one is added, the foreign one must be ignored (or the call refused) - a
        group lists only children of its own object."""
        ond = self.model.nodes[obj]
        o = self.ent(obj)
        d_own = self.ent(own)
        d_for = self.ent(foreign)
        try:
            o.add_data_to_group([d_own.uid, d_for.uid], pg)
        except Exception as err:  # pylint: disable=broad-except
            raise Refused("expected:foreign-data:" + type(err).__name__) from err
        ond.pgs.setdefault(pg, [])
        if own not in ond.pgs[pg]:
            ond.pgs[pg].append(own)

    def op_retype(self, d, d2):
        """Share another data's type (as the DC/IP surveys do)."""
        x = self.ent(d)
        y = self.ent(d2)
        self._lib(lambda: setattr(x, "entity_type", y.entity_type))
        tgt = self.model.nodes[d2].tsrc if self.model.nodes[d2].tsrc is not None else d2
        self.model.nodes[d].tsrc = None if tgt == d else tgt

    def op_rm_par_all(self, parent):
        """One call removing every child of a parent (mixed kinds in one list)."""
        par = self.ent(parent)
        kids = list(self.model.kids(parent))
        if parent in self.model.nodes and self.model.nodes[parent].kind == "object":
            ents = list(par.children)  # data children AND property groups, in the object's own order
        else:
            ents = [self.ent(k) for k in kids]
        self._lib(lambda: par.remove_children(ents))
        del ents
        for k in kids:
            self.events.append(("removed", "parent", [k] + self.model.descendants(k), len(self.results)))
            self.model.remove(k, "parent")
        if parent in self.model.nodes and self.model.nodes[parent].kind == "object":
            # the list handed to remove_children named every property group as well,
            # including declared-but-empty ones that no data removal would have emptied
            self.model.nodes[parent].pgs.clear()

    def _pg(self, o, pg):
        found = o.get_property_group(pg)[0]
        if found is None:
            raise KeyError(f"property group {pg} not found on {o.name}")
        return found

    def op_pg_rm(self, obj, data, pg):
        ond = self.model.nodes[obj]
        o = self.ent(obj)
        d = self.ent(data)
        g = self._pg(o, pg)
        self._lib(lambda: g.remove_properties(d))
        ond.pgs[pg].remove(data)
        if not ond.pgs[pg]:
            del ond.pgs[pg]

    def op_pg_del(self, obj, pg):
        ond = self.model.nodes[obj]
        o = self.ent(obj)
        g = self._pg(o, pg)
        self._lib(lambda: o.workspace.remove_entity(g))
        del ond.pgs[pg]

    def op_rename(self, e):
        nd = self.model.nodes[e]
        x = self.ent(e)
        new = nd.name + "'"
        self._lib(lambda: setattr(x, "name", new))
        nd.name = new

    def op_flag(self, e, flag):
        nd = self.model.nodes[e]
        x = self.ent(e)
        new = not nd.flags[flag]
        self._lib(lambda: setattr(x, flag, new))
        nd.flags[flag] = new

    def op_values(self, d):
        nd = self.model.nodes[d]
        x = self.ent(d)
        new = (nd.idx, nd.vsrc[1] + 1 if nd.vsrc[0] == nd.idx else 1)
        vals = payload(nd.dkind, new[0], new[1], self.n_values(None, nd.dkind))
        self._lib(lambda: setattr(x, "values", vals))
        _scribble(vals)
        nd.vsrc = new

    def op_vertices(self, o):
        nd = self.model.nodes[o]
        x = self.ent(o)
        new = (nd.idx, nd.gsrc[1] + 1 if nd.gsrc[0] == nd.idx else 1)
        verts = vertices(*new)
        self._lib(lambda: setattr(x, "vertices", verts))
        _scribble(verts)
        nd.gsrc = new

    def op_parts(self, o):
        """Assign part labels to a Curve (no cell data attached): the segments follow."""
        nd = self.model.nodes[o]
        x = self.ent(o)
        self._lib(lambda: setattr(x, "parts", np.array([0, 1, 1])))
        nd.pver = 1

    def op_meta(self, e):
        nd = self.model.nodes[e]
        x = self.ent(e)
        new = (nd.idx, nd.msrc[1] + 1 if nd.msrc[0] == nd.idx else 1)
        # the setter *updates* an existing dictionary: assign the increment only
        inc = {f"k{new[1]}": {"a": new[1], "o": new[0]}}
        if nd.msrc[0] != nd.idx and nd.msrc[1] > 0:
            raise Refused("expected:metadata-of-copy")  # keeps the model simple
        self._lib(lambda: setattr(x, "metadata", inc))
        nd.msrc = new

    def op_move(self, e, parent):
        nd = self.model.nodes[e]
        x = self.ent(e)
        par = self.ent(parent)
        self._lib(lambda: setattr(x, "parent", par))
        self.model.kids(nd.parent).remove(e)
        if nd.kind == "data" and nd.parent in self.model.nodes:
            old = self.model.nodes[nd.parent]
            for name in list(old.pgs):
                if e in old.pgs[name]:
                    old.pgs[name].remove(e)
                    if not old.pgs[name]:
                        del old.pgs[name]
        nd.parent = parent
        self.model.kids(parent).append(e)

    def op_copy(self, e, target, copy_children=True):
        src = self.model.nodes[e]
        x = self.ent(e)
        tgt_handle = src.parent if target == "same" else target
        par = self.ent(tgt_handle)
        tws = par.workspace
        taken = {str(u) for u in tws.list_entities_name}
        same_ws = tws is x.workspace
        if src.kind == "data":
            new = self._lib(lambda: x.copy(parent=par))
        else:
            new = self._lib(lambda: x.copy(parent=par, copy_children=copy_children))
        if new is None:
            raise Refused("copy-returned-None")
        self.keep(new)
        self._pairs = []
        self._model_copy(e, tgt_handle, new, copy_children)
        self.events.append(("copy-uids", same_ws, [(k, a, b, a in taken) for k, a, b in self._pairs], len(self.results)))

    def _model_copy(self, e, tgt_handle, new_entity, copy_children):
        src = self.model.nodes[e]
        nd = self.model.new(src.kind, src.cls, src.name, tgt_handle)
        nd.flags = dict(src.flags)
        nd.dkind, nd.vsrc, nd.gsrc, nd.msrc = src.dkind, src.vsrc, src.gsrc, src.msrc
        nd.pver = src.pver
        self.uid[nd.idx] = new_entity.uid
        self.events.append(("copied", e, nd.idx))
        if hasattr(self, "_pairs"):
            self._pairs.append((src.kind, str(self.uid[e]), str(new_entity.uid)))
            if src.kind == "object" and copy_children:
                src_ent = self.ent(e)
                for name in src.pgs:
                    a, b = src_ent.get_property_group(name)[0], new_entity.get_property_group(name)[0]
                    if a is not None and b is not None:
                        self._pairs.append(("pg", str(a.uid), str(b.uid)))
        if copy_children and src.kind != "data":
            by_name = {}
            for c in getattr(new_entity, "children", []):
                if hasattr(c, "entity_type"):
                    by_name.setdefault(c.name, []).append(c)
            cmap = {}
            for c in list(src.children):
                cn = self.model.nodes[c]
                cands = by_name.get(cn.name, [])
                if len(cands) != 1:
                    # the copy lacks (or duplicates) a child: leave it to the oracle, which
                    # compares the model (child expected) with the live tree
                    cnd = self.model.new(cn.kind, cn.cls, cn.name, nd.idx)
                    cnd.flags = dict(cn.flags)
                    cnd.dkind, cnd.vsrc, cnd.gsrc, cnd.msrc = cn.dkind, cn.vsrc, cn.gsrc, cn.msrc
                    self.uid[cnd.idx] = uuid.UUID(int=0xDEAD0000 + cnd.idx)
                    cmap[c] = cnd.idx
                    continue
                cmap[c] = self._model_copy(c, nd.idx, cands[0], True)
            for name, members in src.pgs.items():
                nd.pgs[name] = [cmap[m] for m in members]
        return nd.idx

    def op_rm_ws(self, e):
        nd = self.model.nodes[e]
        x = self.ent(e)
        if not nd.flags["allow_delete"]:
            try:
                x.workspace.remove_entity(x)
            except Exception as err:  # pylint: disable=broad-except
                self.events.append(("refused-delete", e, len(self.results)))
                raise Refused("expected:allow_delete-off:" + type(err).__name__) from err
            self.events.append(("deleted-despite-allow_delete-off", e, len(self.results)))
            self.events.append(("removed", "ws", [e] + self.model.descendants(e), len(self.results)))
            self.model.remove(e, "ws")
            return "ok:permission-ignored"
        del_kids = [c for c in self.model.descendants(e)]
        if any(not self.model.nodes[c].flags["allow_delete"] for c in del_kids):
            # a protected descendant: the statement leaves the outcome open; not explored
            raise Refused("expected:protected-descendant")
        self._lib(lambda: x.workspace.remove_entity(x))
        del x
        self.events.append(("removed", "ws", [e] + self.model.descendants(e), len(self.results)))
        self.model.remove(e, "ws")

    def op_rm_par(self, e):
        nd = self.model.nodes[e]
        x = self.ent(e)
        par = self.ent(nd.parent)
        self._lib(lambda: par.remove_children([x]))
        del x
        self.events.append(("removed", "parent", [e] + self.model.descendants(e), len(self.results)))
        self.model.remove(e, "parent")

    def op_stats(self, d):
        """Harness-only: inject a StatsCache dataset under the data's type node, as
        Geoscience ANALYST does (so that clear_stats_cache has something to clear)."""
        x = self.ent(d)
        f = x.workspace.geoh5
        proj = f[list(f)[0]]
        node = proj["Types"]["Data types"]["{" + str(x.entity_type.uid) + "}"]
        if "StatsCache" not in node:
            node.create_dataset("StatsCache", data=np.array([1.0, 2.0, 3.0]))

    def op_gc(self):
        self.held = [h for h in self.held]  # no-op under 'hold'
        world.full_collect()

    def op_reopen(self):
        self._close_all()
        self.held = []
        self.ws = self.Workspace(io.BytesIO(self.closed_bytes[-1][1]))
        if self.ws2 is not None:
            self.ws2 = self.Workspace(io.BytesIO(self.closed_bytes[-1][2]))

    def _close_all(self):
        self.ws.close()
        b1 = self.ws.h5file.getvalue()
        b2 = None
        if self.ws2 is not None:
            self.ws2.close()
            b2 = self.ws2.h5file.getvalue()
        self.closed_bytes.append((len(self.results), b1, b2))

    # -- running a whole history --------------------------------------------------
    def run(self, ops):
        for op in ops:
            self.all_ops.append(op)
            self.apply(op)
        return self

    def image(self, wsn=1):
        """Bytes of the (still open) in-memory file after a flush: a valid file image."""
        ws = self.ws if wsn == 1 else self.ws2
        if ws is None:
            return None
        ws.geoh5.flush()
        return ws.h5file.getvalue()

    def finish(self, want=("live", "reopen")):
        """Final observation protocol: [live snapshot], close, [re-open read-only], bytes."""
        obs = {"results": list(self.results), "live": None, "live2": None, "reopen": None, "reopen2": None}
        if "live" in want:
            obs["live"] = observe.snapshot(self.ws)
            obs["live2"] = observe.snapshot(self.ws2) if self.ws2 is not None else None
        self._close_all()
        _, b1, b2 = self.closed_bytes[-1]
        obs["bytes"] = b1
        obs["bytes2"] = b2
        self.held = []
        if "reopen" in want:
            obs["reopen"], obs["reopen_error"] = self.reopen_snapshot(b1)
            if b2 is not None:
                obs["reopen2"], err2 = self.reopen_snapshot(b2)
                obs["reopen_error"] = obs["reopen_error"] or err2
        return obs

    def reopen_snapshot(self, b):
        """Snapshot of a fresh read-only opening; (None, error name) when it cannot be opened."""
        try:
            ro = self.Workspace(io.BytesIO(b), mode="r")
            snap = observe.snapshot(ro)
            ro.close()
            return snap, None
        except Exception as err:  # pylint: disable=broad-except
            return None, type(err).__name__

    # -- model projection ---------------------------------------------------------
    def expected(self, wsn=1) -> dict:
        """What the tree must look like (only the fields the model defines)."""
        m = self.model
        out = {}
        for nd in m.nodes.values():
            if nd.ws != wsn:
                continue
            rec = {"name": nd.name, "kind": nd.kind}
            rec["parent"] = nd.parent if nd.parent in ("root", "root2") else str(self.uid[nd.parent])
            rec.update(nd.flags)
            rec["children"] = sorted(str(self.uid[c]) for c in nd.children)
            if nd.kind == "data":
                rec["association"] = DATA_KINDS[nd.dkind]
                n = {"VERTEX": N_VERT, "CELL": N_VERT - 1, "OBJECT": 1}[DATA_KINDS[nd.dkind]]
                rec["values"] = observe.norm(payload(nd.dkind, nd.vsrc[0], nd.vsrc[1], n))
            if nd.kind == "object":
                rec["vertices"] = observe.norm(vertices(*nd.gsrc))
                rec["pgs"] = {name: sorted(str(self.uid[x]) for x in mem) for name, mem in nd.pgs.items()}
            if nd.kind != "data":
                rec["metadata"] = observe.norm(metadata(*nd.msrc))
                rec["cls"] = nd.cls
            out[str(self.uid[nd.idx])] = rec
        return out


def project(snap_tree: dict, root_uid: str, root_name="root") -> dict:
    """Project a live / re-open snapshot on the fields the model defines."""
    out = {}
    for uid, r in snap_tree.items():
        if uid == root_uid:
            continue
        cls = r["cls"]
        kind = "data" if "association" in r else ("object" if "vertices" in r or "last_focus" in r else "group")
        rec = {"name": r.get("name"), "kind": kind}
        rec["parent"] = root_name if r["parent"] == root_uid else r["parent"]
        for f in FLAGS:
            rec[f] = r.get(f)
        rec["children"] = r.get("children", [])
        if kind == "data":
            rec["association"] = r.get("association")
            rec["values"] = r.get("values")
        if kind == "object":
            rec["vertices"] = r.get("vertices")
            rec["pgs"] = {p["name"]: p["properties"] for p in r.get("pgs", [])}
        if kind != "data":
            rec["metadata"] = r.get("metadata")
            rec["cls"] = cls
        out[uid] = rec
    return out


def root_uid_of(snap: dict) -> str:
    for uid, r in snap["tree"].items():
        if r["parent"] is None:
            return uid
    raise KeyError("no root in snapshot")


# ---------------------------------------------------------------------------
SCENES = {
    "S0": [],
    "S1": [["mk_group", "root"], ["mk_obj", "Points", 0], ["add_data", 1, "fv"], ["add_data", 1, "fv"]],
    "S2": [
        ["mk_group", "root"],
        ["mk_obj", "Points", 0],
        ["add_data", 1, "fv"],
        ["add_data", 1, "rv"],
        ["pg_add", 1, 2, "P"],
        ["pg_add", 1, 3, "P"],
        ["mk_group", "root"],
        ["mk_obj", "Curve", 4],
        ["add_data", 5, "fc"],
    ],
    "S2r": None,  # S2 followed by a re-open: exploration starts from a loaded tree
}
SCENES["S4"] = [
    ["mk_group", "root"],
    ["mk_obj", "Points", 0],
    ["add_data", 1, "fv"],
    ["add_data", 1, "fv"],
    ["add_data", 1, "fv"],
    ["pg_add", 1, 2, "Q"],
    ["pg_add", 1, 2, "P"],
    ["pg_add", 1, 3, "P"],
    ["mk_group", 0],
    ["mk_obj", "Points", 5],
    ["add_data", 6, "fv"],
]
SCENES["S4r"] = SCENES["S4"] + [["reopen"]]
SCENES["S5"] = SCENES["S2"] + [["stats", 2], ["stats", 3], ["stats", 6]]
# a cross-workspace copy that was removed again and garbage-collected: its identifiers are free
SCENES["S6"] = SCENES["S1"] + [["copy", 1, "root2", True], ["rm_ws", 4], ["gc"]]
# children of o1 in the order [data, property group, its only member]
SCENES["S7"] = SCENES["S1"] + [["pg_add", 1, 2, "P"], ["add_data", 1, "fv"], ["pg_add", 1, 4, "P"], ["pg_rm", 1, 2, "P"]]
# entities whose delete permission is off, as read back from the file
SCENES["S8"] = SCENES["S4"] + [["flag", 1, "allow_delete"], ["flag", 2, "allow_delete"], ["flag", 5, "allow_delete"], ["reopen"]]
SCENES["S2r"] = SCENES["S2"] + [["reopen"]]
SCENES["S1r"] = SCENES["S1"] + [["reopen"]]


def enabled(model: Model, alpha: dict) -> list:
    """Operations enabled in a model state, simplest first.  `alpha` selects op kinds and caps."""
    kinds = alpha["ops"]
    caps = alpha.get("caps", {})
    ops = []
    groups = model.alive("group")
    objects = model.alive("object")
    data = model.alive("data")
    ents = groups + objects + data
    containers = ["root"] + [g.idx for g in groups]
    if "rename" in kinds:
        ops += [["rename", e.idx] for e in ents if e.name.count("'") < 1]
    if "flag" in kinds:
        for fl in alpha.get("flags", ("allow_delete",)):
            ops += [["flag", e.idx, fl] for e in ents]
    if "values" in kinds:
        ops += [["values", d.idx] for d in data if d.vsrc[1] < 2]
    if "vertices" in kinds:
        ops += [["vertices", o.idx] for o in objects if o.gsrc[1] < 1]
    if "parts" in kinds:
        for o in objects:
            if o.cls == "Curve" and o.pver == 0 and not any(model.nodes[c].dkind == "fc" for c in o.children):
                ops.append(["parts", o.idx])
    if "meta" in kinds:
        ops += [["meta", e.idx] for e in groups + objects if e.msrc[0] == e.idx and e.msrc[1] < 2]
    if "mk_group" in kinds and len(groups) < caps.get("groups", 3):
        ops += [["mk_group", p] for p in containers]
        if alpha.get("defer"):
            ops += [["mk_group", p, {"defer": True}] for p in containers]
    if "mk_obj" in kinds and len(objects) < caps.get("objects", 3):
        for cls in alpha.get("classes", ("Points",)):
            ops += [["mk_obj", cls, p] for p in containers]
    if "add_data" in kinds:
        for o in objects:
            if len(o.children) < caps.get("data_per_object", 3):
                for dk in alpha.get("dkinds", ("fv",)):
                    if dk == "fc" and o.cls != "Curve":
                        continue
                    ops.append(["add_data", o.idx, dk])
    if "pg_add" in kinds:
        for o in objects:
            for d in o.children:
                if DATA_KINDS[model.nodes[d].dkind] != "VERTEX":
                    continue
                for pg in alpha.get("pgs", ("P", "Q")):
                    if d not in o.pgs.get(pg, []):
                        ops.append(["pg_add", o.idx, d, pg])
    if alpha.get("pg_declare"):
        for o in objects:
            for pg in alpha["pg_declare"]:
                if pg not in o.pgs:
                    ops.append(["pg_declare", o.idx, pg])
    if alpha.get("pg_foreign"):
        for o in objects:
            own = [c for c in o.children if DATA_KINDS[model.nodes[c].dkind] == "VERTEX"]
            for d in data:
                if own and d.parent != o.idx and DATA_KINDS[d.dkind] == "VERTEX":
                    ops.append(["pg_add_foreign", o.idx, own[0], d.idx, "P"])
    if alpha.get("retype"):
        def type_id(n):
            return n.idx if n.tsrc is None else n.tsrc

        for d in data:
            for d2 in data:
                if d.idx != d2.idx and d.dkind == d2.dkind and d.dkind in ("fv", "fc") and type_id(d) != type_id(d2):
                    ops.append(["retype", d.idx, d2.idx])
    if "rm_par_all" in kinds:
        for h in containers + [o.idx for o in objects]:
            kids = model.kids(h)
            if len(kids) >= 2:
                ops.append(["rm_par_all", h])
    if "pg_rm" in kinds:
        for o in objects:
            for pg, mem in o.pgs.items():
                ops += [["pg_rm", o.idx, d, pg] for d in mem]
    if "pg_del" in kinds:
        for o in objects:
            ops += [["pg_del", o.idx, pg] for pg in o.pgs]
    if "move" in kinds:
        for e in groups + objects:
            for p in containers:
                if p != e.parent and not (e.kind == "group" and p != "root" and model.is_ancestor(e.idx, p)):
                    ops.append(["move", e.idx, p])
        if alpha.get("move_data"):
            for d in data:
                for o in objects:
                    if o.idx != d.parent and DATA_KINDS[d.dkind] != "CELL":
                        ops.append(["move", d.idx, o.idx])
    if "copy" in kinds and model.n < caps.get("entities", 12):
        for e in groups + objects:
            if model.names_ambiguous(e.idx):
                continue
            tgts = ["same"] + [p for p in containers if p != e.parent and not (e.kind == "group" and p != "root" and model.is_ancestor(e.idx, p))]
            if alpha.get("ws2"):
                tgts.append("root2")
            if alpha.get("copy_targets"):
                tgts = [t for t in tgts if t in alpha["copy_targets"]]
            for t in tgts:
                for cc in (True, False) if e.children else (True,):
                    ops.append(["copy", e.idx, t, cc])
        if alpha.get("copy_data"):
            for d in data:
                for o in objects:
                    if o.idx != d.parent and (DATA_KINDS[d.dkind] != "CELL" or o.cls == "Curve"):
                        ops.append(["copy", d.idx, o.idx])
    if alpha.get("uid_reuse"):
        cands = [e.idx for e in ents] + sorted(i for i in model.removed if model.ws_of[i] == 1)
        for c in cands:
            ops.append(["mk_group", "root", {"uid_of": c}])
            ops.append(["mk_obj", "Points", "root", {"uid_of": c}])
            if objects:
                ops.append(["add_data", objects[0].idx, "fv", {"uid_of": c}])
    if "rm_ws" in kinds:
        ops += [["rm_ws", e.idx] for e in ents]
    if "rm_par" in kinds:
        ops += [["rm_par", e.idx] for e in ents]
    if "reopen" in kinds:
        ops.append(["reopen"])
    if "gc" in kinds:
        ops.append(["gc"])
    return ops


def deviations(ops) -> dict:
    return {"reopen": sum(1 for o in ops if o[0] == "reopen"), "gc": sum(1 for o in ops if o[0] == "gc")}
