"""C15 part B - statelessness, decided by explicit enumeration of call histories.

For every object below, ALL sequences of calls of length <= depth over its alphabet are executed
on ONE instance.  The last call of every history is judged (its prefixes are histories of their
own):

 verdict-depends-only-on-current-form-and-value
     /vs-reference     the verdict equals the reference predicate evaluated on the form as it is
                       NOW (switches read back from the object's ui.json) and the value;
     /vs-fresh-object  the verdict equals the verdict of the same call on a fresh object built from
                       the current form (same rule arguments) - needs no reference at all.
 refused-call-leaves-data-and-form-unchanged
                       after a refused call the stored data / ui.json / Parameter.value / form are
                       what they were before the call.
"""

from __future__ import annotations

from . import c15_fix as F
from . import c15_new as N
from . import core

CL_VERDICT = "verdict-depends-only-on-current-form-and-value"
CL_UNCHANGED = "refused-call-leaves-data-and-form-unchanged"


def depth(ctx):
    return 2 if ctx.quick else 3


# ---------------------------------------------------------------------------
# objects.  Each: make(fix) -> obj; letters {name: spec}; call(obj, spec, fix); expected(obj, spec,
# fix) -> True | False | None (not judged); fresh(obj, fix) -> new object | None; observe(obj, fix)
# ---------------------------------------------------------------------------
class Validator:
    """One instance of a validator class of geoh5py.shared.validators."""

    table = {
        "OptionalValidator": [("none/not-optional", ["none"], ["lit", False], False), ("none/optional", ["none"], ["lit", True], True),
                              ("value/not-optional", ["lit", 1], ["lit", False], True)],
        "RequiredValidator": [("none/required", ["none"], ["lit", True], False), ("value/required", ["lit", 1], ["lit", True], True),
                              ("none/not-required", ["none"], ["lit", False], True)],
        "TypeValidator": [("int/int", ["lit", 1], ["lit", ["T:int"]], True), ("str/int", ["lit", "a"], ["lit", ["T:int"]], False),
                          ("mixed-list/int", ["lit", [1, "a"]], ["lit", ["T:int"]], False), ("none/int", ["none"], ["lit", ["T:int"]], False)],
        "ValueValidator": [("in-list", ["lit", "a"], ["lit", ["a", "b"]], True), ("not-in-list", ["lit", "c"], ["lit", ["a", "b"]], False),
                           ("list-with-outsider", ["lit", ["a", "c"]], ["lit", ["a", "b"]], False)],
        "UUIDValidator": [("malformed", ["lit", "zz"], ["none"], False), ("wellformed", ["str", "A"], ["none"], True), ("uuid", ["uid", "A"], ["none"], True)],
        "ShapeValidator": [("2/(2,)", ["lit", [1, 2]], ["lit", "(2,)"], True), ("1/(2,)", ["lit", [1]], ["lit", "(2,)"], False)],
        "AtLeastOneValidator": [("one-set", ["lit", {"a": True, "b": False}], ["none"], True), ("none-set", ["lit", {"a": False, "b": False}], ["none"], False)],
        "AssociationValidator": [("child-ent/parent", ["ent", "a1"], ["ent", "A"], True), ("child-uid/parent", ["uid", "a2"], ["ent", "A"], True),
                                 ("foreign-ent/parent", ["ent", "b1"], ["ent", "A"], False), ("foreign-uid/parent", ["uid", "b1"], ["ent", "A"], False),
                                 ("member/workspace", ["uid", "A"], ["ws", 1], True), ("stranger/workspace", ["ent", "c1"], ["ws", 1], False),
                                 ("unknown-uid/workspace", ["unk-uid"], ["ws", 1], False)],
        "PropertyGroupValidator": [("right-type", ["ent", "pgV"], ["lit", "3D vector"], True), ("wrong-type", ["ent", "pgM"], ["lit", "3D vector"], False)],
    }

    def __init__(self, cls):
        self.cls = cls
        self.letters = {n: (v, valid, exp) for n, v, valid, exp in self.table[cls]}

    def make(self, fix):
        from geoh5py.shared import validators

        return getattr(validators, self.cls)()

    def call(self, obj, letter, fix):
        v, valid, _ = self.letters[letter]
        valid = fix.value(valid)
        if valid == "(2,)":
            valid = (2,)
        obj("p", fix.value(v), N._types(valid))

    def expected(self, obj, letter, fix):
        return self.letters[letter][2]

    def fresh(self, obj, fix):
        return self.make(fix)

    def observe(self, obj, fix):
        return None


HIST_FORMS = {
    "c": {"label": "c", "value": "A", "choiceList": ["A", "B"]},
    "f": {"label": "f", "value": 1.0, "optional": True, "enabled": False},
    "s": {"label": "s", "value": "s"},
}
ONE_OF = {"p1": {"one_of": "either"}, "p2": {"one_of": "either"}}


def hist_ui_json(fix, one_of=False):
    from geoh5py.ui_json.constants import default_ui_json

    uj = F.clone(default_ui_json)
    uj["geoh5"] = fix.w1
    for k, v in HIST_FORMS.items():
        uj[k] = dict(v)
    uj["object"] = {"label": "object", "value": fix.uid["A"], "meshType": [F.POINTS_TYPE]}
    uj["data"] = {"label": "data", "value": fix.uid["a1"], "parent": "object", "association": "Vertex", "dataType": "Float"}
    if one_of:
        uj["p1"] = {"label": "p1", "value": "x", "optional": True, "enabled": False}
        uj["p2"] = {"label": "p2", "value": "y", "optional": True, "enabled": False}
    return uj


def hist_data(fix, one_of=False, **over):
    """Flat data with a valid value for everything, then the overrides (value specs)."""
    from geoh5py.ui_json.constants import default_ui_json

    data = {k: (v["value"] if isinstance(v, dict) else v) for k, v in default_ui_json.items()}
    data.update({"geoh5": fix.w1, "c": "A", "f": 1.0, "s": "s", "object": fix.ent("A"), "data": fix.ent("a1")})
    if one_of:
        data.update({"p1": "x", "p2": None})
    for k, spec in over.items():
        data[k] = fix.value(spec)
    return data


# value letters of the shared form set: name -> (parameter, value spec, expected or "none-rule")
SET_LETTERS = {
    "c=valid": ("c", ["lit", "B"], True), "c=not-in-choicelist": ("c", ["lit", "C"], False),
    "c=wrongtype+not-in-choicelist": ("c", ["lit", 5], False),
    "f=valid": ("f", ["lit", 2.0], True), "f=None": ("f", ["none"], "none-rule"), "f=wrongtype": ("f", ["lit", "x"], False),
    "s=None": ("s", ["none"], "none-rule"),
    "data=child-of-A": ("data", ["ent", "a2"], "child-of:A"), "data=child-of-B": ("data", ["ent", "b1"], "child-of:B"),
    "data=malformed-uuid": ("data", ["lit", "zz"], False),
    "object=other-workspace": ("object", ["ent", "C"], False), "object=B": ("object", ["ent", "B"], True),
}
DATA_LETTERS = {
    "all-valid": ({}, True), "c-not-in-choicelist": ({"c": ["lit", "C"]}, False), "data-other-parent": ({"data": ["ent", "b1"]}, False),
    "parent-B-with-its-child": ({"object": ["ent", "B"], "data": ["ent", "b1"]}, True),
    "f-None": ({"f": ["none"]}, "none-rule:f"), "two-bad(c-wrongtype,s-None)": ({"c": ["lit", 5], "s": ["none"]}, False),
}
ONE_OF_LETTERS = {
    "p1-only": ({"p1": ["lit", "x"], "p2": ["none"]}, True), "p2-only": ({"p1": ["none"], "p2": ["lit", "y"]}, True),
    "both": ({"p1": ["lit", "x"], "p2": ["lit", "y"]}, True), "neither": ({"p1": ["none"], "p2": ["none"]}, False),
}


def none_allowed(ui_json, name):
    required, _ = F.ref_requires(F.cfg_of_form(ui_json, name))
    return not required


class InputValidationObj:
    """InputValidation built once from the ui.json (and the one_of rules): validate(name, value) and
    validate_data(data).  Its form never changes, so the reference uses the initial ui.json."""

    def __init__(self, one_of=False):
        self.one_of = one_of
        self.letters = {}
        if not one_of:
            for n, (par, v, e) in SET_LETTERS.items():
                if par not in ("data", "object"):  # rule names another parameter: needs the data set
                    self.letters["validate:" + n] = ("v", par, v, e)
            for n, (over, e) in DATA_LETTERS.items():
                self.letters["validate_data:" + n] = ("d", over, e)
        else:
            for n, (over, e) in ONE_OF_LETTERS.items():
                self.letters["validate_data:" + n] = ("d", over, e)

    def make(self, fix):
        from geoh5py.ui_json.validation import InputValidation

        return InputValidation(ui_json=hist_ui_json(fix, self.one_of), validations=F.clone(ONE_OF) if self.one_of else None)

    def call(self, obj, letter, fix):
        spec = self.letters[letter]
        if spec[0] == "v":
            obj.validate(spec[1], fix.value(spec[2]))
        else:
            obj.validate_data(hist_data(fix, self.one_of, **spec[1]))

    def expected(self, obj, letter, fix):
        exp = self.letters[letter][-1]
        if isinstance(exp, str):
            name = exp.split(":")[1] if ":" in exp else self.letters[letter][1]
            return none_allowed(hist_ui_json(fix, self.one_of), name)
        return exp

    def fresh(self, obj, fix):
        return self.make(fix)

    def observe(self, obj, fix):
        return None


class InputFileObj:
    """One InputFile: set_data_value(name, value) and `data = {...}`.  Accepted calls edit the form
    (enabled / value), so reference and fresh object are taken from the CURRENT ui.json."""

    def __init__(self, one_of=False):
        self.one_of = one_of
        self.letters = {}
        if not one_of:
            for n, (par, v, e) in SET_LETTERS.items():
                self.letters["set:" + n] = ("s", par, v, e)
            for n, (over, e) in DATA_LETTERS.items():
                self.letters["data=:" + n] = ("d", over, e)
        else:
            for n, (over, e) in ONE_OF_LETTERS.items():
                self.letters["data=:" + n] = ("d", over, e)

    def build(self, fix, ui_json):
        from geoh5py.ui_json import InputFile

        if self.one_of:
            # enabled states are frozen (update_enabled False) so that both parameters keep allowing
            # None and the only rule in play is "at least one of the two"
            # (the initial data name p1 only; both parameters stay disabled in the form)
            return InputFile(ui_json=ui_json, data=hist_data(fix, True), validations=F.clone(ONE_OF),
                             validation_options={"update_enabled": False})
        ifile = InputFile(ui_json=ui_json)
        _ = ifile.data
        return ifile

    def make(self, fix):
        return self.build(fix, hist_ui_json(fix, self.one_of))

    def call(self, obj, letter, fix):
        spec = self.letters[letter]
        if spec[0] == "s":
            obj.set_data_value(spec[1], fix.value(spec[2]))
        else:
            obj.data = hist_data(fix, self.one_of, **spec[1])

    def expected(self, obj, letter, fix):
        spec = self.letters[letter]
        exp = spec[-1]
        if isinstance(exp, str) and exp.startswith("child-of:"):
            # membership of the parent object selected NOW
            return fix.norm(obj.data["object"]) == "E:" + exp.split(":")[1]
        if isinstance(exp, str):
            name = exp.split(":")[1] if ":" in exp else spec[1]
            return none_allowed(obj.ui_json, name)
        if exp and self.one_of:
            # a None is sent for the other parameter: allowed only while that one is disabled
            return all(none_allowed(obj.ui_json, k) for k, v in spec[1].items() if v == ["none"])
        return exp

    def fresh(self, obj, fix):
        try:
            return self.build(fix, F.clone(obj.ui_json))
        except Exception:  # pylint: disable=broad-except
            return None  # the current form is not loadable on its own: nothing to compare with

    def observe(self, obj, fix):
        return {"data": fix.norm(obj.data), "ui_json": fix.norm(obj.ui_json)}


class ParameterObj:
    def __init__(self, name):
        self.name = name
        _, self.spec, values = next(p for p in N.PARAMS if p[0] == name)
        self.letters = {"set:" + s: (v, e) for s, v, e in values}
        self.letters["set:None"] = (["none"], None)

    def make(self, fix):
        return N.make(self.spec, fix)

    def call(self, obj, letter, fix):
        obj.value = fix.value(self.letters[letter][0])

    def expected(self, obj, letter, fix):
        return self.letters[letter][1]

    def fresh(self, obj, fix):
        return self.make(fix)

    def observe(self, obj, fix):
        return {"value": fix.norm(obj.value)}


class FormParameterObj:
    """ChoiceStringFormParameter: value setter, register(members), validate()."""

    letters = {
        "value=valid": ("value", ["lit", "B"], True), "value=not-in-choicelist": ("value", ["lit", "C"], False),
        "value=wrongtype+not-in-choicelist": ("value", ["lit", 5], False), "value=None": ("value", ["none"], None),
        "register:label=str": ("register", {"label": "x"}, True), "register:label=int": ("register", {"label": 5}, False),
        "register:two-bad(enabled=str,optional=str)": ("register", {"enabled": "no", "optional": "x"}, False),
        "register:group_optional=True": ("register", {"group_optional": True}, True),
        "register:group=str": ("register", {"group": "g"}, True),
        "validate()": ("validate", None, None),
    }

    def make(self, fix):
        from geoh5py.ui_json.forms import ChoiceStringFormParameter

        return ChoiceStringFormParameter("p", ["A", "B"], label="l", value="A")

    def call(self, obj, letter, fix):
        kind, arg, _ = self.letters[letter]
        if kind == "value":
            obj.value = fix.value(arg)
        elif kind == "register":
            obj.register(dict(arg))
        else:
            obj.validate()

    def expected(self, obj, letter, fix):
        return self.letters[letter][2]

    def fresh(self, obj, fix):
        from geoh5py.ui_json.forms import ChoiceStringFormParameter

        form = obj.form()
        try:
            return ChoiceStringFormParameter("p", list(form["choice_list"]), **{k: v for k, v in form.items() if k != "choice_list"})
        except Exception:  # pylint: disable=broad-except
            return None

    def observe(self, obj, fix):
        return {"form": fix.norm(obj.form()), "value": fix.norm(obj.value)}


class PoolObj:
    def __init__(self, name):
        self.name = name
        _, self.spec, values = next(p for p in N.ENFORCERS if p[0] == name)
        self.letters = {"enforce:" + s: (v, e) for s, v, e in values}
        self.letters["enforce:None"] = (["none"], None)

    def make(self, fix):
        return N.make(self.spec, fix)

    def call(self, obj, letter, fix):
        obj.enforce(fix.value(self.letters[letter][0]))

    def expected(self, obj, letter, fix):
        return self.letters[letter][1]

    def fresh(self, obj, fix):
        return self.make(fix)

    def observe(self, obj, fix):
        return None


class _Holder:
    def __init__(self, ui, world):
        self.ui, self.world = ui, world


class UIJsonObj:
    """One UIJson (object + data form parameters on disk workspaces): values arrive through
    attribute assignment or update(); validate() is the verdict."""

    letters = {
        "object=member": ("set", "A"), "object=other-workspace": ("set", "C"),
        "update:object=member": ("update", "A"), "update:object=other-workspace": ("update", "C"),
        "validate()": ("validate", None),
    }

    def make(self, fix):
        world = N.uijson_world()
        return _Holder(N.make_uijson(world[0], None, None), world)

    def call(self, obj, letter, fix):
        kind, key = self.letters[letter]
        if kind == "set":
            obj.ui.object = obj.world[2][key]
        elif kind == "update":
            obj.ui.update({"object": obj.world[2][key]})
        else:
            obj.ui.validate()

    def _selected(self, obj):
        val = obj.ui.object
        return next((k for k, e in obj.world[2].items() if e is val), None if val is None else "?")

    def expected(self, obj, letter, fix):
        if self.letters[letter][0] != "validate":
            return None  # membership is the business of validate()
        return self._selected(obj) in (None, "A", "B")

    def fresh(self, obj, fix):
        try:
            return _Holder(N.make_uijson(obj.world[0], obj.ui.object, obj.ui.data), obj.world)
        except Exception:  # pylint: disable=broad-except
            return None

    def observe(self, obj, fix):
        return {"object": self._selected(obj)}

    def dispose(self, obj):
        N.cleanup(obj.world[0], obj.world[1], obj.world[3])


def objects():
    out = {f"validator:{c}": Validator(c) for c in Validator.table}
    out["InputValidation"] = InputValidationObj()
    out["InputValidation[one_of]"] = InputValidationObj(one_of=True)
    out["InputFile"] = InputFileObj()
    out["InputFile[one_of]"] = InputFileObj(one_of=True)
    for p in ("StringParameter", "IntegerParameter", "ValueRestrictedParameter", "TypeUIDRestrictedParameter"):
        out[f"Parameter:{p}"] = ParameterObj(p)
    out["FormParameter:ChoiceString"] = FormParameterObj()
    out["EnforcerPool[type,value]"] = PoolObj("EnforcerPool[type,value]")
    out["EnforcerPool[type,uuid]"] = PoolObj("EnforcerPool[type,uuid]")
    out["UIJson"] = UIJsonObj()
    return out


OBJECTS = objects()
LAZY_OBJECTS = ("validator:AssociationValidator", "InputValidation", "InputFile")


def object_names():
    return list(OBJECTS)


# ---------------------------------------------------------------------------
def execute(name, letters, fix):
    """Run one history on one instance; judge the last call.  -> (failures, trace)
    failures: [(clause, tag, detail)]; trace: [(letter, outcome, state digest)]"""
    spec = OBJECTS[name]
    obj = spec.make(fix)
    trace = []
    fails = []
    for i, letter in enumerate(letters):
        last = i == len(letters) - 1
        if last:
            before = spec.observe(obj, fix)
            exp = spec.expected(obj, letter, fix)
            twin = spec.fresh(obj, fix)
            got_twin = F.outcome(lambda: spec.call(twin, letter, fix)) if twin is not None else None
        got = F.outcome(lambda: spec.call(obj, letter, fix))
        state = spec.observe(obj, fix)
        trace.append((letter, got[0] if got[0] == "ok" else got[1], core.digest(state)))
        if last:
            ok = got[0] == "ok"
            if exp is not None and ok != exp:
                fails.append((CL_VERDICT, "reference:" + ("invalid-but-accepted" if ok else "valid-but-refused"),
                              {"got": list(got), "reference_accepts": exp}))
            if got_twin is not None and (got_twin[0] == "ok") != ok:
                fails.append((CL_VERDICT, "fresh-object:" + ("refuses-but-used-accepts" if ok else "accepts-but-used-refuses"),
                              {"used": list(got), "fresh": list(got_twin)}))
            if not ok and before != state:
                fails.append((CL_UNCHANGED, "changed", {"changed": _diff(before, state)}))
    if hasattr(spec, "dispose"):
        spec.dispose(obj)
    return fails, trace


def _diff(a, b, path=""):
    if isinstance(a, dict) and isinstance(b, dict):
        out = []
        for k in sorted(set(a) | set(b)):
            out += _diff(a.get(k, "<absent>"), b.get(k, "<absent>"), f"{path}/{k}")
        return out
    return [] if a == b else [f"{path}: {a!r} -> {b!r}"]


_FIX = {}


def work(item):
    name, letters, lazy = item
    if lazy:
        fix = F.Fix(lazy=True)
    else:
        if "f" not in _FIX:
            _FIX["f"] = F.Fix()
        fix = _FIX["f"]
    fails, trace = execute(name, letters, fix)
    return fails, trace


def histories(d, thorough):
    import itertools

    items = []
    for name, spec in OBJECTS.items():
        alphabet = list(spec.letters)
        for n in range(1, d + 1):
            for seq in itertools.product(alphabet, repeat=n):
                items.append((name, list(seq), False))
        if thorough and name in LAZY_OBJECTS:
            for n in range(1, 3):
                for seq in itertools.product(alphabet, repeat=n):
                    items.append((name, list(seq), True))
    return items


def is_subsequence(short, long):
    it = iter(long)
    return all(x in it for x in short)


def minimal_failures(failed):
    """failed: [(name, letters, lazy, clause, tag, detail)] -> one entry per failing history
    (name, letters, lazy, clause, tags, detail) keeping only histories that have no shorter failing
    history (same object, clause, last letter) as a subsequence."""
    merged = {}
    for name, letters, lazy, clause, tag, detail in failed:
        key = (name, tuple(letters), lazy, clause)
        if key not in merged:
            merged[key] = [set(), {}]
        merged[key][0].add(tag)
        merged[key][1][tag] = detail
    kept = []
    seen = {}
    for (name, letters, lazy, clause), (tags, detail) in sorted(merged.items(), key=lambda kv: (kv[0][2], len(kv[0][1]), kv[0])):
        key = (name, clause, letters[-1])
        if any(is_subsequence(g, letters) for g in seen.get(key, [])):
            continue
        seen.setdefault(key, []).append(letters)
        kept.append((name, list(letters), lazy, clause, sorted(tags), detail))
    return kept


def signatures(failed):
    """One signature per (object, clause, last call): the witness is the SHORTEST failing history
    ending with that call (ties: alphabetical) and the oracles it breaks; the other minimal
    histories with the same last call are listed in the detail only."""
    groups = {}
    for name, letters, lazy, clause, tags, detail in minimal_failures(failed):
        groups.setdefault((name, clause, letters[-1]), []).append((lazy, letters, tags, detail))
    out = []
    for (name, clause, _), members in sorted(groups.items()):
        lazy, letters, tags, detail = min(members, key=lambda m: (m[0], len(m[1]), m[1]))
        witness = f"{name}|{' > '.join(letters)} [{'+'.join(tags)}]" + ("|lazily-loaded-workspace" if lazy else "")
        hist = {"part": "B", "obj": name, "clause": clause, "histories": [{"letters": letters, "lazy": lazy}]}
        out.append((clause, witness, hist, {"oracles": detail, "minimal_failing_histories_with_this_last_call":
                                            [" > ".join(m[1]) for m in sorted(members, key=lambda m: (m[0], len(m[1]), m[1]))]}))
    return out


def run_part(ctx):
    d = depth(ctx)
    items = histories(d, not ctx.quick)
    if ctx.seed:
        k = ctx.seed % len(items)
        items = items[k:] + items[:k]
    res = core.pmap(work, items, chunksize=16)
    calls = 0
    states = set()
    failed = []
    for (name, letters, lazy), (fails, trace) in zip(items, res):
        calls += len(trace)
        for letter, got, dig in trace:
            states.add((name, dig))
            ctx.outcomes.add(("B", name, letter, got))
        for clause, tag, detail in fails:
            failed.append((name, letters, lazy, clause, tag, detail))
        if len(letters) == d and len(ctx.samples) < 5 and name.startswith("InputFile"):
            ctx.sample({"part": "B", "obj": name, "letters": letters, "trace": [list(t[:2]) for t in trace]})
    sigs = signatures(failed)
    ctx.n_violating += len({(f[0], tuple(f[1]), f[2]) for f in failed}) - len(sigs)
    for clause, witness, hist, detail in sigs:
        ctx.violation(clause, witness, hist, detail)
    return {"histories": len(items), "calls": calls, "states": len(states), "depth": d,
            "failing_histories": len({(f[0], tuple(f[1]), f[2]) for f in failed}),
            "alphabet_sizes": {n: len(s.letters) for n, s in OBJECTS.items()}}


def replay(h):
    """Re-run what the signature is made of: the recorded minimal histories, every shorter history
    they contain and, for the '* > x' form, every predecessor - then rebuild the signatures."""
    import itertools

    name = h["obj"]
    todo = set()
    for m in h["histories"]:
        letters = m["letters"]
        for n in range(1, len(letters) + 1):
            for sub in itertools.combinations(range(len(letters)), n):
                todo.add((tuple(letters[i] for i in sub), m["lazy"]))
    failed = []
    fixes = {}
    for letters, lazy in sorted(todo):
        if lazy:
            fix = F.Fix(lazy=True)
        else:
            fix = fixes.setdefault("f", None) or fixes.__setitem__("f", F.Fix()) or fixes["f"]
        fails, _ = execute(name, list(letters), fix)
        failed += [(name, list(letters), lazy, c, t, d) for c, t, d in fails]
    return [(c, w, d) for c, w, _, d in signatures(failed)]
