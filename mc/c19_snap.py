"""Observer of C19: everything a freshly opened workspace returns, split into records
per entity, per type and per property group so that "described by the missing item" can
be applied to each record separately.

Records hold JSON-able, value-normalised content only (two snapshots compare with ==).
Every access is guarded: an exception raised by a getter becomes the value "!<type>" of
that field, so that lazily loaded content (geometry, values, metadata) which the reader
cannot serve any more shows up as a difference of that one field.
"""

from __future__ import annotations

import numpy as np

from . import observe

SKIP = set(observe.SKIP_ATTRS) | {"on_file"}


def norm(v):
    if isinstance(v, np.void):
        v = np.asarray(v).reshape(1)
    if isinstance(v, np.ndarray) and v.dtype.names and v.ndim == 0:
        v = v.reshape(1)
    if isinstance(v, dict):
        return {str(k): norm(x) for k, x in v.items()}
    if isinstance(v, (list, tuple)):
        return [norm(x) for x in v]
    return observe.norm(v)


def _guard(fn):
    try:
        return norm(fn())
    except Exception as err:  # pylint: disable=broad-except
        return f"!{type(err).__name__}"


def _names(entity):
    out = []
    for val in getattr(entity, "attribute_map", {}).values():
        nm = val.split(":")[0].strip()
        if nm not in SKIP and nm not in out:
            out.append(nm)
    return out


def type_record(et) -> dict:
    rec = {"cls": type(et).__name__}
    for nm in _names(et):
        rec[nm] = _guard(lambda nm=nm: getattr(et, nm))
    if hasattr(type(et), "value_map"):
        rec["value_map"] = _guard(lambda: None if et.value_map is None else dict(et.value_map.map))
    if hasattr(type(et), "color_map"):
        rec["color_map"] = _guard(lambda: None if et.color_map is None else {"name": et.color_map.name, "values": et.color_map.values})
    return rec


def pg_record(pg, owner) -> dict:
    return {
        "owner": str(owner.uid),
        "name": _guard(lambda: pg.name),
        "association": _guard(lambda: pg.association.name),
        "type": _guard(lambda: pg.property_group_type),
        "properties": _guard(lambda: sorted(str(u) for u in (pg.properties or []))),
    }


def entity_record(e, ws) -> dict:
    par = getattr(e, "parent", None)
    rec = {
        "cls": type(e).__name__,
        "kind": "data" if hasattr(type(e), "values") else ("object" if hasattr(type(e), "add_data") else "group"),
        "parent": None if par is None else str(par.uid),
        "parent_is_root": par is not None and par is ws.root,
    }
    for nm in _names(e):
        if nm in observe.BOOL_ATTRS:
            rec[nm] = _guard(lambda nm=nm: bool(getattr(e, nm)))
        else:
            rec[nm] = _guard(lambda nm=nm: getattr(e, nm))
    for nm in observe.ARRAY_ATTRS:
        if hasattr(type(e), nm):
            rec[nm] = _guard(lambda nm=nm: getattr(e, nm))
    for nm in ("values", "metadata", "options"):
        if hasattr(type(e), nm):
            rec[nm] = _guard(lambda nm=nm: getattr(e, nm))
    et = getattr(e, "entity_type", None)
    rec["type"] = None if et is None else str(et.uid)
    return rec


def _children(e):
    """(entities below e, error).  Concatenated objects load their data lazily through the
    public getters, so those are called first; an exception raised by the reader while
    doing so is reported (the children are then not returned)."""
    error = None
    if hasattr(e, "get_data_list") and type(e).__name__.startswith("Concatenated"):
        try:
            for nm in e.get_data_list():
                e.get_entity(nm)
        except Exception as err:  # pylint: disable=broad-except
            error = f"!{type(err).__name__}"
    try:
        kids = list(getattr(e, "children", []) or [])
    except Exception as err:  # pylint: disable=broad-except
        kids = []
        error = f"!{type(err).__name__}"
    return [c for c in kids if hasattr(c, "entity_type")], error


def snapshot(ws) -> dict:
    """{'entities': {uid: rec}, 'types': {uid: rec}, 'pgs': {uid: rec}, 'root': uid}."""
    ents, types, pgs = {}, {}, {}
    objs = {}
    stack = [ws.root]
    listed = []
    for getter in ("groups", "objects", "data"):
        try:
            listed += list(getattr(ws, getter))
        except Exception:  # pylint: disable=broad-except
            pass
    seen = set()
    stack += listed
    while stack:
        e = stack.pop()
        if e is None or id(e) in seen:
            continue
        seen.add(id(e))
        key = str(e.uid)
        kids, error = _children(e)
        rec = entity_record(e, ws)
        rec["children"] = sorted(str(c.uid) for c in kids)
        rec["children_error"] = error
        if key in ents:
            rec["duplicate-uid"] = True
        ents[key] = rec
        objs[key] = e
        stack += kids
    for key, e in objs.items():
        et = getattr(e, "entity_type", None)
        if et is not None and str(et.uid) not in types:
            types[str(et.uid)] = type_record(et)
        plist = []
        if hasattr(type(e), "property_groups"):
            try:
                plist = list(e.property_groups or [])
            except Exception as err:  # pylint: disable=broad-except
                ents[key]["pg_ids"] = f"!{type(err).__name__}"
                continue
            for pg in plist:
                pgs[str(pg.uid)] = pg_record(pg, e)
            ents[key]["pg_ids"] = sorted(str(pg.uid) for pg in plist)
    return {"entities": ents, "types": types, "pgs": pgs, "root": str(ws.root.uid)}
