"""C03 helper: one case = build the fixture of one class in a fresh in-memory workspace,
(optionally re-open it read-write), assign one or two attributes of one target through the
public setters, observe the live getters, close, observe the same getters on a read-only
re-opening and the raw HDF5 content, judge.

history (JSON, self-contained):
    {"cls": fixture class, "target": "self" | "type" | sub-target name,
     "ops": [[attribute, value index in domains.values_for], ...],
     "pre": bool   re-open read-write before the first assignment (entity loaded from file),
     "mid": bool   re-open read-write between the two assignments}

Clauses (each a sentence of the statement of C03):
    later-reader-can-read     "... a later reader of the file sees": the file written after an accepted
                              assignment opens and still holds the entity
    reader-sees-assigned      re-opened getter == assigned value
    memory-equals-stored      live getter == re-opened getter for EVERY attribute of the entity
                              ("the in-memory value and the stored value never differ"; with
                              reader-sees-assigned this also gives live getter == assigned)
    stored-equals-assigned    raw HDF5 attribute / dataset == assigned value ("the stored value")
Per assigned attribute the first failing clause of that cascade is reported.
"""

from __future__ import annotations

import copy
import enum
import functools
import io
import json
import uuid

import numpy as np

from . import domains, fixtures, world

FLOAT_NDV = 1.17549435e-38

# --------------------------------------------------------------------------- rules
# coupled by the API: the setter of the key overwrites / defines the getter of the values
COUPLES = {
    "vertical": {"dip"},
    "dip": {"vertical"},
    "surveys": {"end_of_hole"},
    "file_name": {"values"},
    "entity_type": set(),
}
# getters that do not return the assigned object: compared only live-vs-reopen (differential)
DERIVED = {
    ("parts",): "part ids are labels; only the induced segments (cells) are stored, the getter re-labels from 0",
    ("GeoImage", "dip"): "computed from the four corner vertices in floating point",
    ("GeoImage", "rotation"): "computed from the four corner vertices in floating point",
    ("current_line_id", None): "assigning None makes the getter draw a fresh identifier",
}
# excluded by rule (documented in the evidence): hard-wired / class-defining attributes
RULE_EXCLUDED = {
    ("RootGroup", "name"): "hard-wired by RootGroup.__init__ ('Workspace')",
    ("RootGroup", "allow_delete"): "hard-wired by RootGroup.__init__",
    ("RootGroup", "allow_move"): "hard-wired by RootGroup.__init__",
    ("RootGroup", "allow_rename"): "hard-wired by RootGroup.__init__",
    ("CommentsData", "name"): "the format recognises comments by the name 'UserComments'",
    ("VisualParameters", "name"): "the format recognises visual parameters by the name 'Visual Parameters'",
    ("FilenameData", "public"): "hard-wired by FilenameData.__init__ (public = False)",
    ("IntegratorPoints:type", "name"): "hard-wired by IntegratorPoints.__init__",
    ("IntegratorPoints:type", "description"): "hard-wired by IntegratorPoints.__init__",
    ("NeighbourhoodSurface:type", "name"): "hard-wired by NeighbourhoodSurface.__init__",
    ("NeighbourhoodSurface:type", "description"): "hard-wired by NeighbourhoodSurface.__init__",
}
NOT_OBSERVED = set(domains.SKIP) | {"tag", "default_collocation_distance", "property_groups", "clipping_ids", "attribute_map"}

SUB_TARGETS = {
    "DrillholeGroup": ["hole", "hole.type", "hole.log", "hole.log.type", "hole.litho", "hole.pg"],
    "IntegratorDrillholeGroup": ["hole", "hole.log", "hole.pg"],
    "FloatData": ["type.color_map"],
    "ReferencedData": ["type.value_map"],
    "PropertyGroup": [],
}


# --------------------------------------------------------------------------- normalisation
def canon(v):  # noqa: C901  pylint: disable=too-many-return-statements,too-many-branches
    """Value-normalisation used on both sides of every comparison."""
    if v is None:
        return None
    if isinstance(v, (bool, np.bool_)):
        return bool(v)
    if isinstance(v, enum.Enum):
        return v.name.upper()
    if isinstance(v, (int, float, np.integer, np.floating)):
        f = float(v)
        return None if f != f else f
    if isinstance(v, uuid.UUID):
        return "uuid:" + v.hex
    if isinstance(v, (bytes, np.bytes_)):
        return {"bytes": bytes(v).hex()}
    if isinstance(v, str):
        s = str(v)
        if len(s) in (32, 36, 38):
            try:
                return "uuid:" + uuid.UUID(s).hex
            except ValueError:
                pass
        return s
    if isinstance(v, np.void):
        return [canon(x) for x in v.tolist()]
    if isinstance(v, np.ndarray):
        if v.dtype.names:
            if v.ndim == 0:
                return [canon(x) for x in v.tolist()]
            return [[canon(x) for x in row] for row in v.tolist()]
        if v.ndim == 0 or (v.ndim == 1 and v.size == 1):
            return canon(v.ravel()[0].item() if hasattr(v.ravel()[0], "item") else v.ravel()[0])
        return _rows(v.tolist())
    if isinstance(v, dict):
        return {str(k): canon(x) for k, x in v.items()}
    if isinstance(v, (list, tuple)):
        return [canon(x) for x in v]
    name = type(v).__name__
    if name == "ColorMap":
        vals = getattr(v, "_values", None)
        return {"name": v.name, "values": canon(np.asarray(vals)) if vals is not None and len(vals) else []}
    if name == "ReferenceValueMap":
        return canon(v.map)
    if hasattr(v, "size") and hasattr(v, "mode") and hasattr(v, "getexif"):  # PIL image
        return {"mode": v.mode, "pixels": canon(np.asarray(v))}
    if hasattr(v, "uid") and hasattr(v, "primitive_type"):
        return "type:" + v.uid.hex
    if hasattr(v, "uid") and isinstance(v.uid, uuid.UUID):
        return "ref:" + v.uid.hex
    return repr(v)


def _rows(x):
    if isinstance(x, list):
        return [_rows(y) for y in x]
    return canon(x)


def expected(attr, assigned, before, entity):
    """What the getter must return after `assigned` was accepted (canonical form)."""
    c = canon(assigned)
    mro = [k.__name__ for k in type(entity).__mro__]
    if attr == "metadata" and "BaseEMSurvey" not in mro:
        if isinstance(c, dict) and isinstance(before, dict):  # documented: dict assignment updates the existing metadata
            merged = dict(before)
            merged.update(c)
            return merged
        return c
    if attr == "options" and c is None:
        return {}
    if attr == "color_map":
        if isinstance(assigned, np.ndarray):
            return {"values": canon(assigned)}
        if isinstance(assigned, dict):
            out = {"values": canon(assigned["values"])}
            if "name" in assigned:
                out["name"] = assigned["name"]
            return out
        if type(assigned).__name__ == "ColorMap":
            return canon(assigned)  # values and name
    if attr == "association" and isinstance(c, str):
        return c.upper()
    if attr == "image":
        return {"pixels": canon(np.asarray(assigned))}
    if attr == "entity_type":
        return "type:" + assigned.uid.hex
    if attr == "contributors":
        return canon(np.asarray([str(x) for x in assigned]))
    return c


def matches(exp, got) -> bool:
    """exp may be partial for dicts produced by expected() (colour map without a name, image
    without a mode); everything else is plain equality of canonical forms."""
    if isinstance(exp, dict) and isinstance(got, dict) and (set(exp) <= {"values", "name"} or set(exp) == {"pixels"}) and set(exp) < set(got):
        return all(exp[k] == got.get(k) for k in exp)
    return exp == got


# --------------------------------------------------------------------------- targets
def target_names(cls: str) -> list:
    if cls == "Workspace":
        return ["self"]
    if cls in fixtures.EXTRA:
        return ["self"]
    return ["self", "type"] + SUB_TARGETS.get(cls, [])


def _holes(ws, group):
    kids = [c for c in (ws.fetch_children(group) or group.children) if type(c).__name__.endswith("Drillhole")]
    if not kids:
        kids = [c for c in group.children if type(c).__name__.endswith("Drillhole")]
    return kids


def resolve(ws, root_entity, cls, target, memo=None):
    """The target object inside workspace `ws` given the fixture entity of that workspace.
    `memo` remembers the identifiers chosen at the first resolution so that later resolutions
    (after a re-open, after a rename) find the SAME entity."""
    memo = {} if memo is None else memo
    if cls == "Workspace":
        return ws
    ent = root_entity
    if target == "self":
        return ent
    if target == "type":
        return ent.entity_type
    if target == "type.color_map":
        return ent.entity_type.color_map
    if target == "type.value_map":
        return ent.entity_type.value_map
    if target.startswith("hole"):
        holes = _holes(ws, ent)
        if "hole_a" not in memo:
            by_name = sorted(holes, key=lambda c: c.name)
            memo["hole_a"], memo["hole_b"] = by_name[0].uid, by_name[1].uid
        hole_a = [h for h in holes if h.uid == memo["hole_a"]][0]
        hole_b = [h for h in holes if h.uid == memo["hole_b"]][0]
        if target == "hole":
            return hole_a
        if target == "hole.type":
            return hole_a.entity_type
        if target in ("hole.log", "hole.log.type", "hole.litho"):
            hole, name = (hole_b, "litho") if target == "hole.litho" else (hole_a, "log")
            if target not in memo:
                memo[target] = hole.get_data(name)[0].uid
            data = [d for d in hole.get_entity(memo[target]) if d is not None][0]
            return data.entity_type if target.endswith(".type") else data
        if target == "hole.pg":
            hole_a.get_entity("log")  # concatenated children are created lazily
            if target not in memo:
                memo[target] = [p for p in hole_a.property_groups if p.name == "depth_0"][0].uid
            return [p for p in hole_a.property_groups if p.uid == memo[target]][0]
    raise ValueError(target)


def observable(entity) -> list:
    names = set(domains.settable_attributes(entity))
    amap = getattr(entity, "attribute_map", None) or getattr(entity, "_attribute_map", {})
    for val in amap.values():
        nm = val.split(":")[0].strip()
        if isinstance(getattr(type(entity), nm, None), property):
            names.add(nm)
    for nm in ("trace", "trace_depth"):
        if isinstance(getattr(type(entity), nm, None), property):
            names.add(nm)
    return sorted(n for n in names - NOT_OBSERVED if not (type(entity).__name__.endswith("PropertyGroup") and n == "allow_delete"))


def read(entity, attr):
    try:
        return canon(getattr(entity, attr))
    except Exception as err:  # pylint: disable=broad-except
        return f"!raise:{type(err).__name__}"


def snapshot(entity) -> dict:
    return {a: read(entity, a) for a in observable(entity)}


def defining_class(entity, attr) -> str:
    for klass in type(entity).__mro__:
        if attr in vars(klass):
            name = klass.__name__
            return name
    return type(entity).__name__


def storage_tag(entity) -> str:
    mro = [k.__name__ for k in type(entity).__mro__]
    if "Concatenated" in mro or "ConcatenatedPropertyGroup" in mro:
        return "[concatenated]"
    if "Concatenator" in mro:
        return "[concatenator]"
    if "CommentsData" in mro:
        return "[comments]"  # the writer serialises every dict of a CommentsData through its {"Comments": ...} wrapper
    return ""


# --------------------------------------------------------------------------- raw HDF5 (h5py only)
def _uid_key(uid):
    return "{" + str(uid) + "}"


def _decode(v):
    if isinstance(v, bytes):
        return v.decode("utf-8")
    if isinstance(v, np.ndarray) and v.dtype == object:
        return [_decode(x) for x in v.ravel().tolist()]
    return v


def raw_locate(f, loc):
    """h5py node for a locator ('project',) | ('entity', kind, uid) | ('type', typekind, uid)."""
    proj = f[list(f)[0]]
    if loc[0] == "project":
        return proj
    if loc[0] == "entity":
        return proj[loc[1]].get(_uid_key(loc[2]))
    if loc[0] == "type":
        return proj["Types"][loc[1]].get(_uid_key(loc[2]))
    return None


def locator(entity):
    mro = [k.__name__ for k in type(entity).__mro__]
    if "Workspace" in mro:
        return ("project",)
    if "Concatenated" in mro or "PropertyGroup" in mro or "ColorMap" in mro or "ReferenceValueMap" in mro:
        return None  # raw clause not evaluated on these storage paths (see assumptions)
    if "DataType" in mro:
        return ("type", "Data types", entity.uid)
    if "ObjectType" in mro:
        return ("type", "Object types", entity.uid)
    if "GroupType" in mro:
        return ("type", "Group types", entity.uid)
    if "Data" in mro:
        return ("entity", "Data", entity.uid)
    if "ObjectBase" in mro:
        return ("entity", "Objects", entity.uid)
    if "Group" in mro:
        return ("entity", "Groups", entity.uid)
    return None


KEY_MAP = {
    "cells": "Cells", "layers": "Layers", "metadata": "Metadata", "octree_cells": "Octree Cells", "options": "options",
    "prisms": "Prisms", "surveys": "Surveys", "u_cell_delimiters": "U cell delimiters", "v_cell_delimiters": "V cell delimiters",
    "values": "Data", "vertices": "Vertices", "z_cell_delimiters": "Z cell delimiters", "color_map": "Color map", "value_map": "Value map",
}


def raw_value(b, loc, entity_cls_mro, attr, amap):  # noqa: C901  pylint: disable=too-many-return-statements,too-many-branches
    """(found, canonical raw value) of the stored field that holds `attr`; found=False when this
    attribute has no direct raw counterpart (views, derived attributes)."""
    import h5py

    with h5py.File(io.BytesIO(b), "r") as f:
        node = raw_locate(f, loc)
        if node is None:
            return True, "!absent-node"
        inv = {v.split(":")[0].strip(): k for k, v in amap.items()}
        if attr in KEY_MAP:
            label = KEY_MAP[attr]
            if label not in node:
                return True, None
            ds = node[label]
            val = ds[()]
            if attr in ("metadata", "options"):
                txt = _decode(val[0] if isinstance(val, np.ndarray) else val)
                return True, canon(json.loads(txt))
            if attr == "values":
                if "CommentsData" in entity_cls_mro:
                    txt = _decode(val[0] if isinstance(val, np.ndarray) else val)
                    return True, canon(json.loads(txt)["Comments"])
                if "FilenameData" in entity_cls_mro:
                    fname = _decode(val[0] if isinstance(val, np.ndarray) else val)
                    if fname not in node:
                        return True, "!absent-blob"
                    return True, {"bytes": node[fname][()].tobytes().hex()}
                if isinstance(val, np.ndarray) and val.dtype == object:
                    out = [_decode(x) for x in val.ravel().tolist()]
                    return True, out[0] if len(out) == 1 else out
                if isinstance(val, np.ndarray) and val.dtype.kind == "f":
                    arr = val.astype(float)
                    arr[np.abs(arr - FLOAT_NDV) < 1e-44] = np.nan  # the format's float no-data code
                    return True, canon(arr)
                if "BooleanData" in entity_cls_mro:
                    return True, canon(np.asarray(val).astype(bool))
                return True, canon(val)
            if attr == "color_map":
                out = {"values": canon(val)}
                if "File name" in ds.attrs:
                    out["name"] = _decode(ds.attrs["File name"])
                return True, out
            if attr == "value_map":
                return True, {str(int(k)): _decode(s) for k, s in val.tolist()}
            if attr in ("vertices", "cells") and val.dtype.names is None and val.ndim == 1 and "Surface" not in entity_cls_mro:
                return True, canon(val)
            return True, canon(val)
        if attr in inv:
            key = inv[attr]
            if key not in node.attrs:
                return True, None
            val = node.attrs[key]
            if attr == "association":
                return True, str(_decode(val)).upper()
            if isinstance(val, np.ndarray) and val.dtype == object:
                return True, [_decode(x) for x in val.ravel().tolist()]
            return True, canon(_decode(val))
    return False, None


# --------------------------------------------------------------------------- execution
def _workspace():
    from geoh5py.workspace import Workspace

    return Workspace


def _build(cls):
    ws = _workspace()()
    if cls == "Workspace":
        fixtures.FACTORIES["Points"](ws)
        return ws, None
    ents = fixtures.build_all(ws, only=[cls])
    return ws, ents[cls]


class _Handle:  # enough of an entity for fixtures.find
    def __init__(self, ent):
        self.uid = ent.uid
        self.is_pg = hasattr(ent, "properties")
        self.parent = _Handle(ent.parent) if self.is_pg else None
        if self.is_pg:
            self.properties = None


@functools.lru_cache(maxsize=None)
def _stored_fixture(cls):
    """(bytes of the closed file holding the fixture of `cls`, handle of the fixture entity, uid
    counter after the build) - the 'pre' variant starts from these bytes instead of rebuilding;
    the uid stream is advanced to the same point, so both paths are byte-identical."""
    import uuid as _uuid

    world.reset("asc")
    ws, ent = _build(cls)
    handle = None if ent is None else _Handle(ent)
    ws.close()
    return ws.h5file.getvalue(), handle, world.uid_counter()


def _open_stored(cls):
    import uuid as _uuid

    data, handle, counter = _stored_fixture(cls)
    world.reset("asc")
    while world.uid_counter() < counter:
        _uuid.uuid4()
    ws = _workspace()(io.BytesIO(data), mode="r+")
    return ws, (None if handle is None else fixtures.find(ws, handle))


def _reopen_rw(ws, ent):
    ws2 = fixtures.reopen(ws, "r+")
    return ws2, (None if ent is None else fixtures.find(ws2, ent))


_CASES = [0]


def _collect_sometimes():
    _CASES[0] += 1
    if _CASES[0] % 20 == 0:
        world.full_collect()


def edit_in_place(v, attr=None) -> bool:  # noqa: C901  pylint: disable=too-many-return-statements,too-many-branches
    """Change the object a getter handed out, in place; False when it cannot be edited that way."""
    if isinstance(v, dict):
        if isinstance(v.get("EM Dataset"), dict):
            v["EM Dataset"]["Note"] = "edited in place"
        else:
            v["edited in place"] = 7
        return True
    if isinstance(v, list):
        if v and all(isinstance(x, float) for x in v):
            v[0] = v[0] + 0.5
            return True
        if all(isinstance(x, dict) for x in v):
            v.append({"Author": "e", "Date": "2024-03-03T00:00:00", "Text": "in place"})
            return True
        return False
    if not isinstance(v, np.ndarray) or v.size == 0 or not v.flags.writeable:
        return False
    if v.dtype.names:
        done = False
        for field in v.dtype.names:
            kind = v.dtype[field].kind
            if kind == "f":
                v[field] += 1.5
                done = True
            elif kind in "iu" and v.ndim >= 1 and v.size > 1:
                v[field][:] = v[field][::-1].copy()
                done = True
        return done
    kind = v.dtype.kind
    if kind == "f":
        if attr in ("layers", "prisms") and v.ndim == 2:
            v[:, 2] += 1.5  # the elevation column; the other columns hold integer indices / counts
        else:
            v += 1.5
        return True
    if kind in "iu":
        if v.size < 2:
            return False
        v[:] = v[::-1].copy()
        return True
    if kind == "b":
        v[:] = ~v
        return True
    if kind == "U":
        v.flat[0] = "e"
        return True
    return False


def _twin_read(data, handle, cls, tname, memo, attr):
    counter = world.uid_counter()
    ws = _workspace()(io.BytesIO(data), mode="r")
    try:
        ent = None if handle is None else fixtures.find(ws, handle)
        target = resolve(ws, ent, cls, tname, dict(memo))
        vals = copy.deepcopy(domains.values_for(target, attr))
        before = read(target, attr)
    finally:
        ws.close()
        world._STATE["n"] = counter  # pylint: disable=protected-access  (the twin must not shift the uid stream)
    return vals, before


@functools.lru_cache(maxsize=None)
def _twin_domain(cls, tname, attr):
    """(domain values, canonical current value) of one attribute of the STORED fixture, read on a
    separate read-only opening so that the entity under test is not touched before its setter."""
    data, handle, _ = _stored_fixture(cls)
    return _twin_read(data, handle, cls, tname, {}, attr)


def _twin_once(data, ent, cls, tname, memo, attr):
    return _twin_read(data, None if ent is None else _Handle(ent), cls, tname, memo, attr)


def execute(history) -> dict:
    """Run one history on the real library; returns raw observations (no judgement)."""
    world.reset("asc")
    cls, tname = history["cls"], history.get("target", "self")
    obs = {"steps": [], "phase": "build"}
    try:
        if history.get("pre"):
            obs["phase"] = "pre-reopen"
            ws, ent = _open_stored(cls)
            if cls != "Workspace" and ent is None:
                raise LookupError("fixture entity absent after re-opening")
        else:
            ws, ent = _build(cls)
        obs["phase"] = "resolve"
        memo = {}
        target = resolve(ws, ent, cls, tname, memo)
    except Exception as err:  # pylint: disable=broad-except
        obs["fatal"] = f"{type(err).__name__}: {str(err)[:200]}"
        return obs
    obs["target_class"] = type(target).__name__
    obs["mro"] = [k.__name__ for k in type(target).__mro__]
    obs["storage"] = storage_tag(target)
    obs["phase"] = "assign"
    ops = history["ops"]
    cold_bytes = None  # bytes of the file the target was (re-)loaded from and not read since: assignments are COLD
    if history.get("pre"):
        cold_bytes = "stored"
    for k, (attr, vi) in enumerate(ops):
        if vi == "e":
            # ordinary user pattern: read through the getter, edit the returned object in place, assign it back
            try:
                value = getattr(target, attr)
            except Exception as err:  # pylint: disable=broad-except
                obs["steps"].append({"attr": attr, "vi": vi, "status": "not-editable", "error": type(err).__name__})
                continue
            before = canon(value)
            if not edit_in_place(value, attr):
                obs["steps"].append({"attr": attr, "vi": vi, "status": "not-editable"})
                continue
        else:
            tname_cls = type(target).__name__
            touched_before = cold_bytes == "stored" and any(_field(a, tname_cls) == _field(attr, tname_cls) for a, _ in ops[:k])
            if cold_bytes is not None and attr != "entity_type" and not touched_before:
                # neither the domain nor the 'before' record may read the target: both come from a
                # separate read-only opening of the same bytes, the first touch of the target is the setter
                vals, before = _twin_domain(cls, tname, attr) if cold_bytes == "stored" else _twin_once(cold_bytes, ent, cls, tname, memo, attr)
                vals = copy.deepcopy(vals)
            else:
                vals = domains.values_for(target, attr)
                before = read(target, attr)
            if vi >= len(vals):
                obs["steps"].append({"attr": attr, "vi": vi, "status": "no-such-value"})
                continue
            value = vals[vi]
        step = {"attr": attr, "vi": vi, "defining": defining_class(target, attr), "is_none": value is None, "before": before,
                "field_defining": defining_class(target, _field(attr, type(target).__name__))}
        try:
            exp = expected(attr, value, before, target)
            setattr(target, attr, value)
            step["status"] = "accepted"
            step["expected"] = exp
        except Exception as err:  # pylint: disable=broad-except
            step["status"] = "refused"
            step["error"] = f"{type(err).__name__}: {str(err)[:160]}"
        obs["steps"].append(step)
        if history.get("mid") and k == 0 and len(ops) > 1:
            try:
                ws, ent = _reopen_rw(ws, ent)
                cold_bytes = ws.h5file.getvalue()
                target = resolve(ws, ent, cls, tname, memo)
            except Exception as err:  # pylint: disable=broad-except
                obs["fatal_after_assign"] = f"mid re-open: {type(err).__name__}: {str(err)[:200]}"
                return obs
    obs["phase"] = "observe-live"
    obs["live"] = snapshot(target)
    obs["amap"] = dict(getattr(target, "attribute_map", None) or getattr(target, "_attribute_map", {}))
    loc = locator(target)
    obs["locator"] = loc
    try:
        obs["phase"] = "close"
        ws.close()
        data = ws.h5file.getvalue()
        obs["phase"] = "reopen"
        ws_r = _workspace()(io.BytesIO(data), mode="r")
        ent_r = None if ent is None else fixtures.find(ws_r, ent)
        if cls != "Workspace" and ent_r is None:
            raise LookupError("fixture entity absent from the re-opened file")
        target_r = resolve(ws_r, ent_r, cls, tname, memo)
        if target_r is None:
            raise LookupError("target absent from the re-opened file")
        obs["reopen"] = snapshot(target_r)
        ws_r.close()
    except Exception as err:  # pylint: disable=broad-except
        obs["fatal_after_assign"] = f"{obs['phase']}: {type(err).__name__}: {str(err)[:200]}"
        return obs
    obs["raw"] = {}
    if loc is not None:
        for step in obs["steps"]:
            if step["status"] == "accepted":
                found, val = raw_value(data, loc, obs["mro"], step["attr"], obs["amap"])
                if found:
                    obs["raw"][step["attr"]] = val
    obs["phase"] = "done"
    _collect_sometimes()
    return obs


@functools.lru_cache(maxsize=None)
def baseline(cls, tname, pre) -> tuple:
    """Attributes whose live and re-opened getters differ WITHOUT any assignment (reader quirks
    owned by C01); they are not attributed to an assignment unless they are the assigned one."""
    obs = execute({"cls": cls, "target": tname, "ops": [], "pre": pre})
    if "live" not in obs or "reopen" not in obs:
        return ("!fatal", obs.get("fatal") or obs.get("fatal_after_assign"))
    return tuple(sorted(a for a in obs["live"] if obs["live"][a] != obs["reopen"].get(a)))


def _field(attr, tcls):
    """Stored field an attribute lives in (views share the field of their host)."""
    if (tcls, attr) in (("GeoImage", "dip"), ("GeoImage", "rotation")):
        return "vertices"
    return domains.VIEWS.get(attr, attr)


def _derived(step, tcls):
    attr = step["attr"]
    if (attr,) in DERIVED or (tcls, attr) in DERIVED:
        return True
    if step["is_none"] and (attr, None) in DERIVED:
        return True
    return False


def kind_tag(mro) -> str:
    for name, tag in (("Workspace", "project"), ("DataType", "DataType"), ("ObjectType", "ObjectType"), ("GroupType", "GroupType"),
                      ("Data", "data"), ("ObjectBase", "object"), ("RootGroup", "root"), ("Group", "group")):
        if name in mro:
            return tag
    return ""


def rule_excluded(history, obs, attr):
    cls, tname = history["cls"], history.get("target", "self")
    for (who, what), why in RULE_EXCLUDED.items():
        if what == attr and (who in obs["mro"] or who == f"{cls}:{tname}"):
            return why
    return None


def judge(history, obs) -> list:  # noqa: C901  pylint: disable=too-many-branches,too-many-locals,too-many-statements
    """[(clause, witness, detail)] - see the module docstring for the clauses.  Per assigned
    attribute only the first failing clause of the cascade reader-sees-assigned >
    memory-equals-stored > stored-equals-assigned is reported (one defect, one signature)."""
    viol = []
    cls, tname = history["cls"], history.get("target", "self")
    if "fatal" in obs:
        if obs["phase"] == "pre-reopen":  # a stored entity of this class makes the file unreadable: nothing assigned can be seen
            viol.append(("later-reader-can-read", f"{cls}:file-with-unmodified-entity-unreadable", {"error": obs["fatal"], "about": ["<file>"]}))
            return viol
        from .core import HarnessError

        raise HarnessError(f"fixture of {cls} / target {tname} could not be built or resolved ({obs['phase']}): {obs['fatal']}")
    tcls = obs["target_class"]
    steps = obs["steps"]
    accepted = [s for s in steps if s["status"] == "accepted"]
    if not accepted:
        return viol
    if any(s["status"] == "refused" for s in steps):
        return viol  # a refused assignment may leave partial state; the statement speaks of successful ones only
    tag = obs["storage"]
    kind = kind_tag(obs["mro"])

    sub = f"({tname})" if tname == "hole.type" else ""  # object types of concatenated objects are read differently

    def wit(step, extra=""):
        # views (convenience setters) are named by the stored field they write: one defect, one signature
        defining, attr = step.get("field_defining") or step["defining"], _field(step["attr"], tcls)
        if attr == step["attr"]:
            defining = step["defining"]
        base = f"{defining}.{attr}"
        if defining in ("Entity", "EntityContainer", "EntityType") and kind:
            base += f"@{kind}"
        return f"{base}{'=None' if step['is_none'] else ''}{tag}{sub}{extra}"

    if "fatal_after_assign" in obs:
        s = accepted[-1]
        field = _field(s["attr"], tcls)
        witness = f"{field}{tag}:index-without-data" if tag == "[concatenated]" and "NoneType" in obs["fatal_after_assign"] else wit(s)
        viol.append(("later-reader-can-read", witness, {"error": obs["fatal_after_assign"], "class": tcls, "assigned": s["attr"], "about": ["<file>"]}))
        return viol
    live, reop, raw = obs["live"], obs["reopen"], obs["raw"]
    base = baseline(cls, tname, bool(history.get("pre") or history.get("mid")))
    if base and base[0] == "!fatal":
        base = ()
    fields = [_field(s["attr"], tcls) for s in accepted]
    if len(accepted) > 1 and any(rule_excluded(history, obs, s["attr"]) for s in accepted):
        return viol  # e.g. renaming comments changes the class the reader builds: judged in the single only
    any_excluded = False
    for idx, s in enumerate(accepted):
        attr = s["attr"]
        if rule_excluded(history, obs, attr):
            any_excluded = True
            continue
        if attr in domains.IN_MEMORY_ONLY or (tcls.endswith("PropertyGroup") and attr == "allow_delete"):
            continue
        later = accepted[idx + 1:]
        clobbered = any(
            _field(t["attr"], tcls) == fields[idx] or attr in COUPLES.get(t["attr"], ()) or _field(t["attr"], tcls) == attr or fields[idx] == t["attr"]
            for t in later
        )
        if any(_field(t["attr"], tcls) == fields[idx] for t in later):
            continue  # a later assignment writes the same stored field: judged there
        detail = {"about": [attr, fields[idx]], "class": tcls, "assigned": s["expected"], "live": live.get(attr), "reopened": reop.get(attr), "raw": raw.get(attr, "(n/a)"), "baseline_quirks": list(base)}
        judged_assigned = not (clobbered or _derived(s, tcls) or (tcls == "Grid2D" and attr == "dip" and live.get("vertical")))
        if judged_assigned and not matches(s["expected"], reop.get(attr)):
            if s["is_none"] and attr in raw and raw[attr] in (None, s.get("before")) and attr not in KEY_MAP:
                # one mechanism for every scalar of an attribute map: None is skipped by the writer, the old attribute stays
                mode = "old-value-left-on-file" if raw[attr] is not None else "absent-on-file-read-as-default"
                viol.append(("reader-sees-assigned", f"attribute-map-scalar=None:{mode}", dict(detail, attribute=f"{s['defining']}.{attr}")))
            else:
                viol.append(("reader-sees-assigned", wit(s), detail))
        elif live.get(attr) != reop.get(attr):
            viol.append(("memory-equals-stored", wit(s), detail))
        elif judged_assigned and attr in raw and not matches(s["expected"], raw[attr]) and not _raw_equivalent(attr, s["expected"], raw[attr]):
            viol.append(("stored-equals-assigned", wit(s), detail))
    # every other attribute of the entity: in-memory == stored
    if any_excluded:
        return viol
    touched = set(fields) | {s["attr"] for s in accepted}
    for s in accepted:
        touched |= COUPLES.get(s["attr"], set())
    last = accepted[-1]
    for attr in sorted(set(live) | set(reop)):
        if attr in touched or _field(attr, tcls) in touched or attr in base or rule_excluded(history, obs, attr):
            continue
        if live.get(attr) != reop.get(attr):
            viol.append(
                (
                    "memory-equals-stored",
                    wit(last, f"->{attr}"),
                    {"about": [attr, _field(attr, tcls)], "class": tcls, "collateral_attribute": attr, "live": live.get(attr), "reopened": reop.get(attr), "after": [s["attr"] for s in accepted]},
                )
            )
    return viol


def _raw_equivalent(attr, exp, rawv) -> bool:
    """Documented storage encodings that are the same value."""
    if attr in ("metadata", "options") and exp in (None, {}) and rawv in (None, {}):
        return True
    if attr == "value_map" and isinstance(exp, dict) and isinstance(rawv, dict):
        return {str(int(float(k))): v for k, v in exp.items()} == rawv
    if attr in ("vertices", "cells", "u_cell_delimiters", "v_cell_delimiters", "z_cell_delimiters") and isinstance(exp, list) and isinstance(rawv, list):
        return _flat(exp) == _flat(rawv)
    if attr == "values" and isinstance(exp, list) and isinstance(rawv, list):
        return _flat(exp) == _flat(rawv) or [bool(x) if isinstance(x, float) else x for x in rawv] == exp
    if attr in domains.FLAGS:
        return bool(exp) == bool(rawv)
    return False


def _flat(x):
    out = []
    for y in x:
        if isinstance(y, list):
            out += _flat(y)
        else:
            out.append(y)
    return out


def describe(item) -> dict:
    """Discovery step: the settable attributes of one target and the size of each domain."""
    world.reset("asc")
    cls, tname = item["cls"], item["target"]
    ws, ent = _build(cls)
    target = resolve(ws, ent, cls, tname)
    out = {"cls": cls, "target": tname, "target_class": type(target).__name__, "storage": storage_tag(target), "attrs": []}
    for attr in domains.settable_attributes(target):
        vals = domains.values_for(target, attr)
        numeric = all(v is None or (isinstance(v, (int, float, np.integer, np.floating)) and not isinstance(v, (bool, np.bool_))) for v in vals)
        try:
            editable = isinstance(getattr(target, attr), (np.ndarray, dict, list))
        except Exception:  # pylint: disable=broad-except
            editable = False
        out["attrs"].append([attr, len(vals), defining_class(target, attr), numeric, [i for i, v in enumerate(vals) if v is None], editable])
    out["observed"] = observable(target)
    ws.close()
    _collect_sometimes()
    return out


@functools.lru_cache(maxsize=8192)
def _single_violations(cls, tname, attr, vi, pre) -> tuple:
    h = {"cls": cls, "target": tname, "ops": [[attr, vi]], "pre": pre, "mid": False}
    return tuple(judge(h, execute(h)))


def pair_only(history, viol) -> list:
    """Of the violations seen in a two-assignment history keep those that neither assignment
    shows on its own (the singles are enumerated and reported separately): one defect, one
    signature.  What remains is anchored at the first assignment and marked '|pair-only'."""
    cls, tname = history["cls"], history.get("target", "self")
    (a1, v1), (a2, v2) = history["ops"]
    # both starting points of each single (as created / re-loaded): a defect that needs a cached value
    # shows in one of them only, and the pair may reach that cache state through its other assignment
    singles = []
    for attr, vi in ((a1, v1), (a2, v2)):
        for variant in (False, True):
            singles += list(_single_violations(cls, tname, attr, vi, variant))
    explained = set()
    for _, _, det in singles:
        explained |= set(det.get("about", ()))
    first = [w for _, w, d in _first_witness(history)]
    out = []
    for clause, witness, det in viol:
        if set(det.get("about", ())) & explained:
            continue
        anchor = witness
        if "<file>" in det.get("about", ()) or "collateral_attribute" in det:
            anchor = (first[0] if first else witness) + (f"->{det['collateral_attribute']}" if "collateral_attribute" in det else "")
        out.append((clause, anchor + "|pair-only", dict(det, pair=[a1, a2])))
    return out


def _first_witness(history):
    """Witness the first assignment of a pair would carry (computed on the single history)."""
    cls, tname = history["cls"], history.get("target", "self")
    a1, v1 = history["ops"][0]
    h = {"cls": cls, "target": tname, "ops": [[a1, v1]], "pre": bool(history.get("pre")), "mid": False}
    return _witness_of_single(cls, tname, a1, v1, bool(history.get("pre")))


@functools.lru_cache(maxsize=8192)
def _witness_of_single(cls, tname, attr, vi, pre) -> tuple:
    h = {"cls": cls, "target": tname, "ops": [[attr, vi]], "pre": pre, "mid": False}
    obs = execute(h)
    steps = [s for s in obs.get("steps", []) if s["status"] == "accepted"]
    if not steps or "target_class" not in obs:
        return ()
    s0 = steps[0]
    tcls = obs["target_class"]
    kind, tag = kind_tag(obs["mro"]), obs["storage"]
    field = _field(s0["attr"], tcls)
    defining = s0["defining"] if field == s0["attr"] else (s0.get("field_defining") or s0["defining"])
    base = f"{defining}.{field}"
    if defining in ("Entity", "EntityContainer", "EntityType") and kind:
        base += f"@{kind}"
    return (("", f"{base}{'=None' if s0['is_none'] else ''}{tag}", {}),)


def run_case(history) -> dict:
    obs = execute(history)
    viol = judge(history, obs)
    if len(history.get("ops", ())) == 2 and viol:
        viol = pair_only(history, viol)
    statuses = tuple(s.get("status") for s in obs.get("steps", []))
    state = None
    if "live" in obs and "reopen" in obs:
        import hashlib

        state = hashlib.sha256(json.dumps([history["cls"], history.get("target"), obs["reopen"]], sort_keys=True, default=repr).encode()).hexdigest()[:16]
    return {
        "viol": viol,
        "statuses": statuses,
        "state": state,
        "target_class": obs.get("target_class"),
        "defining": [s.get("defining") for s in obs.get("steps", [])],
        "errors": [s.get("error") for s in obs.get("steps", []) if s.get("status") == "refused"],
        "fatal": obs.get("fatal") or obs.get("fatal_after_assign"),
        "n_observed": len(obs.get("live", {})),
    }
