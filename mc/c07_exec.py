"""C07 - executes one history on the real library and observes it through the public API.

history = {"cfg": {"geom": <GEOMS key>, "data": [kind names in child order],
                   "start": "fresh" | "cold" | "warm", "disk": bool, "clear": bool},
           "alpha": <name of the per-position alphabet>, "ops": [op, ...]}

The reference state is carried by the pure model (mc/c07_model.py) so that nothing is read
from the library between the operations of a history (reading fills the value caches and
would hide the branch of remove_children_values that fetches values from the file).  The
only exception is an operation that raised: there the statement does not fix the result
("consistent", not "unchanged"), so the live state is read and - when consistent - adopted.
"""

from __future__ import annotations

import io
import os
import pickle

import numpy as np

from . import c07_model as M
from . import core, world

_COUNTER = [0]

VALUE_MAP = {i: f"k{i}" for i in range(1, 9)}


# --------------------------------------------------------------------------------------
# observation
# --------------------------------------------------------------------------------------
def norm_vals(kind, v):
    if v is None:
        return None
    if isinstance(v, bytes):
        v = v.decode()
    if isinstance(v, str):
        v = np.array([v])  # the reader hands a one-entry text array back as a plain string
    if not isinstance(v, np.ndarray):
        return {"error": f"type {type(v).__name__}"}
    out = []
    for x in np.ravel(v).tolist():
        if kind == "float":
            x = float(x)
            out.append(M.ND if (x != x or x == M.FLOAT_NDV) else x)
        elif kind == "integer":
            out.append(M.ND if int(x) == M.INTEGER_NDV else int(x))
        elif kind == "referenced":
            out.append(M.ND if int(x) in (M.INTEGER_NDV, 0) else int(x))
        elif kind == "boolean":
            out.append(bool(x))
        else:
            x = x.decode() if isinstance(x, bytes) else str(x)
            out.append(M.ND if x == "" else x)
    return out


def observe(ws):
    from geoh5py.data import Data
    from geoh5py.objects import Points

    objs = []
    for o in sorted(ws.objects, key=lambda e: e.name):
        if not isinstance(o, Points):
            continue
        rec = {"name": o.name, "cls": type(o).__name__}
        v = o.vertices
        rec["verts"] = None if v is None else [[float(x) for x in row] for row in np.asarray(v).tolist()]
        if type(o) is Points:  # pylint: disable=unidiomatic-typecheck
            rec["cells"] = None
        else:
            try:
                c = o.cells
                rec["cells"] = None if c is None else [[int(i) for i in row] for row in np.asarray(c).tolist()]
            except Exception as err:  # pylint: disable=broad-except
                rec["cells"] = None
                rec["cells_error"] = type(err).__name__
        data = []
        for c in o.children:
            if not isinstance(c, Data):
                continue
            kind = M.KIND_OF_CLASS.get(type(c).__name__)
            if kind is None:
                continue
            try:
                vals = norm_vals(kind, c.values)
            except Exception as err:  # pylint: disable=broad-except
                vals = {"error": type(err).__name__, "stored": stored_length(ws, c)}
            data.append({"name": c.name, "kind": kind, "assoc": c.association.name, "vals": vals})
        rec["data"] = data
        objs.append(rec)
    return {"objs": objs}


def stored_length(ws, data):
    """Number of entries of the stored array of a data entity whose values cannot be read
    through the API (tells a reader failure from a length mismatch); None if unknown."""
    try:
        h5 = ws.geoh5
        dset = h5[list(h5)[0]]["Data"]["{" + str(data.uid) + "}"]["Data"]
        return int(dset.shape[0]) if dset.shape else 1
    except Exception:  # pylint: disable=broad-except
        return None


def cache_flags(ws):
    """Which lazily loaded arrays are currently cached (part of the canonical key: the
    removal code branches on it)."""
    out = []
    for o in sorted(ws.objects, key=lambda e: e.name):
        d = o.__dict__
        out.append([o.name, d.get("_vertices") is None, d.get("_cells") is None,
                    [[c.name, c.__dict__.get("_values") is None] for c in o.children if hasattr(c, "association")]])
    return out


# --------------------------------------------------------------------------------------
# execution
# --------------------------------------------------------------------------------------
class Run:
    def __init__(self, cfg):
        self.cfg = dict(cfg)
        self.disk = bool(cfg.get("disk"))
        self.clear = bool(cfg.get("clear"))
        self.path = None
        self.ws = None
        self.model = None
        self.executed = 0  # operations applied to the implementation

    # -- scene -------------------------------------------------------------------------
    def build(self):
        from geoh5py.objects import Curve, Points, Surface
        from geoh5py.workspace import Workspace

        world.reset("asc")
        cfg = self.cfg
        if self.disk:
            _COUNTER[0] += 1
            self.path = world.scratch() / f"c07_{os.getpid()}_{_COUNTER[0]}.geoh5"
            if self.path.exists():
                self.path.unlink()
            self.ws = Workspace.create(self.path)
        else:
            self.ws = Workspace()
        cls_name, n, cells = M.GEOMS[cfg["geom"]]
        cls = {"Points": Points, "Curve": Curve, "Surface": Surface}[cls_name]
        kw = {"name": "o0", "vertices": np.array([M.coord(k) for k in range(n)])}
        if cells == "parts":
            kw["parts"] = [0, 0, 1, 1]
        elif cells not in (None, "auto"):
            kw["cells"] = np.array(cells)
        obj = cls.create(self.ws, **kw)
        self.model = M.initial_state(cfg["geom"], cfg["data"])
        for d in self.model["objs"][0]["data"]:
            obj.add_data({d["name"]: spec(d["kind"], d["assoc"], d["vals"])})
        start = cfg.get("start", "fresh")
        if start in ("cold", "warm"):
            self.reopen()
            if start == "warm":
                observe(self.ws)
        return self

    def reopen(self, mode="r+"):
        from geoh5py.workspace import Workspace

        self.ws.close()
        if self.disk:
            self.ws = Workspace(self.path, mode=mode)
        else:
            self.ws = Workspace(io.BytesIO(self.ws.h5file.getvalue()), mode=mode)

    def focus(self):
        ents = [e for e in self.ws.objects if e.name == self.model["focus"]]
        if len(ents) != 1:
            raise core.HarnessError(f"focus object {self.model['focus']} not unique / missing: {ents}")
        return ents[0]

    def data(self, obj, j):
        name = M.get_obj(self.model, self.model["focus"])["data"][j]["name"]
        ents = [c for c in obj.children if getattr(c, "name", None) == name and hasattr(c, "association")]
        if len(ents) != 1:
            raise core.HarnessError(f"data {name} not unique / missing")
        return ents[0]

    # -- one operation -------------------------------------------------------------------
    def apply(self, op):
        """-> name of the exception class raised by the library, or None."""
        f_model = M.get_obj(self.model, self.model["focus"])
        code = op[0]
        if code == "ro":
            self.reopen()
            return None
        obj = self.focus()
        kw = {"clear_cache": True} if self.clear else {}
        if code in ("rv", "rc"):
            idx = list(op[1]) if op[1] != [2, 0] else np.array(op[1])  # one ndarray input, the rest lists
            call = (obj.remove_vertices if code == "rv" else obj.remove_cells), (idx,), kw
        elif code == "sv":
            d_model = f_model["data"][op[1]]
            n = M.count(f_model, d_model["assoc"])
            arr = to_array(d_model["kind"], M.new_values(d_model["kind"], op[2], n, 1))
            d = self.data(obj, op[1])
            call = (lambda a: setattr(d, "values", a)), (arr,), {}
        elif code == "ad":
            kind, assoc = M.KINDS[op[1]]
            n = M.count(f_model, assoc)
            vals = None if op[2] == "none" else M.new_values(kind, op[2], n, 2)
            call = obj.add_data, ({f"n{len(f_model['data'])}": spec(kind, assoc, vals)},), {}
        elif code == "cp":
            call = obj.copy, (), dict(kw, mask=np.array(op[1], dtype=bool), name=f"o{len(self.model['objs'])}")
        elif code == "cc":
            call = obj.copy, (), dict(kw, cell_mask=np.array(op[1], dtype=bool), name=f"o{len(self.model['objs'])}")
        elif code == "dc":
            d_model = f_model["data"][op[1]]
            n = M.count(f_model, d_model["assoc"])
            d = self.data(obj, op[1])
            call = d.copy, (), dict(kw, mask=np.array(M.dc_mask(op[2], n), dtype=bool), name=f"{d_model['name']}c{len(f_model['data'])}")
        else:
            raise KeyError(code)
        fn, args, kwargs = call
        raised = None
        try:
            fn(*args, **kwargs)
        except Exception as err:  # pylint: disable=broad-except
            raised = type(err).__name__
        # the caller re-uses its buffer: whatever array was handed to the library is overwritten in place
        if code == "sv":
            poison(args[0])
        elif code == "ad":
            vals = list(args[0].values())[0].get("values")
            if vals is not None:
                poison(vals)
        return raised

    def finish(self):
        from geoh5py.workspace import Workspace

        self.ws.close()
        if self.disk:
            ws2 = Workspace(self.path, mode="r")
        else:
            ws2 = Workspace(io.BytesIO(self.ws.h5file.getvalue()), mode="r")
        obs = observe(ws2)
        ws2.close()
        if self.disk and self.path is not None and self.path.exists():
            self.path.unlink()
        return obs


def poison(arr):
    if arr.dtype == bool:
        np.logical_not(arr, out=arr)
    elif arr.dtype.kind in "US":
        arr[...] = "zz"
    else:
        arr[...] = -777


def spec(kind, assoc, vals):
    out = {"association": assoc, "type": kind}
    if vals is not None:
        out["values"] = to_array(kind, vals)
    if kind == "referenced":
        out["value_map"] = dict(VALUE_MAP)
    return out


def to_array(kind, vals):
    if kind == "float":
        return np.array([float(v) for v in vals], dtype=float)
    if kind in ("integer", "referenced"):
        return np.array([int(v) for v in vals], dtype=int)
    if kind == "boolean":
        return np.array([bool(v) for v in vals], dtype=bool)
    return np.array([str(v) for v in vals], dtype=str) if vals else np.array([], dtype="<U2")


def consistent(obs):
    for o in obs["objs"]:
        if o.get("cells_error") or M.invariants(o):
            return False
        if any(isinstance(d["vals"], dict) for d in o["data"]):
            return False
    return True


def run_history(run: Run, history, alphas, caps):
    """Execute history['ops'] on a built scene; judge the LAST operation (every prefix is a
    history of an earlier level and was judged there); -> explorer record."""
    ops = history["ops"]
    viol = []
    cont = run.model
    info = {"expect": None, "raised": None, "feats": [], "stuck": False}
    for i, op in enumerate(ops):
        last = i == len(ops) - 1
        before = run.model
        expect, after, feats = M.apply(before, op)
        raised = run.apply(op)
        run.executed += 1
        if not last:
            if raised is not None:
                obs = observe(run.ws)
                if not consistent(obs):
                    info["stuck"] = True  # cannot happen below a state that offered successors
                    break
                run.model = M.adopt(obs, before["focus"])
            else:
                run.model = after
            continue
        info.update(expect=expect, raised=raised, feats=feats)
        flags = cache_flags(run.ws)
        live = observe(run.ws)
        v_live = M.judge(before, op, expect, after, feats, raised, live, "live")
        reo = run.finish()
        v_reo = M.judge(before, op, expect, after, feats, raised, reo, "reopen")
        have = {(c, w) for c, w, _ in v_live}
        viol = list(v_live) + [(c, w, d) for c, w, d in v_reo if (c, w.replace("after re-open: ", "", 1)) not in have]
        if raised is not None:
            cont = M.adopt(live, before["focus"]) if consistent(live) else None
        else:
            cont = after if (expect != "refuse" and M.same_state(after, live)) else None
        if v_live:
            cont = None
        run.model = cont
        key_state = [live, flags]
        break
    else:  # no operation at all: the scene itself is the state (judged as an identity step)
        flags = cache_flags(run.ws)
        live = observe(run.ws)
        reo = run.finish()
        for stage, obs in (("live", live), ("reopen", reo)):
            viol += M.judge(run.model, ["ro"], "ok", run.model, [], None, obs, stage)
        cont = run.model if (not viol and M.same_state(run.model, live)) else None
        key_state = [live, flags]
    if info["stuck"]:
        return {"key": core.digest(["stuck", history["ops"]]), "viol": [], "succ": [], "outcome": "stuck", "model_key": None, "executed": run.executed}
    succ = []
    levels = alphas[history["alpha"]]
    if cont is not None and len(ops) < len(levels):
        succ = M.enabled(cont, ops, levels[len(ops)], caps)
    used = [sum(1 for o in ops if o[0] in codes) for codes in (("cp", "cc", "dc"), ("ad",), ("ro",))]
    key = core.digest([key_state, cont["focus"] if cont else None, used, len(ops), history["cfg"]])
    head = "scene" if not ops else ops[-1][0]
    outcome = core.jdump([head, sorted(info["feats"]), info["expect"], info["raised"], sorted({c for c, _, _ in viol}), cont is not None])
    return {"key": key, "viol": viol, "succ": succ, "outcome": outcome, "model_key": core.digest(cont) if cont else None, "executed": run.executed}


# --------------------------------------------------------------------------------------
# plain and forked drivers
# --------------------------------------------------------------------------------------
def execute_plain(history, alphas, caps):
    run = Run(history["cfg"]).build()
    return run_history(run, history, alphas, caps)


_TEMPLATES: dict = {}


def execute_forked(history, alphas, caps):
    """The scene is built once per worker; each history runs in a forked copy of that live
    state (copy-on-write clone of the Python objects and of the in-memory HDF5 image).
    Disk-backed scenes cannot be cloned that way and are rebuilt."""
    if history["cfg"].get("disk"):
        return execute_plain(history, alphas, caps)
    tkey = core.jdump(history["cfg"])
    if tkey not in _TEMPLATES:
        if len(_TEMPLATES) > 40:
            _TEMPLATES.clear()
        _TEMPLATES[tkey] = (Run(history["cfg"]).build(), world.uid_counter())
    run, uid_n = _TEMPLATES[tkey]
    rfd, wfd = os.pipe()
    pid = os.fork()
    if pid == 0:
        code = 0
        try:
            os.close(rfd)
            world._STATE["n"] = uid_n  # pylint: disable=protected-access
            world._STATE["order"] = "asc"  # pylint: disable=protected-access
            out = pickle.dumps(("ok", run_history(run, history, alphas, caps)))
        except BaseException:  # pylint: disable=broad-except
            import traceback

            out = pickle.dumps(("err", traceback.format_exc()))
            code = 1
        try:
            with os.fdopen(wfd, "wb") as fh:
                fh.write(out)
        finally:
            os._exit(code)
    os.close(wfd)
    with os.fdopen(rfd, "rb") as fh:
        data = fh.read()
    os.waitpid(pid, 0)
    status, payload = pickle.loads(data)
    if status != "ok":
        raise core.HarnessError(f"forked execution failed for {history!r}:\n{payload}")
    return payload
