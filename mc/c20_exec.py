"""C20 - executor and oracle for histories on linked survey pairs (see mc/props/c20.py).

A history is a JSON-able dict

    {"pair": <receiver class name>, "variant": "std" | "base_n", "order": "asc" | "desc",
     "ops": [op, ...]}

    ["link", d]                 d in "rx" | "tx": which side's setter creates the link (always first)
    ["edit", p, side, attr, k]  assign domains.values_for(entity, attr)[k] through side 0 (receiver
                                side) / 1 (complement) of pair p (0 = original, -1 = newest pair)
    ["special", p, side, what]  what in "relink" | "components" | "tx_id" | "ab" | "crs"
    ["copy", p, side, kind]     kind in plain | masked | masked2 | cross | cross_masked | bare
    ["reopen", mode]            close every workspace, open the bytes again ("observe": judge
                                right away; "blind": nothing is read before the next op)

Every history ends with a close + re-open + raw read of all workspaces whatever its ops.
All entities are addressed by role (pair index, side); uids never enter a history.
"""

from __future__ import annotations

import io
import json
import re

import numpy as np

from . import core, domains, fixtures, observe, rawh5, world

N = observe.norm
ROLE_ATTR = {"Receivers": "receivers", "Transmitters": "transmitters", "Base stations": "base_stations"}
COUPLED = {"waveform": "waveform/timing_mark", "timing_mark": "waveform/timing_mark"}
UUID_RE = re.compile(r"[0-9a-fA-F]{8}-[0-9a-fA-F]{4}-[0-9a-fA-F]{4}-[0-9a-fA-F]{4}-[0-9a-fA-F]{12}")
SIDE = ("rx", "tx")


# ---------------------------------------------------------------------------
# reflective discovery of the linkable pairs
# ---------------------------------------------------------------------------
def discover():
    """{receiver class name: spec} for every survey family found in geoh5py.objects.

    spec = {"rx", "tx" (None for a receiver class without complement), "em", "rx_key", "tx_key",
            "fwd" (link attribute on the receiver side), "back" (on the complement)}
    Raises HarnessError when a linkable class has no fixture (fixtures.PAIRS / FACTORIES)."""
    from geoh5py.objects.surveys.direct_current import BaseElectrode
    from geoh5py.objects.surveys.electromagnetics.base import BaseEMSurvey

    classes = fixtures.concrete_classes()
    em = {n: c for n, c in classes.items() if issubclass(c, BaseEMSurvey)}
    role = {n: c.type.fget(c) for n, c in em.items()}  # the role is a (name-mangled) class constant
    specs = {}
    for name, cls in sorted(em.items()):
        if role[name] != "Receivers":
            continue
        tx_cls = cls.default_transmitter_type.fget(None)
        if tx_cls is not type(None):
            tx_name = tx_cls.__name__
        else:
            cand = [n for n, c in em.items() if role[n] == "Base stations" and c.default_receiver_type.fget(None) is cls]
            tx_name = cand[0] if cand else None
        if tx_name is None:
            specs[name] = {"rx": name, "tx": None, "em": True, "rx_key": "Receivers", "tx_key": None, "fwd": None, "back": None}
            continue
        if tx_name not in em or role[tx_name] not in ROLE_ATTR:
            raise core.HarnessError(f"C20: complement {tx_name} of {name} is not a concrete survey class")
        specs[name] = {"rx": name, "tx": tx_name, "em": True, "rx_key": "Receivers", "tx_key": role[tx_name],
                       "fwd": ROLE_ATTR[role[tx_name]], "back": "receivers"}
    paired = {s["tx"] for s in specs.values()} | set(specs)
    orphans = sorted(set(em) - paired)
    if orphans:
        raise core.HarnessError(f"C20: survey classes that belong to no discovered pair: {orphans}")
    dc = sorted(n for n, c in classes.items() if issubclass(c, BaseElectrode))
    if dc != ["CurrentElectrode", "PotentialElectrode"]:
        raise core.HarnessError(f"C20: direct-current electrode classes changed: {dc}")
    specs["PotentialElectrode"] = {"rx": "PotentialElectrode", "tx": "CurrentElectrode", "em": False, "rx_key": "Potential Electrodes",
                                   "tx_key": "Current Electrodes", "fwd": "current_electrodes", "back": "potential_electrodes"}
    for name, spec in specs.items():
        for cname in (spec["rx"], spec["tx"]):
            if cname is not None and cname not in fixtures.FACTORIES:
                raise core.HarnessError(f"C20: pair class {cname} has no fixture factory")
        if spec["tx"] is not None:
            if fixtures.PAIRS.get(name) != (spec["tx"], spec["fwd"]):
                raise core.HarnessError(f"C20: discovered pair {name}/{spec['tx']} via '{spec['fwd']}' is not in fixtures.PAIRS")
    missing = sorted(set(fixtures.PAIRS) - set(specs))
    if missing:
        raise core.HarnessError(f"C20: fixtures.PAIRS entries not discovered reflectively: {missing}")
    return specs


_SPECS = None


def spec_of(name):
    global _SPECS
    if _SPECS is None:
        _SPECS = discover()
    return _SPECS[name]


def variants(name):
    return ["std", "base_n"] if name == "TipperReceivers" else ["std"]


def family(name, variant="std"):
    if name.startswith("LargeLoop"):
        return "large-loop"
    if name == "PotentialElectrode":
        return "dc"
    if name == "TipperReceivers":
        return "tipper(single base)" if variant == "std" else "tipper(n bases)"
    if name == "MTReceivers":
        return "mt"
    return "moving-loop" if name.startswith("MovingLoop") else "airborne"


# ---------------------------------------------------------------------------
# building a linked pair from either side
# ---------------------------------------------------------------------------
def build(ws, name, d, variant):
    """(receiver side, complement) linked through the setter of side `d`."""
    spec = spec_of(name)
    if spec["tx"] is None:
        return fixtures.FACTORIES[name](ws), None
    if d == "rx" and variant == "std":
        return fixtures.make_pair(ws, name)
    cls = fixtures.concrete_classes()
    rx_cls, tx_cls = cls[spec["rx"]], cls[spec["tx"]]
    if name == "PotentialElectrode":
        tx = tx_cls.create(ws, vertices=fixtures.V6.copy(), parts=np.array([0, 0, 0, 1, 1, 1]), name=spec["tx"])
        tx.add_default_ab_cell_id()
        rx = rx_cls.create(ws, vertices=fixtures.V6.copy(), cells=np.array([[1, 2], [0, 1], [4, 5]], dtype="uint32"), name=name)
        rx.ab_cell_id = np.array([1, 2, 3], dtype="int32")
        tx.potential_electrodes = rx
        fixtures._float_child(rx, 3, "CELL")  # pylint: disable=protected-access
        return rx, tx
    if name == "TipperReceivers":
        rx = rx_cls.create(ws, vertices=fixtures.V4.copy(), name=name)
        base = fixtures.V4[:1].copy() if variant == "std" else fixtures.V4.copy() + 1.0
        tx = tx_cls.create(ws, vertices=base, name=spec["tx"])
        if d == "rx":
            rx.base_stations = tx
            rx.channels = [1.0, 2.0]
        else:
            tx.receivers = rx
            tx.channels = [1.0, 2.0]
        fixtures._float_child(rx, 4, "VERTEX")  # pylint: disable=protected-access
        return rx, tx
    if name.startswith("LargeLoop"):
        rx = rx_cls.create(ws, vertices=fixtures.V6.copy(), name=name)
        tx = tx_cls.create(ws, vertices=fixtures.LOOPS.copy(), cells=fixtures.LOOP_CELLS.copy(), name=spec["tx"])
        tx.tx_id_property = tx.parts + 1
        tx.receivers = rx
        rx.tx_id_property = np.array([1, 1, 1, 2, 2, 2])
        tx.channels = [1.0, 2.0]
        fixtures._float_child(rx, 6, "VERTEX")  # pylint: disable=protected-access
        return rx, tx
    rx = rx_cls.create(ws, vertices=fixtures.V4.copy(), name=name)
    tx = tx_cls.create(ws, vertices=fixtures.V4.copy() + 1.0, name=spec["tx"])
    tx.receivers = rx
    tx.channels = [1.0, 2.0]
    if hasattr(rx_cls, "loop_radius"):
        tx.loop_radius = 2.5
    if hasattr(rx_cls, "pitch"):
        tx.pitch = 1.5
        tx.yaw = 0.5
    if "TEM" in name:
        tx.waveform = np.array([[0.0, 0.0], [1.0, 1.0], [2.0, 0.0]])
        tx.timing_mark = 1.0
    fixtures._float_child(rx, 4, "VERTEX")  # pylint: disable=protected-access
    return rx, tx


def shared_attrs(entity):
    """Shared survey parameters the class exposes: settable properties that are views of the metadata."""
    return [a for a in domains.settable_attributes(entity) if domains.VIEWS.get(a) == "metadata" and a != "coordinate_reference_system"]


def edit_catalogue(name, variant="std"):
    """[(attr, number of values)] and the specials of a pair class, learnt from a throw-away pair."""
    from geoh5py.workspace import Workspace

    world.reset("asc")
    ws = Workspace()
    rx, _ = build(ws, name, "rx", variant)
    spec = spec_of(name)
    attrs = []
    if spec["em"]:
        for a in shared_attrs(rx) + ["metadata"]:
            attrs.append((a, len(domains.values_for(rx, a))))
    else:
        attrs.append(("metadata", len(domains.values_for(rx, "metadata"))))
    specials = []
    if spec["tx"] is not None:
        specials.append("relink")
    if spec["em"]:
        specials.append("components")
    if name.startswith("LargeLoop"):
        specials.append("tx_id")
    if name == "PotentialElectrode":
        specials += ["ab", "crs"]
    ws.close()
    return attrs, specials


# ---------------------------------------------------------------------------
# masks and reference geometry
# ---------------------------------------------------------------------------
def mask_for(name, variant, entity, which):
    """Coordinate rule, so that it also applies to copies: the stations / loops / dipoles of the first
    line (which=2) or of the second line (which=1) of the fixture geometry."""
    verts = np.asarray(entity.vertices)
    if verts.shape[0] == 1:
        return np.array([True])
    thr = 25.0 if family(name, variant) in ("large-loop", "dc") else 5.0
    # which=1 (the quick tier's mask) keeps the SECOND line: the identifiers that survive are then not a
    # prefix of the identifier range, so "<= max" / "first n" slips in the renumbering code show
    m = verts[:, 1] >= thr if which == 1 else verts[:, 1] < thr
    if m.all() or not m.any():
        raise core.HarnessError(f"C20: degenerate mask for {name} ({verts.shape[0]} vertices, which={which})")
    return m


def _pt(v):
    return tuple(float(x) for x in v)


def _id_values(entity, fam):
    data = entity.tx_id_property if fam == "large-loop" else entity.ab_cell_id
    if data is None or data.values is None:
        return None, None
    return np.asarray(data.values), data.association.name


def _groups(entity, fam):
    """{id: frozenset of vertex coordinates of the elements carrying that id}."""
    vals, assoc = _id_values(entity, fam)
    if vals is None:
        return None
    verts = np.asarray(entity.vertices)
    cells = np.asarray(entity.cells)
    out = {}
    for i, val in enumerate(vals.tolist()):
        if assoc == "CELL":
            pts = [_pt(verts[j]) for j in cells[i]]
        else:
            pts = [_pt(verts[i])]
        out.setdefault(int(val), set()).update(pts)
    return {k: frozenset(v) for k, v in out.items()}


def references(rx, tx, fam):
    """What the receiver side refers to, by geometry only:
    sorted list of (receiver element coordinates, coordinates of the loop / dipole it names)."""
    vals, assoc = _id_values(rx, fam)
    loops = _groups(tx, fam)
    if vals is None or loops is None:
        return None
    verts = np.asarray(rx.vertices)
    cells = np.asarray(rx.cells)
    out = []
    for i, val in enumerate(vals.tolist()):
        elem = tuple(_pt(verts[j]) for j in cells[i]) if assoc == "CELL" else (_pt(verts[i]),)
        loop = loops.get(int(val))
        out.append([elem, None if loop is None else sorted(loop)])
    return sorted(out, key=repr)


# ---------------------------------------------------------------------------
# state
# ---------------------------------------------------------------------------
class State:
    def __init__(self, hist):
        self.name = hist["pair"]
        self.variant = hist.get("variant", "std")
        self.spec = spec_of(self.name)
        self.fam = family(self.name, self.variant)
        self.wss = []
        self.pairs = []  # {"ws": index, "uid": [rx uid, tx uid], "owner": side holding components | None}
        self.viol = []
        self.transitions = 0
        self.outcomes = []
        self.loaded = True  # False right after a blind re-open
        self.key = None

    # -- handles ---------------------------------------------------------------
    def ent(self, p, side):
        pair = self.pairs[p]
        uid = pair["uid"][side]
        if uid is None:
            return None
        return self.wss[pair["ws"]].get_entity(uid)[0]

    def partner(self, entity):
        spec = self.spec
        if spec["tx"] is None:
            return None
        if type(entity).__name__ == spec["rx"]:
            return getattr(entity, spec["fwd"])
        return getattr(entity, spec["back"])

    def em_dict(self, entity):
        md = entity.metadata
        if md is None:
            return {}
        return md.get("EM Dataset", {}) if self.spec["em"] else md

    def fail(self, clause, witness, detail):
        self.viol.append((clause, witness, detail))


def link_ids(st, entity):
    d = st.em_dict(entity)
    keys = [k for k in (st.spec["rx_key"], st.spec["tx_key"]) if k is not None]
    return {k: N(d.get(k)) for k in keys}


def observe_side(st, p, side):
    """Everything the oracle reads from one entity (getters only)."""
    ent = st.ent(p, side)
    if ent is None:
        return None
    rec = {"ids": link_ids(st, ent), "get": {}, "md": None, "own": None}
    if st.spec["em"]:
        for a in shared_attrs(ent):
            try:
                rec["get"][a] = N(getattr(ent, a))
            except Exception as err:  # pylint: disable=broad-except
                rec["get"][a] = {"raised": type(err).__name__}
        md = dict(st.em_dict(ent))
        pgs = md.pop("Property groups", None)
        rec["md"] = N(md)
        if st.pairs[p].get("owner") == side:
            comp = ent.components
            rec["own"] = {"Property groups": N(pgs), "components": None if comp is None else {k: len(v) for k, v in sorted(comp.items())}}
    other = st.partner(ent)
    if other is None:
        rec["partner"] = None
    elif st.spec["tx"] is not None and other is not st.ent(p, 1 - side):
        # same uid is not enough: a cross-workspace copy may share uids with its source
        rec["partner"] = f"another object ({type(other).__name__} {other.uid})"
    else:
        rec["partner"] = str(other.uid)
    return rec


def observe_pair(st, p):
    return [observe_side(st, p, 0), observe_side(st, p, 1)]


def observe_all(st):
    return [observe_pair(st, p) for p in range(len(st.pairs))]


def where(st, p):
    pair = st.pairs[p]
    return "original pair" if p == 0 else ("copy of copy" if pair.get("gen", 1) > 1 else "copy pair")


# ---------------------------------------------------------------------------
# oracle clauses shared by all phases
# ---------------------------------------------------------------------------
def judge_pairs(st, obs, phase):
    """link-records-both-ids / edit-visible-on-both / partner-resolves on every tracked pair."""
    cls = st.name
    for p, (rx, tx) in enumerate(obs):
        pair = st.pairs[p]
        if st.spec["tx"] is None:
            want = {st.spec["rx_key"]: str(pair["uid"][0])}
            if rx["ids"] != want:
                st.fail("link-records-both-ids", f"{cls} ({phase}): own identifier not recorded", {"pair": p, "have": rx["ids"], "want": want})
            continue
        if rx is None or tx is None:
            continue
        want = {st.spec["rx_key"]: str(pair["uid"][0]), st.spec["tx_key"]: str(pair["uid"][1])}
        wrong = [side for side, rec in ((0, rx), (1, tx)) if rec["ids"] != want]
        if wrong:
            sides = "both sides" if len(wrong) == 2 else f"the {SIDE[wrong[0]]} side"
            st.fail(
                "link-records-both-ids",
                f"{st.fam.split('(')[0]} {where(st, p)} ({phase}): metadata of {sides} does not name both partners",
                {"class": cls, "variant": st.variant, "pair": p, "rx": rx["ids"], "tx": tx["ids"], "want": want},
            )
        if st.spec["em"]:
            bad = sorted(a for a in rx["get"] if rx["get"][a] != tx["get"].get(a))
            if bad:
                st.fail(
                    "edit-visible-on-both",
                    f"{st.fam} ({phase}): partners disagree on {'/'.join(sorted({COUPLED.get(a, a) for a in bad}))}",
                    {"class": cls, "pair": p, "rx": {a: rx["get"][a] for a in bad}, "tx": {a: tx["get"].get(a) for a in bad}},
                )
            if not bad and rx["md"] != tx["md"]:
                keys = sorted(k for k in set(rx["md"]) | set(tx["md"]) if rx["md"].get(k, "<absent>") != tx["md"].get(k, "<absent>"))
                st.fail(
                    "edit-visible-on-both",
                    f"{st.fam} ({phase}): 'EM Dataset' of the partners differs in {keys}",
                    {"class": cls, "pair": p, "rx": {k: rx["md"].get(k, "<absent>") for k in keys}, "tx": {k: tx["md"].get(k, "<absent>") for k in keys}},
                )
        for side, rec in ((0, rx), (1, tx)):
            if rec["partner"] != str(pair["uid"][1 - side]):
                st.fail(
                    "partner-resolves",
                    f"{st.fam} {where(st, p)} ({phase}): partner getter of the {SIDE[side]} side does not return the partner",
                    {"class": cls, "pair": p, "have": rec["partner"], "want": str(pair["uid"][1 - side])},
                )


def strip_group(get, group):
    return {a: v for a, v in get.items() if COUPLED.get(a, a) != group}


def judge_frame(st, before, after, p_edit, attr, through):
    """edit-stays-stored (same pair) / copies-independent (other pairs): an edit of one parameter
    leaves every other shared parameter, on both sides of every pair, as it was."""
    group = COUPLED.get(attr, attr)
    whole = attr in ("metadata",)
    for p, (b_pair, a_pair) in enumerate(zip(before, after)):
        for side in (0, 1):
            b, a = b_pair[side], a_pair[side]
            if b is None or a is None:
                continue
            if p == p_edit % len(st.pairs):
                if whole:
                    continue
                bg, ag = strip_group(b["get"], group), strip_group(a["get"], group)
                bad = sorted(k for k in bg if bg[k] != ag.get(k))
                if bad:
                    st.fail(
                        "edit-stays-stored",
                        f"{st.fam}: edit of {group} changes {'/'.join(sorted({COUPLED.get(x, x) for x in bad}))}",
                        {"class": st.name, "side": SIDE[side], "before": {k: bg[k] for k in bad}, "after": {k: ag.get(k) for k in bad}},
                    )
                if attr not in ("components",) and b["own"] != a["own"]:
                    st.fail(
                        "edit-stays-stored",
                        "component list ('Property groups') of one side is lost by a later edit through the "
                        + ("partner" if side != through else "same side"),
                        {"class": st.name, "attr": attr, "owner": SIDE[side], "through": SIDE[through], "before": b["own"], "after": a["own"]},
                    )
            else:
                bad = sorted(k for k in b["get"] if b["get"][k] != a["get"].get(k))
                if bad or b["ids"] != a["ids"] or b["md"] != a["md"] or b["own"] != a["own"]:
                    what = "/".join(sorted({COUPLED.get(x, x) for x in bad})) or "metadata"
                    st.fail(
                        "copies-independent",
                        f"edit of {group} through one pair changes {what} of the pair it was copied from / its copy",
                        {"class": st.name, "edited pair": p_edit % len(st.pairs), "changed pair": p, "side": SIDE[side],
                         "before": {k: b["get"][k] for k in bad}, "after": {k: a["get"].get(k) for k in bad}},
                    )


# ---------------------------------------------------------------------------
# operations
# ---------------------------------------------------------------------------
def op_link(st, d, order):
    """d: "rx" / "tx" = link through the setter of that side after both exist; "rx_create" / "tx_create" =
    hand the partner to create() of that side (the setter runs inside the constructor).  False = refused."""
    from geoh5py.workspace import Workspace

    world.reset(order)
    ws = Workspace()
    st.wss.append(ws)
    st.transitions += 1
    if d.endswith("_create"):
        try:
            rx, tx = build_create(ws, st.name, d[:2], st.variant)
        except Exception as err:  # pylint: disable=broad-except
            # refusing to link inside the constructor is a legitimate outcome: nothing is linked
            st.outcomes.append(("link", d, "refused", type(err).__name__))
            return False
    else:
        rx, tx = build(ws, st.name, d, st.variant)
    st.pairs.append({"ws": 0, "uid": [rx.uid, None if tx is None else tx.uid], "owner": None, "gen": 0})
    st.outcomes.append(("link", d))
    return True


def build_create(ws, name, d, variant):
    """Pair linked by the constructor keyword of side `d`; no parameter is edited afterwards."""
    spec = spec_of(name)
    cls = fixtures.concrete_classes()
    rx_cls, tx_cls = cls[spec["rx"]], cls[spec["tx"]]
    if name == "PotentialElectrode":
        rx_kw = {"vertices": fixtures.V6.copy(), "cells": np.array([[1, 2], [0, 1], [4, 5]], dtype="uint32"), "name": name}
        tx_kw = {"vertices": fixtures.V6.copy(), "parts": np.array([0, 0, 0, 1, 1, 1]), "name": spec["tx"]}
    elif name.startswith("LargeLoop"):
        rx_kw = {"vertices": fixtures.V6.copy(), "name": name}
        tx_kw = {"vertices": fixtures.LOOPS.copy(), "cells": fixtures.LOOP_CELLS.copy(), "name": spec["tx"]}
    elif name == "TipperReceivers":
        rx_kw = {"vertices": fixtures.V4.copy(), "name": name}
        tx_kw = {"vertices": fixtures.V4[:1].copy() if variant == "std" else fixtures.V4.copy() + 1.0, "name": spec["tx"]}
    else:
        rx_kw = {"vertices": fixtures.V4.copy(), "name": name}
        tx_kw = {"vertices": fixtures.V4.copy() + 1.0, "name": spec["tx"]}
    if d == "rx":
        tx = tx_cls.create(ws, **tx_kw)
        rx = rx_cls.create(ws, **rx_kw, **{spec["fwd"]: tx})
    else:
        rx = rx_cls.create(ws, **rx_kw)
        tx = tx_cls.create(ws, **tx_kw, **{spec["back"]: rx})
    return rx, tx


def judge_refusal(st, p, side, group, before, before_own, err):
    """A refused edit (exception) must leave live state and file as they were: otherwise the change is
    visible but not stored ("... are visible on both and stored")."""
    pi = p % len(st.pairs)
    if before is not None:
        after = observe_all(st)
        changed = before != after
        detail = {"before": before[pi], "after": after[pi]}
    else:  # cold edit: there is no earlier observation to compare with
        st.loaded = True
        judge_pairs(st, observe_all(st), "live")
        return
    if changed:
        detail.update({"class": st.name, "through": SIDE[side], "error": f"{type(err).__name__}: {err}"[:200]})
        st.fail("edit-stored", f"{st.fam}: refused edit of {group} is half applied (live values change, the file does not)", detail)
    elif before is not None:
        judge_pairs(st, after, "live")


def op_edit(st, p, side, attr, k):
    ent = st.ent(p, side)
    if ent is None:
        st.outcomes.append(("edit", attr, "no-entity"))
        return
    values = domains.values_for(ent, attr)
    value = values[k]
    before = observe_all(st) if st.loaded else None
    before_own = None  # cold: nothing is read before the edit, so no partner cache is warmed by the harness
    st.transitions += 1
    try:
        setattr(ent, attr, value)
    except Exception as err:  # pylint: disable=broad-except
        # a refusal is a legitimate outcome, but it must refuse: nothing may have changed
        st.outcomes.append(("edit", attr, "refused", type(err).__name__))
        judge_refusal(st, p, side, COUPLED.get(attr, attr), before, before_own, err)
        return
    st.loaded = True
    st.outcomes.append(("edit", attr, "ok"))
    after = observe_all(st)
    judge_pairs(st, after, "live")
    # "later edits ... are visible on both": both getters return the assigned value
    pi = p % len(st.pairs)
    if st.spec["em"]:
        for s in (0, 1):
            rec = after[pi][s]
            if rec is None:
                continue
            if attr == "metadata":
                want = N(value.get("EM Dataset", value))
                have = dict(rec["md"])
                want.pop("Property groups", None)
                ok = have == want
            else:
                want, have = N(value), rec["get"].get(attr)
                ok = have == want
            if not ok:
                st.fail(
                    "edit-visible-on-both",
                    f"{st.fam}: {COUPLED.get(attr, attr)} assigned through the {SIDE[side]} side is not returned by the "
                    + ("same side" if s == side else "partner"),
                    {"class": st.name, "attr": attr, "assigned": N(value), "read": have, "read on": SIDE[s]},
                )
    else:
        for s in (0, 1):
            ent_s = st.ent(p, s)
            if s == side and attr == "metadata":
                have = N(ent_s.metadata)
                missing = {k2: v for k2, v in N(value).items() if have.get(k2) != v}
                if missing:
                    st.fail("edit-visible-on-both", f"{st.fam}: metadata assigned through the {SIDE[side]} side is not returned by it",
                            {"class": st.name, "missing": missing})
    if before is not None:
        judge_frame(st, before, after, p, attr, side)


def op_special(st, p, side, what):
    ent = st.ent(p, side)
    if ent is None:
        st.outcomes.append((what, "no-entity"))
        return
    pi = p % len(st.pairs)
    other = st.ent(p, 1 - side)
    before = observe_all(st) if st.loaded else None
    before_own = None
    st.transitions += 1
    try:
        if what == "relink":
            setattr(ent, st.spec["fwd"] if side == 0 else st.spec["back"], other)
        elif what == "components":
            nch = len(ent.channels)
            nv = ent.n_vertices
            block = {f"Zxx_{i}": {"values": np.arange(nv, dtype=float) + i} for i in range(nch)}
            ent.add_components_data({"Zxx": block})
            st.pairs[pi]["owner"] = side
        elif what == "tx_id":
            vals = np.asarray(ent.tx_id_property.values)
            ent.tx_id_property = vals[::-1].copy()
        elif what == "ab":
            vals = np.asarray(ent.ab_cell_id.values)
            ent.ab_cell_id = vals[::-1].copy()
        elif what == "crs":
            ent.coordinate_reference_system = {"Code": "EPSG:26917", "Name": "NAD83 / UTM zone 17N"}
        else:
            raise core.HarnessError(f"C20: unknown special {what}")
    except core.HarnessError:
        raise
    except Exception as err:  # pylint: disable=broad-except
        st.outcomes.append((what, "refused", type(err).__name__))
        judge_refusal(st, p, side, what, before, before_own, err)
        return
    st.loaded = True
    st.outcomes.append((what, "ok"))
    after = observe_all(st)
    judge_pairs(st, after, "live")
    if what == "components":
        own = after[pi][side]["own"]
        if own is None or "Zxx" not in (own["Property groups"] or []) or "Zxx" not in (own["components"] or {}):
            st.fail("edit-visible-on-both", f"{st.fam}: component added through add_components_data is not listed", {"class": st.name, "own": own})
    if before is not None and what != "relink":
        judge_frame(st, before, after, p, what, side)
    if before is not None and what == "relink":
        judge_frame(st, before, after, p, "relink", side)


def op_copy(st, p, side, kind):
    from geoh5py.workspace import Workspace

    src = st.ent(p, side)
    if src is None:
        st.outcomes.append(("copy", kind, "no-entity"))
        return False
    pi = p % len(st.pairs)
    spec = st.spec
    src_partner = st.ent(p, 1 - side) if spec["tx"] is not None else None
    before = observe_all(st) if st.loaded else None
    kwargs = {}
    mask = None
    if kind in ("masked", "masked2", "cross_masked"):
        mask = mask_for(st.name, st.variant, src, 2 if kind == "masked2" else 1)
        kwargs["mask"] = mask
    if kind in ("cross", "cross_masked"):
        if len(st.wss) < 2:
            st.wss.append(Workspace())
        dest = 1
        kwargs["parent"] = st.wss[1]
    else:
        dest = st.pairs[pi]["ws"]
    if kind == "bare":
        kwargs["copy_children"] = False
    # geometry of the source pair before the copy (by coordinates only)
    src_pair = (st.ent(p, 0), st.ent(p, 1))
    refs_before = references(src_pair[0], src_pair[1], st.fam) if st.fam in ("large-loop", "dc") else None
    src_vertices = None if src.vertices is None else np.array(src.vertices)
    partner_vertices = None if src_partner is None or src_partner.vertices is None else np.array(src_partner.vertices)
    src_cells = np.array(src.cells) if getattr(src, "cells", None) is not None else None
    st.transitions += 1
    tag = f"{st.fam} {SIDE[side]}-side {'masked' if mask is not None else 'whole'} copy"
    try:
        new = src.copy(**kwargs)
    except Exception as err:  # pylint: disable=broad-except
        st.outcomes.append(("copy", kind, "raised", type(err).__name__))
        st.loaded = True
        st.fail("copy-copies-partner", f"{st.fam} {'masked' if mask is not None else 'whole'} copy is refused", {"class": st.name, "kind": kind, "error": f"{type(err).__name__}: {err}"[:300]})
        return False
    st.loaded = True
    st.outcomes.append(("copy", kind, "ok"))
    dest_ws = st.wss[dest]
    if new is None or new is src or new.workspace is not dest_ws:
        st.fail("copy-copies-partner", f"{tag} returns no new entity in the target workspace", {"class": st.name, "kind": kind})
        return False
    if spec["tx"] is None:
        st.pairs.append({"ws": dest, "uid": [new.uid, None], "owner": st.pairs[pi]["owner"], "gen": st.pairs[pi]["gen"] + 1})
        judge_pairs(st, observe_all(st), "live")
        return True
    other = st.partner(new)
    want_cls = spec["tx"] if side == 0 else spec["rx"]
    if other is None or type(other).__name__ != want_cls:
        st.fail("copy-copies-partner", f"{tag} has no partner copy", {"class": st.name, "kind": kind, "partner": None if other is None else type(other).__name__})
        return False
    if other is src_partner or other.workspace is not dest_ws or (dest == st.pairs[pi]["ws"] and other.uid == src_partner.uid):
        st.fail("copies-linked-to-each-other", f"{tag} is linked to the original partner", {"class": st.name, "kind": kind})
        return False
    if st.partner(other) is not new:
        back = st.partner(other)
        st.fail("copies-linked-to-each-other", f"{tag}: the partner copy does not point back to the copy",
                {"class": st.name, "kind": kind, "points to": None if back is None else ("source" if back is src else str(type(back).__name__))})
    uid = [new.uid, other.uid] if side == 0 else [other.uid, new.uid]
    owner = st.pairs[pi]["owner"]
    st.pairs.append({"ws": dest, "uid": uid, "owner": owner if kind != "bare" else None, "gen": st.pairs[pi]["gen"] + 1})
    after = observe_all(st)
    judge_pairs(st, after, "live")
    # the source pair (and every older pair) is exactly as before
    if before is not None:
        for q, (b_pair, a_pair) in enumerate(zip(before, after)):
            if b_pair != a_pair:
                st.fail("copies-linked-to-each-other", f"{tag} changes the link or the shared parameters of the source pair",
                        {"class": st.name, "kind": kind, "pair": q, "before": b_pair, "after": a_pair})
    # geometry: the partner copy is the partner (resp. what the copied side refers to)
    new_pair = (new, other) if side == 0 else (other, new)
    if st.fam in ("large-loop", "dc"):
        judge_references(st, tag, kind, side, mask, src_vertices, src_cells, refs_before, new_pair)
        if st.fam == "large-loop":
            judge_tx_id_reference(st, tag, kind, (src, src_partner) if side == 0 else (src_partner, src), new_pair)
    elif partner_vertices is not None:
        if mask is not None and partner_vertices.shape[0] == mask.shape[0]:
            want = partner_vertices[mask]
        elif mask is None:
            want = partner_vertices
        else:
            want = None
        have = None if other.vertices is None else np.asarray(other.vertices)
        if want is not None and (have is None or have.shape != want.shape or not np.array_equal(have, want)):
            st.fail("copy-copies-partner", f"{tag}: partner copy does not hold the partner's stations", {"class": st.name, "kind": kind, "have": N(have), "want": N(want)})
    return True


def judge_references(st, tag, kind, side, mask, src_vertices, src_cells, refs_before, new_pair):
    """large-loop / dc: the copied receivers refer to the same loops (dipoles) as their originals and
    the partner copy holds exactly those."""
    if refs_before is None:
        return
    refs_after = references(new_pair[0], new_pair[1], st.fam)
    if refs_after is None:
        st.fail("copy-copies-partner", f"{tag}: the copies carry no loop / dipole identifiers", {"class": st.name, "kind": kind})
        return
    if mask is None:
        want = refs_before
    else:
        kept = {_pt(v) for v in src_vertices[mask]}
        if side == 0:  # receiver elements wholly inside the mask
            want = [r for r in refs_before if all(pt in kept for pt in r[0])]
        else:  # loops / dipoles wholly inside the mask
            want = [r for r in refs_before if r[1] is not None and all(tuple(pt) in kept for pt in r[1])]
    want = sorted(want, key=repr)
    if N(refs_after) != N(want):
        st.fail("copy-copies-partner", f"{tag}: copied receivers do not refer to the loops / dipoles of their originals",
                {"class": st.name, "kind": kind, "have": N(refs_after), "want": N(want)})
    # exactly the referenced loops: no vertex of the complement copy outside them
    used = set()
    for _, loop in refs_after:
        used.update(tuple(pt) for pt in (loop or []))
    tx_pts = {_pt(v) for v in np.asarray(new_pair[1].vertices)} if new_pair[1].vertices is not None else set()
    if side == 0 and tx_pts != used:
        st.fail("copy-copies-partner", f"{tag}: complement copy is not exactly the loops / dipoles the copied receivers refer to",
                {"class": st.name, "kind": kind, "extra": sorted(tx_pts - used), "missing": sorted(used - tx_pts)})


def _tx_id_ref(entity):
    meta = entity.metadata if isinstance(entity.metadata, dict) else {}
    return (meta.get("EM Dataset") or {}).get("Tx ID property")


def judge_tx_id_reference(st, tag, kind, src_pair, new_pair):
    """large-loop: the shared parameters name the receivers' own 'Transmitter ID' data ("Tx ID
    property").  When the source pair names the source receivers' own data, the copies - linked to
    each other, not to the originals - name the copied receivers' own data, whichever side the
    copy was made through."""
    src_rx = src_pair[0]
    if src_rx is None or new_pair[0] is None:
        return
    src_ref = _tx_id_ref(src_rx)
    own_src = {str(c.uid) for c in src_rx.children}
    if src_ref is None or str(src_ref) not in own_src:
        return
    own_new = {str(c.uid) for c in new_pair[0].children}
    for label, ent in (("receivers", new_pair[0]), ("transmitters", new_pair[1])):
        ref = _tx_id_ref(ent)
        if ref is None or str(ref) not in own_new:
            what = "nothing" if ref is None else ("data of the original receivers" if str(ref) in own_src else "an unknown identifier")
            st.fail("copies-linked-to-each-other", f"{tag}: 'Tx ID property' of the copied {label} names {what}, not the copied receivers' own data",
                    {"class": st.name, "kind": kind})


def raw_metadata(b, uid):
    """Metadata JSON of an object straight from the file bytes (h5py only)."""
    with rawh5.open_bytes(b) as f:
        proj = f[list(f)[0]]
        for key, node in proj["Objects"].items():
            if rawh5.norm_uid(key) == rawh5.norm_uid(str(uid)):
                if "Metadata" not in node:
                    return None
                val = node["Metadata"][()]
                if isinstance(val, np.ndarray):
                    val = val.ravel()[0]
                if isinstance(val, bytes):
                    val = val.decode("utf-8")
                return json.loads(val)
    return "<no node>"


def _bare(x):
    return x.strip("{}").lower() if isinstance(x, str) else x


def op_reopen(st, mode, final=False):
    """Close all workspaces and open their bytes again; judge 'stored' (before close == after
    re-open, per entity), the raw JSON on file and the partner getters."""
    before = observe_all(st) if st.loaded else None
    blobs = []
    for i, ws in enumerate(st.wss):
        ws.close()
        blobs.append(ws.h5file.getvalue())
    from geoh5py.workspace import Workspace

    st.wss = [Workspace(io.BytesIO(b), mode="r+") for b in blobs]
    st.transitions += 1
    st.outcomes.append(("reopen", mode))
    # raw file: both identifiers in the JSON text of both entities, partners' JSON equal
    for p, pair in enumerate(st.pairs):
        raws = [None if u is None else raw_metadata(blobs[pair["ws"]], u) for u in pair["uid"]]
        want = {st.spec["rx_key"]: str(pair["uid"][0])}
        if st.spec["tx"] is not None:
            want[st.spec["tx_key"]] = str(pair["uid"][1])
        for side, raw in enumerate(raws):
            if pair["uid"][side] is None:
                continue
            d = raw.get("EM Dataset", {}) if isinstance(raw, dict) and st.spec["em"] else raw
            have = {k: _bare(d.get(k)) for k in want} if isinstance(d, dict) else d
            if have != want:
                st.fail("link-records-both-ids", f"{st.fam} {where(st, p)} (file): stored metadata of the {SIDE[side]} side does not name both partners",
                        {"class": st.name, "pair": p, "have": have, "want": want})
        if st.spec["em"] and st.spec["tx"] is not None and None not in pair["uid"] and raws[0] != raws[1]:
            st.fail("edit-stored", f"{st.fam} (file): stored metadata of the partners differ",
                    {"class": st.name, "pair": p, "rx": raws[0], "tx": raws[1]})
    if mode == "blind" and not final:
        st.loaded = False
        return
    st.loaded = True
    after = observe_all(st)
    judge_pairs(st, after, "reopen")
    if before is not None:
        for p, (b_pair, a_pair) in enumerate(zip(before, after)):
            for side in (0, 1):
                b, a = b_pair[side], a_pair[side]
                if b is None or a is None:
                    continue
                bad = sorted(k for k in b["get"] if b["get"][k] != a["get"].get(k))
                if bad:
                    st.fail("edit-stored", f"{st.fam}: {'/'.join(sorted({COUPLED.get(x, x) for x in bad}))} read back differently after re-open",
                            {"class": st.name, "pair": p, "side": SIDE[side], "before": {k: b["get"][k] for k in bad}, "after": {k: a["get"].get(k) for k in bad}})
                if not bad and b["md"] != a["md"]:
                    keys = sorted(k for k in set(b["md"]) | set(a["md"]) if b["md"].get(k, "<absent>") != a["md"].get(k, "<absent>"))
                    st.fail("edit-stored", f"{st.fam}: 'EM Dataset' entries {keys} differ after re-open",
                            {"class": st.name, "pair": p, "side": SIDE[side], "before": {k: b["md"].get(k, "<absent>") for k in keys},
                             "after": {k: a["md"].get(k, "<absent>") for k in keys}})
                if b["own"] != a["own"]:
                    st.fail("edit-stored", f"{st.fam}: component list differs after re-open",
                            {"class": st.name, "pair": p, "side": SIDE[side], "before": b["own"], "after": a["own"]})


# ---------------------------------------------------------------------------
def canonical(st, obs):
    """Final observation with every uid replaced by its role (run-independent)."""
    roles = {}
    for p, pair in enumerate(st.pairs):
        for side, uid in enumerate(pair["uid"]):
            if uid is not None:
                roles.setdefault(str(uid), f"P{p}.{SIDE[side]}")
    text = core.jdump({"fam": st.fam, "cls": st.name, "obs": obs, "ws": [q["ws"] for q in st.pairs]})
    text = UUID_RE.sub(lambda m: roles.get(m.group(0).lower(), "U"), text)
    return core.digest(text)


def start(hist):
    return State(hist)


def apply(st, op, order="asc"):
    """Execute one op and judge it.  False = the history stops here (a clause failed - later
    failures would be consequences of it - or a copy produced no pair to go on with)."""
    kind = op[0]
    alive = True
    if kind == "link":
        if not op_link(st, op[1], order):
            return False
        if len(op) > 2 and op[2] == "cold":
            st.loaded = False  # nothing is read (no getter, no partner cache warmed) before the next op
        else:
            judge_pairs(st, observe_all(st), "live")
    elif kind == "edit":
        op_edit(st, op[1], op[2], op[3], op[4])
    elif kind == "special":
        op_special(st, op[1], op[2], op[3])
    elif kind == "copy":
        alive = op_copy(st, op[1], op[2], op[3])
    elif kind == "reopen":
        op_reopen(st, op[1])
    else:
        raise core.HarnessError(f"C20: unknown op {op}")
    return alive and not st.viol


def finish(st):
    """Final close + re-open + raw read; canonical key of the end state."""
    op_reopen(st, "observe", final=True)
    st.key = canonical(st, observe_all(st))


def result(st):
    seen, viol = set(), []
    for clause, witness, detail in st.viol:
        if (clause, witness) not in seen:
            seen.add((clause, witness))
            viol.append((clause, witness, core.jdump(detail)))
    return {"viol": viol, "key": getattr(st, "key", None), "outcome": core.digest(st.outcomes), "n_pairs": len(st.pairs), "transitions": st.transitions}


def close_all(st):
    for ws in st.wss:
        try:
            ws.close()
        except Exception:  # pylint: disable=broad-except
            pass


def execute(hist):
    """Run one history on the real library, straight (this is what replay uses).  Returns a picklable
    dict: viol [(clause, witness, detail-json)], key (canonical end state), outcome, transitions."""
    ops = hist["ops"]
    if not ops or ops[0][0] != "link":
        raise core.HarnessError("C20: a history starts with a link op")
    st = start(hist)
    try:
        alive = True
        for op in ops:
            alive = apply(st, op, hist.get("order", "asc"))
            if not alive:
                break
        if alive:
            finish(st)
    finally:
        close_all(st)
    return result(st)


# ---------------------------------------------------------------------------
# prefix-sharing execution: the ops of a group of histories form a trie; every edge is executed
# once, in a forked clone of the live state reached by its prefix (Python objects and in-memory
# HDF5 files are copied by the fork).  Results must equal those of execute() - checked by the
# run (self-test) and by the fresh-interpreter replay of every violation.
# ---------------------------------------------------------------------------
def _forked(fn):
    import os
    import pickle
    import traceback

    rfd, wfd = os.pipe()
    pid = os.fork()
    if pid == 0:
        code = 0
        try:
            os.close(rfd)
            out = pickle.dumps(("ok", fn()))
        except BaseException:  # pylint: disable=broad-except
            out = pickle.dumps(("err", traceback.format_exc()))
            code = 1
        try:
            with os.fdopen(wfd, "wb") as fh:
                fh.write(out)
        finally:
            os._exit(code)
    os.close(wfd)
    with os.fdopen(rfd, "rb") as fh:
        data = fh.read()
    os.waitpid(pid, 0)
    status, payload = pickle.loads(data)
    if status != "ok":
        raise core.HarnessError(f"C20: forked execution failed:\n{payload}")
    return payload


def _trie(ops_lists):
    root = {"op": None, "kids": {}, "ends": []}
    for idx, ops in enumerate(ops_lists):
        node = root
        for op in ops:
            node = node["kids"].setdefault(core.jdump(op), {"op": op, "kids": {}, "ends": []})
        node["ends"].append(idx)
    return root


def _all_ends(node):
    out = list(node["ends"])
    for kid in node["kids"].values():
        out += _all_ends(kid)
    return out


def _walk(st, node, order):
    """({case index: result}, number of ops executed) for the sub-trie below `node`."""
    res, nops = {}, 0
    if node["ends"]:

        def final():
            finish(st)
            return result(st)

        out = _forked(final)
        nops += 1
        for idx in node["ends"]:
            res[idx] = out
    for kid in node["kids"].values():

        def branch(kid=kid):
            if not apply(st, kid["op"], order):
                out = result(st)
                return {idx: out for idx in _all_ends(kid)}, 1
            if not kid["kids"]:  # leaf: this clone is discarded anyway, finish here
                finish(st)
                out = result(st)
                return {idx: out for idx in kid["ends"]}, 2
            sub, n = _walk(st, kid, order)
            return sub, n + 1

        sub, n = _forked(branch)
        res.update(sub)
        nops += n
    return res, nops


def execute_group(group):
    """group = {"pair", "variant", "order", "ops": [ops list, ...]} -> {"results": [...], "executed": n}."""
    st = start(group)
    res, nops = _walk(st, _trie(group["ops"]), group.get("order", "asc"))
    return {"results": [res[i] for i in range(len(group["ops"]))], "executed": nops}
