"""Fixture registry: one minimal, valid, fully populated instance per concrete class.

Interface (shared by C03, C10, C12, C20 - keep stable)

    FACTORIES          dict class-name -> fn(ws, parent=None) -> entity
                       one entry per concrete class of geoh5py.objects (31), geoh5py.groups
                       (22, incl. RootGroup which returns ws.root) and geoh5py.data (12), plus the
                       helper class "PropertyGroup".  `parent` is the group (objects / groups) or the
                       object (data, property group) to create the entity under; None = workspace
                       root, resp. a small Points object named "DataHost" (created on demand).
    build_all(ws, include_unreadable=False, only=None) -> dict name -> entity
                       creates one of each in `ws` (linked survey pairs are created once and
                       registered under both class names).  Classes in UNREADABLE are left out
                       unless asked for: a file containing them cannot be re-opened by geoh5py.
    concrete_classes() dict class-name -> class, discovered reflectively with inspect.getmembers
                       (concrete subclasses of ObjectBase / Group / Data; abstract bases, the type
                       classes, enums and other helpers are excluded).
    check_complete()   raises core.HarnessError when a concrete class has no factory (or a factory
                       names a class that no longer exists).
    PAIRS              {receiver class: (complement class, link attribute on the receiver)}
    UNREADABLE         {class name: reason}
    EXTRA              names in FACTORIES that are not entity classes ("PropertyGroup")
    reopen(ws, mode="r") -> Workspace   close `ws` (in-memory) and open its bytes again
    find(ws, entity)   the entity with the same uid in another workspace (property groups too)
    entity_types(entities) -> dict "ObjectType:Points" -> type  (distinct type objects of a fixture set)

All coordinates / values are small exact binary floats so that float32 storage is lossless.
Factories never use randomness; uid order is whatever uuid.uuid4 (world.py) yields.
"""

from __future__ import annotations

import inspect
import io

import numpy as np

from . import core

V4 = np.array([[0.0, 0.0, 0.0], [10.0, 0.0, 0.0], [10.0, 10.0, 0.0], [0.0, 10.0, 5.0]])
V6 = np.array([[0.0, 0.0, 0.0], [10.0, 0.0, 0.0], [20.0, 0.0, 0.0], [0.0, 50.0, 1.0], [10.0, 50.0, 1.0], [20.0, 50.0, 1.0]])
LOOPS = np.array(
    [[-1.0, -1.0, 0.0], [-1.0, 1.0, 0.0], [1.0, 1.0, 0.0], [1.0, -1.0, 0.0],
     [-1.0, 49.0, 0.0], [-1.0, 51.0, 0.0], [1.0, 51.0, 0.0], [1.0, 49.0, 0.0]]
)
LOOP_CELLS = np.array([[0, 1], [1, 2], [2, 3], [3, 0], [4, 5], [5, 6], [6, 7], [7, 4]], dtype="uint32")
COLOR_MAP = np.array([[0.0, 0, 0, 255, 255], [0.5, 0, 255, 0, 255], [1.0, 255, 0, 0, 255]])
OPTIONS = {"title": "fixture", "run_command": "app.driver", "threshold": {"label": "Threshold", "value": 1.5, "min": 0.0}, "flag": True}
PNG = np.array([[0, 60, 120], [180, 240, 30], [90, 150, 210], [10, 20, 250]], dtype="uint8")

UNREADABLE = {
    "UnknownData": "a file holding an UnknownData still cannot be opened by geoh5py: since 71bc550 Workspace.create_data "
    "picks UnknownData (no longer the abstract NumericData), but UnknownData.__init__(data_type, association, name, uid) "
    "does not accept the attributes read from the file (TypeError: unexpected keyword argument 'Allow delete')",
}
EXTRA = ("PropertyGroup",)
# receiver class -> (complement class, link attribute set on the receiver)
PAIRS = {
    "AirborneTEMReceivers": ("AirborneTEMTransmitters", "transmitters"),
    "AirborneFEMReceivers": ("AirborneFEMTransmitters", "transmitters"),
    "MovingLoopGroundTEMReceivers": ("MovingLoopGroundTEMTransmitters", "transmitters"),
    "MovingLoopGroundFEMReceivers": ("MovingLoopGroundFEMTransmitters", "transmitters"),
    "LargeLoopGroundTEMReceivers": ("LargeLoopGroundTEMTransmitters", "transmitters"),
    "LargeLoopGroundFEMReceivers": ("LargeLoopGroundFEMTransmitters", "transmitters"),
    "TipperReceivers": ("TipperBaseStations", "base_stations"),
    "PotentialElectrode": ("CurrentElectrode", "current_electrodes"),
}
_COMPLEMENT = {v[0]: k for k, v in PAIRS.items()}


# ---------------------------------------------------------------------------
# reflection
# ---------------------------------------------------------------------------
def concrete_classes() -> dict:
    import geoh5py.data as gdata
    import geoh5py.groups as ggroups
    import geoh5py.objects as gobjects
    from geoh5py.data import Data
    from geoh5py.groups import Group
    from geoh5py.objects import ObjectBase

    out = {}
    for mod, base in ((gobjects, ObjectBase), (ggroups, Group), (gdata, Data)):
        for name, cls in inspect.getmembers(mod, inspect.isclass):
            if issubclass(cls, base) and not inspect.isabstract(cls):
                out[name] = cls
    return out


def kind_of(name: str) -> str:
    """'object' | 'group' | 'data' | 'extra' for a FACTORIES key."""
    from geoh5py.data import Data
    from geoh5py.groups import Group

    cls = concrete_classes().get(name)
    if cls is None:
        return "extra"
    if issubclass(cls, Data):
        return "data"
    if issubclass(cls, Group):
        return "group"
    return "object"


def check_complete():
    classes = concrete_classes()
    missing = sorted(set(classes) - set(FACTORIES))
    stale = sorted(set(FACTORIES) - set(classes) - set(EXTRA))
    if missing or stale:
        raise core.HarnessError(
            f"fixture registry out of date: concrete classes without factory {missing}; factories without class {stale}"
        )
    return len(classes)


# ---------------------------------------------------------------------------
# helpers
# ---------------------------------------------------------------------------
def _cls(name):
    return concrete_classes()[name]


def _kw(parent, name):
    kw = {"name": name}
    if parent is not None:
        kw["parent"] = parent
    return kw


def _float_child(obj, n, association, name=None):
    """One FloatData child so that every object carries data of its natural association."""
    return obj.add_data({name or f"d_{obj.name}": {"values": np.arange(n, dtype=float) * 0.5 + 1.0, "association": association}})


def host(ws):
    """Small Points object that carries the data fixtures."""
    from geoh5py.objects import Points

    found = [e for e in ws.get_entity("DataHost") if isinstance(e, Points)]
    if found:
        return found[0]
    return Points.create(ws, vertices=V4.copy(), name="DataHost")


# ---------------------------------------------------------------------------
# objects
# ---------------------------------------------------------------------------
def _points_like(name):
    def make(ws, parent=None):
        obj = _cls(name).create(ws, vertices=V4.copy(), **_kw(parent, name))
        _float_child(obj, 4, "VERTEX")
        return obj

    return make


def _curve_like(name):
    def make(ws, parent=None):
        obj = _cls(name).create(ws, vertices=V4.copy(), cells=np.array([[0, 1], [1, 2], [2, 3]], dtype="uint32"), **_kw(parent, name))
        _float_child(obj, 3, "CELL")
        return obj

    return make


def _surface_like(name):
    def make(ws, parent=None):
        obj = _cls(name).create(ws, vertices=V4.copy(), cells=np.array([[0, 1, 2], [0, 2, 3]], dtype="uint32"), **_kw(parent, name))
        _float_child(obj, 2, "CELL")
        return obj

    return make


def make_grid2d(ws, parent=None):
    from geoh5py.objects import Grid2D

    obj = Grid2D.create(
        ws, origin=[1.0, 2.0, 3.0], u_cell_size=2.0, v_cell_size=4.0, u_count=3, v_count=2, rotation=30.0, dip=20.0, **_kw(parent, "Grid2D")
    )
    _float_child(obj, 6, "CELL")
    return obj


def make_block_model(ws, parent=None):
    from geoh5py.objects import BlockModel

    obj = BlockModel.create(
        ws,
        origin=[1.0, 2.0, 3.0],
        rotation=30.0,
        u_cell_delimiters=np.array([0.0, 1.0, 3.0]),
        v_cell_delimiters=np.array([0.0, 2.0, 4.0]),
        z_cell_delimiters=np.array([0.0, -1.0, -3.0]),
        **_kw(parent, "BlockModel"),
    )
    _float_child(obj, 8, "CELL")
    return obj


def make_octree(ws, parent=None):
    from geoh5py.objects import Octree

    cells = np.array([[i, j, k, 1] for k in range(2) for j in range(2) for i in range(2)], dtype="int32")
    obj = Octree.create(
        ws,
        origin=[1.0, 2.0, 3.0],
        rotation=30.0,
        u_count=2,
        v_count=2,
        w_count=2,
        u_cell_size=1.0,
        v_cell_size=2.0,
        w_cell_size=4.0,
        octree_cells=cells,
        **_kw(parent, "Octree"),
    )
    _float_child(obj, 8, "CELL")
    return obj


def make_drape_model(ws, parent=None):
    from geoh5py.objects import DrapeModel

    layers = np.array([[0, 0, -1.0], [0, 1, -2.0], [1, 0, -1.5], [1, 1, -3.0]])
    prisms = np.array([[0.0, 0.0, 0.0, 0, 2], [10.0, 0.0, 0.5, 2, 2]])
    obj = DrapeModel.create(ws, layers=layers, prisms=prisms, **_kw(parent, "DrapeModel"))
    _float_child(obj, 4, "CELL")
    return obj


def make_drillhole(ws, parent=None, name="Drillhole", collar=(0.0, 10.0, 10.0)):
    """Drillhole with surveys, depth-sampled and interval data.  Under a DrillholeGroup the
    library turns it into a concatenated drillhole (the same call works for both)."""
    from geoh5py.objects import Drillhole

    obj = Drillhole.create(
        ws,
        collar=np.array(collar),
        surveys=np.array([[0.0, 45.0, -90.0], [50.0, 45.0, -80.0], [100.0, 45.0, -75.0]]),
        cost=12,  # python ints on purpose: the first stored kind of a numeric scalar is an integer,
        end_of_hole=120,  # later assignments of fractional values must still be read back exactly
        planning="Ongoing",
        **_kw(parent, name),
    )
    obj.add_data(
        {
            "log": {"depth": np.array([0.0, 10.0, 20.0, 30.0]), "values": np.array([1.0, 2.0, 3.0, 4.0])},
            "assay": {"from-to": np.array([[0.0, 5.0], [5.0, 15.0], [15.0, 25.0]]), "values": np.array([0.5, 1.5, 2.5])},
        }
    )
    return obj


def make_geoimage(ws, parent=None):
    from geoh5py.objects import GeoImage

    obj = GeoImage.create(ws, image=PNG.copy(), **_kw(parent, "GeoImage"))
    obj.vertices = np.array([[0.0, 8.0, 0.0], [6.0, 8.0, 0.0], [6.0, 0.0, 0.0], [0.0, 0.0, 0.0]])
    return obj


def make_label(ws, parent=None):
    from geoh5py.objects import Label

    obj = Label.create(ws, **_kw(parent, "Label"))
    obj.metadata = {"note": "label"}
    return obj


def make_notype_object(ws, parent=None):
    from geoh5py.objects import NoTypeObject

    obj = NoTypeObject.create(ws, **_kw(parent, "NoTypeObject"))
    obj.add_data({"d_NoTypeObject": {"values": np.array([1.5]), "association": "OBJECT"}})
    return obj


def make_mt(ws, parent=None):
    from geoh5py.objects import MTReceivers

    obj = MTReceivers.create(ws, vertices=V4.copy(), **_kw(parent, "MTReceivers"))
    obj.channels = [1.0, 10.0]
    obj.add_components_data({"Zxx": {"1": {"values": np.arange(4.0)}, "10": {"values": np.arange(4.0) + 1.0}}})
    return obj


def _em_channels(obj):
    obj.channels = [1.0, 2.0]


def make_pair(ws, rx_name, parent=None):
    """(receiver-side entity, complement) linked both ways; the class decides the recipe."""
    tx_name, link = PAIRS[rx_name]
    rx_cls, tx_cls = _cls(rx_name), _cls(tx_name)
    if rx_name == "PotentialElectrode":
        parts = np.array([0, 0, 0, 1, 1, 1])
        tx = tx_cls.create(ws, vertices=V6.copy(), parts=parts, **_kw(parent, tx_name))
        tx.add_default_ab_cell_id()  # 4 current dipoles
        rx = rx_cls.create(ws, vertices=V6.copy(), cells=np.array([[1, 2], [0, 1], [4, 5]], dtype="uint32"), **_kw(parent, rx_name))
        rx.ab_cell_id = np.array([1, 2, 3], dtype="int32")
        rx.current_electrodes = tx
        _float_child(rx, 3, "CELL")
        return rx, tx
    if rx_name == "TipperReceivers":
        rx = rx_cls.create(ws, vertices=V4.copy(), **_kw(parent, rx_name))
        tx = tx_cls.create(ws, vertices=V4[:1].copy(), **_kw(parent, tx_name))
        rx.base_stations = tx
        _em_channels(rx)
        _float_child(rx, 4, "VERTEX")
        return rx, tx
    if rx_name.startswith("LargeLoop"):
        rx = rx_cls.create(ws, vertices=V6.copy(), **_kw(parent, rx_name))
        tx = tx_cls.create(ws, vertices=LOOPS.copy(), cells=LOOP_CELLS.copy(), **_kw(parent, tx_name))
        tx.tx_id_property = tx.parts + 1
        rx.tx_id_property = np.array([1, 1, 1, 2, 2, 2])
        rx.transmitters = tx
        _em_channels(rx)
        _float_child(rx, 6, "VERTEX")
        return rx, tx
    rx = rx_cls.create(ws, vertices=V4.copy(), **_kw(parent, rx_name))
    tx = tx_cls.create(ws, vertices=V4.copy() + 1.0, **_kw(parent, tx_name))
    rx.transmitters = tx
    _em_channels(rx)
    if hasattr(rx_cls, "loop_radius"):
        rx.loop_radius = 2.5
    if hasattr(rx_cls, "pitch"):
        rx.pitch = 1.5
        rx.yaw = 0.5
    if "TEM" in rx_name:
        rx.waveform = np.array([[0.0, 0.0], [1.0, 1.0], [2.0, 0.0]])
        rx.timing_mark = 1.0
    _float_child(rx, 4, "VERTEX")
    return rx, tx


def _rx_factory(rx_name):
    return lambda ws, parent=None: make_pair(ws, rx_name, parent)[0]


def _tx_factory(tx_name):
    return lambda ws, parent=None: make_pair(ws, _COMPLEMENT[tx_name], parent)[1]


# ---------------------------------------------------------------------------
# groups
# ---------------------------------------------------------------------------
def _plain_group(name):
    def make(ws, parent=None):
        grp = _cls(name).create(ws, **_kw(parent, name))
        grp.metadata = {"note": name}
        return grp

    return make


def make_custom_group(ws, parent=None):
    from geoh5py.groups import CustomGroup, GroupType

    group_type = GroupType(ws, name="Custom fixture type", description="custom")
    grp = CustomGroup(group_type, name="CustomGroup", parent=parent if parent is not None else ws.root)
    ws.save_entity(grp)
    grp.metadata = {"note": "CustomGroup"}
    return grp


def make_root(ws, parent=None):  # pylint: disable=unused-argument
    return ws.root


def _uijson_group(name):
    def make(ws, parent=None):
        import copy

        return _cls(name).create(ws, options=copy.deepcopy(OPTIONS), **_kw(parent, name))

    return make


def _drillhole_group(name):
    def make(ws, parent=None):
        grp = _cls(name).create(ws, **_kw(parent, name))
        make_drillhole(ws, grp, name=f"{name}_A", collar=(0.0, 10.0, 10.0))
        hole_b = make_drillhole(ws, grp, name=f"{name}_B", collar=(10.0, 10.0, 10.0))
        hole_b.add_data({"litho": {"from-to": np.array([[0.0, 5.0], [5.0, 15.0], [15.0, 25.0]]), "values": np.array(["a", "b", "c"]), "type": "TEXT"}})
        return grp

    return make


# ---------------------------------------------------------------------------
# data (attached to `parent` or to the shared DataHost Points object)
# ---------------------------------------------------------------------------
def _data_factory(name, **spec):
    def make(ws, parent=None):
        import copy

        obj = parent if parent is not None else host(ws)
        return obj.add_data({name: copy.deepcopy(spec)})

    return make


def make_comments(ws, parent=None):
    obj = parent if parent is not None else host(ws)
    obj.add_data(
        {
            "UserComments": {
                "values": [{"Author": "fixture", "Date": "2024-01-01T00:00:00", "Text": "first"}],
                "association": "OBJECT",
                "entity_type": {"primitive_type": "TEXT"},
            }
        }
    )
    return obj.comments


def make_filename(ws, parent=None):
    obj = parent if parent is not None else host(ws)
    return obj.add_file(b"\x00\x01fixture-bytes\xff", name="fixture.dat")


def make_visual_parameters(ws, parent=None):
    obj = parent if parent is not None else host(ws)
    viz = obj.visual_parameters or obj.add_default_visual_parameters()
    viz.colour = [255, 0, 16]
    return viz


def make_blob(ws, parent=None):
    from geoh5py.data import Data

    obj = parent if parent is not None else host(ws)
    return ws.create_entity(Data, entity={"parent": obj, "name": "BlobData", "association": "OBJECT"}, entity_type={"primitive_type": "BLOB", "name": "blob"})


def make_unknown(ws, parent=None):
    from geoh5py.data import DataAssociationEnum, DataType, UnknownData

    obj = parent if parent is not None else host(ws)
    dtype = DataType(ws, primitive_type="INVALID", name="unknown")
    data = UnknownData(dtype, association=DataAssociationEnum.OBJECT, name="UnknownData")
    data.parent = obj
    ws.save_entity(data)
    return data


def make_property_group(ws, parent=None):
    obj = parent if parent is not None else host(ws)
    n = obj.n_vertices
    d1, d2 = obj.add_data(
        {"pg_a": {"values": np.arange(n, dtype=float), "association": "VERTEX"}, "pg_b": {"values": np.arange(n, dtype=float) + 10.0, "association": "VERTEX"}}
    )
    return obj.add_data_to_group([d1, d2], "PropertyGroup")


# ---------------------------------------------------------------------------
FACTORIES = {
    # objects
    "Points": _points_like("Points"),
    "IntegratorPoints": _points_like("IntegratorPoints"),
    "Curve": _curve_like("Curve"),
    "AirborneMagnetics": _curve_like("AirborneMagnetics"),
    "Surface": _surface_like("Surface"),
    "NeighbourhoodSurface": _surface_like("NeighbourhoodSurface"),
    "Grid2D": make_grid2d,
    "BlockModel": make_block_model,
    "Octree": make_octree,
    "DrapeModel": make_drape_model,
    "Drillhole": make_drillhole,
    "GeoImage": make_geoimage,
    "Label": make_label,
    "NoTypeObject": make_notype_object,
    "MTReceivers": make_mt,
    # groups
    "RootGroup": make_root,
    "CustomGroup": make_custom_group,
    "UIJsonGroup": _uijson_group("UIJsonGroup"),
    "SimPEGGroup": _uijson_group("SimPEGGroup"),
    "DrillholeGroup": _drillhole_group("DrillholeGroup"),
    "IntegratorDrillholeGroup": _drillhole_group("IntegratorDrillholeGroup"),
    # data
    "FloatData": _data_factory(
        "FloatData",
        values=np.array([1.0, 2.5, np.nan, 4.0]),
        association="VERTEX",
        entity_type={"primitive_type": "FLOAT", "name": "float fixture", "description": "a float", "units": "m", "color_map": COLOR_MAP,
                     "number_of_bins": 16, "mapping": "linear", "hidden": False, "transparent_no_data": True},
    ),
    "IntegerData": _data_factory("IntegerData", values=np.array([1, 2, 3, 4], dtype="int32"), association="VERTEX",
                                 entity_type={"primitive_type": "INTEGER", "name": "int fixture"}),
    "BooleanData": _data_factory("BooleanData", values=np.array([True, False, True, True]), association="VERTEX",
                                 entity_type={"primitive_type": "BOOLEAN", "name": "bool fixture"}),
    "ReferencedData": _data_factory(
        "ReferencedData", values=np.array([1, 2, 0, 1], dtype="int32"), association="VERTEX",
        entity_type={"primitive_type": "REFERENCED", "name": "ref fixture", "value_map": {0: "Unknown", 1: "alpha", 2: "beta"}},
    ),
    "TextData": _data_factory("TextData", values=np.array(["a", "bb", "", "dddd"]), association="VERTEX",
                              entity_type={"primitive_type": "TEXT", "name": "text fixture"}),
    "DatetimeData": _data_factory(
        "DatetimeData", values=np.array(["2024-01-01T00:00:00", "2024-01-02T00:00:00", "", "2024-01-04T12:30:00"]), association="VERTEX",
        entity_type={"primitive_type": "DATETIME", "name": "datetime fixture"},
    ),
    "MultiTextData": _data_factory("MultiTextData", values="one;two", association="OBJECT",
                                   entity_type={"primitive_type": "MULTI_TEXT", "name": "multitext fixture"}),
    "CommentsData": make_comments,
    "FilenameData": make_filename,
    "VisualParameters": make_visual_parameters,
    "BlobData": make_blob,
    "UnknownData": make_unknown,
    # helper class
    "PropertyGroup": make_property_group,
}
for _rx, (_tx, _) in PAIRS.items():
    FACTORIES[_rx] = _rx_factory(_rx)
    FACTORIES[_tx] = _tx_factory(_tx)
for _name in (
    "AirborneGeophysics AirborneTheme ContainerGroup EarthModelsTheme GeochemistryMineralogyDataSet GeochemistryMineralogyTheme "
    "GeophysicsTheme GiftoolsGroup GroundTheme IntegratorGroup IntegratorProject NoTypeGroup ObservationPointsTheme QueryGroup "
    "RockPropertiesTheme SamplesTheme"
).split():
    FACTORIES[_name] = _plain_group(_name)


def build_all(ws, include_unreadable=False, only=None) -> dict:
    """One of each in `ws`; {class name: entity}.  `only`: iterable of names to restrict to
    (the complement of a linked survey class is always built with it)."""
    check_complete()
    want = list(FACTORIES) if only is None else list(only)
    out = {}
    for name in want:
        if name in out or (name in UNREADABLE and not include_unreadable and only is None):
            continue
        rx_name = name if name in PAIRS else _COMPLEMENT.get(name)
        if rx_name is not None:
            out[rx_name], out[PAIRS[rx_name][0]] = make_pair(ws, rx_name)
        else:
            out[name] = FACTORIES[name](ws)
    return out


def reopen(ws, mode="r"):
    """Close an in-memory workspace and open its bytes again (a new Workspace)."""
    from geoh5py.workspace import Workspace

    ws.close()
    return Workspace(io.BytesIO(ws.h5file.getvalue()), mode=mode)


def find(ws, entity):
    """The counterpart of `entity` (same uid) in workspace `ws`; None if absent."""
    from geoh5py.shared import EntityType

    if isinstance(entity, EntityType):
        return ws.find_type(entity.uid, type(entity))
    found = ws.get_entity(entity.uid)[0]
    if found is None and hasattr(entity, "properties"):  # property group: through its parent object
        parent = ws.get_entity(entity.parent.uid)[0]
        if parent is not None:
            parent.get_entity("")  # concatenated objects load their children lazily
            found = parent.get_property_group(entity.uid)[0]
    return found


def entity_types(entities) -> dict:
    """Distinct type objects of a set of entities: {"DataType:<name of one user>": type}."""
    out, seen = {}, set()
    for name, ent in entities.items():
        etype = getattr(ent, "entity_type", None)
        if etype is not None and id(etype) not in seen:
            seen.add(id(etype))
            out[f"{type(etype).__name__}:{name}"] = etype
    return out
