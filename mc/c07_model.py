"""C07 - pure-Python reference model, alphabet and oracle (never imports geoh5py).

State (JSON-able):

    {"focus": "o0",
     "objs": [{"name": "o0", "cls": "Curve", "verts": [[x, y, z], ...],
               "cells": [[i, j], ...] | None,
               "data": [{"name": "fv", "kind": "float", "assoc": "VERTEX", "vals": [...] | None}, ...]}]}

Every vertex has a unique coordinate triple and every data entry a unique tag (booleans
excepted), so the identity of a vertex / cell is trackable through the coordinates it has /
connects, whatever the library does to the order.

Special value markers inside `vals`:
    "ND"  the kind's no-data value (padding)          "*"  anything (masked-out entry of a
                                                           data-level masked copy; the statement
                                                           says nothing about it)
"""

from __future__ import annotations

import copy as _copy
import itertools

ND = "ND"
WILD = "*"
FLOAT_NDV = 1.175494351e-38
INTEGER_NDV = -2147483648

FAMILY = {"Points": "Points", "Curve": "CellObject", "Surface": "CellObject"}
KIND_OF_CLASS = {
    "FloatData": "float",
    "IntegerData": "integer",
    "ReferencedData": "referenced",
    "BooleanData": "boolean",
    "TextData": "text",
}
# data kinds of the design: float/VERTEX, int/CELL, referenced/VERTEX, boolean/CELL, text/VERTEX
KINDS = {
    "fv": ("float", "VERTEX"),
    "ic": ("integer", "CELL"),
    "rv": ("referenced", "VERTEX"),
    "bc": ("boolean", "CELL"),
    "tv": ("text", "VERTEX"),
}
KIND_ORDER = ("fv", "ic", "rv", "bc", "tv")

# --------------------------------------------------------------------------------------
# geometry catalogue (DESIGN §4 C07)
# --------------------------------------------------------------------------------------
GEOMS = {
    "P3": ("Points", 3, None),
    "Cchain": ("Curve", 4, [[0, 1], [1, 2], [2, 3]]),
    "Ctwo": ("Curve", 4, [[0, 1], [2, 3]]),
    "Clastun": ("Curve", 4, [[0, 1], [1, 2]]),
    "Cfirstun": ("Curve", 4, [[1, 2], [2, 3]]),
    "Cunord": ("Curve", 4, [[2, 3], [0, 1]]),
    "Cstar": ("Curve", 4, [[0, 1], [0, 2], [0, 3]]),
    "Cloop": ("Curve", 4, [[0, 1], [1, 2], [2, 3], [3, 0]]),  # closed: as many cells as vertices
    "Cmidun": ("Curve", 4, [[0, 1], [0, 3]]),  # vertex 2 (middle) used by no cell
    "Cauto": ("Curve", 4, "auto"),  # no cells given: the library derives the chain
    "Cparts": ("Curve", 4, "parts"),  # cells derived from parts [0, 0, 1, 1]
    "S1tri": ("Surface", 5, [[0, 1, 2]]),  # vertices 3, 4 unused
    "S2fan": ("Surface", 5, [[0, 1, 2], [1, 2, 3]]),  # last vertex unused
    "S2first": ("Surface", 5, [[1, 2, 3], [2, 3, 4]]),  # first vertex unused
    "S2bow": ("Surface", 5, [[0, 1, 2], [2, 3, 4]]),  # every vertex used, one shared
}


def coord(k):
    return [float(k + 1), 10.0 * (k + 1), 100.0 * (k + 1) + 0.5]


def geom_cells(name):
    cls, n, cells = GEOMS[name]
    if cells == "auto":
        return [[i, i + 1] for i in range(n - 1)]
    if cells == "parts":
        return [[0, 1], [2, 3]]
    return _copy.deepcopy(cells)


def tag(kind, k, gen=0):
    """k-th value of generation gen (0: scene, 1: set_values, 2: add_data)."""
    if kind == "float":
        return (100.5, 300.25, 500.75)[gen] + k
    if kind == "integer":
        return (200, 400, 600)[gen] + k
    if kind == "referenced":
        return (k + 1, 8 - k, (k + 3) % 8 + 1)[gen]  # keys 1..8 of the value map
    if kind == "boolean":
        return ((k % 3) == 0, (k % 2) == 1, (k % 2) == 0)[gen]
    if kind == "text":
        return ("t%d", "s%d", "a%d")[gen] % k
    raise KeyError(kind)


def initial_state(geom, dataset):
    cls, n, _ = GEOMS[geom]
    cells = geom_cells(geom) if cls != "Points" else None
    data = []
    for nm in dataset:
        if nm == "nv":  # a float/VERTEX data child without stored values
            data.append({"name": "nv", "kind": "float", "assoc": "VERTEX", "vals": None})
            continue
        kind, assoc = KINDS[nm]
        if assoc == "CELL" and cells is None:
            continue
        cnt = n if assoc == "VERTEX" else len(cells)
        data.append({"name": nm, "kind": kind, "assoc": assoc, "vals": [tag(kind, k) for k in range(cnt)]})
    obj = {"name": "o0", "cls": cls, "verts": [coord(k) for k in range(n)], "cells": cells, "data": data}
    return {"focus": "o0", "objs": [obj]}


def get_obj(state, name):
    for o in state["objs"]:
        if o["name"] == name:
            return o
    return None


def count(obj, assoc):
    if assoc == "VERTEX":
        return len(obj["verts"]) if obj["verts"] is not None else None
    if assoc == "CELL":
        return len(obj["cells"]) if obj["cells"] is not None else None
    return None


# --------------------------------------------------------------------------------------
# operations: the model's prediction
# --------------------------------------------------------------------------------------
def new_values(kind, variant, n, gen):
    k = {"short": n - 1, "equal": n, "long": n + 1}[variant]
    return [tag(kind, i, gen) for i in range(k)]


def apply(state, op):
    """-> (expect, new_state, features).  expect in {"ok", "refuse"}; for "refuse" the
    statement demands a raised exception only where it says so ("longer ones refused");
    new_state is the model's continuation state either way."""
    st = _copy.deepcopy(state)
    f = get_obj(st, st["focus"])
    code = op[0]
    feats = []
    if any(d["vals"] is None for d in f["data"]):
        feats.append("valueless-data")
    if code in ("rv", "rc"):
        idx = op[1]
        n = count(f, "VERTEX" if code == "rv" else "CELL")
        if n is None or any(i < 0 or i >= n for i in idx):
            feats.append("index-out-of-range")
            return "refuse-optional", st, feats
        gone = set(idx)
        if code == "rv":
            keepv = [i for i in range(n) if i not in gone]
            if f["cells"] is not None:
                touched = [any(v in gone for v in c) for c in f["cells"]]
                if not any(touched):
                    feats.append("no-cell-touched")
                keepc = [j for j, t in enumerate(touched) if not t]
            else:
                keepc = None
            if not keepv:
                feats.append("removes-all")
        else:
            keepv = None
            keepc = [j for j in range(n) if j not in gone]
            if not keepc:
                feats.append("removes-all")
        _restrict(f, keepv, keepc)
        return "ok", st, feats
    if code == "sv":
        d = f["data"][op[1]]
        n = count(f, d["assoc"])
        feats.append(f"{d['kind']}/{d['assoc']}")
        feats.append(op[2])
        if op[2] == "long":
            return "refuse", st, feats
        vals = new_values(d["kind"], op[2], n, 1)
        d["vals"] = vals + [ND] * (n - len(vals))
        return "ok", st, feats
    if code == "ad":
        kind, assoc = KINDS[op[1]]
        n = count(f, assoc)
        feats.append(f"{kind}/{assoc}")
        feats.append(op[2])
        name = f"n{len(f['data'])}"
        if op[2] == "long":
            return "refuse", st, feats
        if op[2] == "none":
            f["data"].append({"name": name, "kind": kind, "assoc": assoc, "vals": None})
            return "ok", st, feats
        vals = new_values(kind, op[2], n, 2)
        f["data"].append({"name": name, "kind": kind, "assoc": assoc, "vals": vals + [ND] * (n - len(vals))})
        return "ok", st, feats
    if code in ("cp", "cc"):
        new = _copy.deepcopy(f)
        new["name"] = f"o{len(st['objs'])}"
        if code == "cp":
            mask = op[1]
            keepv = [i for i, m in enumerate(mask) if m]
            keepc = None
            if f["cells"] is not None:
                keepc = [j for j, c in enumerate(f["cells"]) if all(mask[v] for v in c)]
            if not keepv:
                feats.append("keeps-none")
            if len(keepv) == len(mask):
                feats.append("keeps-all")
        else:
            keepv = None
            keepc = [j for j, m in enumerate(op[1]) if m]
        _restrict(new, keepv, keepc)
        st["objs"].append(new)
        st["focus"] = new["name"]
        return "ok", st, feats
    if code == "dc":
        d = f["data"][op[1]]
        n = count(f, d["assoc"])
        mask = dc_mask(op[2], n)
        feats.append(f"{d['kind']}/{d['assoc']}")
        feats.append(op[2])
        new = {"name": f"{d['name']}c{len(f['data'])}", "kind": d["kind"], "assoc": d["assoc"], "vals": None}
        if d["vals"] is not None:
            new["vals"] = [v if m else WILD for v, m in zip(d["vals"], mask)]
        f["data"].append(new)
        return "ok", st, feats
    if code == "ro":
        return "ok", st, feats
    raise KeyError(code)


def dc_mask(variant, n):
    if variant == "full":
        return [True] * n
    return [(i % 2) == 0 for i in range(n)]


def _restrict(obj, keepv, keepc):
    """Keep the listed vertices / cells (None = all), renumber cells, filter data."""
    if keepv is not None:
        new_id = {old: new for new, old in enumerate(keepv)}
        obj["verts"] = [obj["verts"][i] for i in keepv]
        if obj["cells"] is not None:
            if keepc is None:
                keepc = [j for j, c in enumerate(obj["cells"]) if all(v in new_id for v in c)]
            cells = [obj["cells"][j] for j in keepc]
            obj["cells"] = [[new_id[v] for v in c] for c in cells]
            cells_done = True
        else:
            cells_done = False
    else:
        cells_done = False
    if keepc is not None and not cells_done and obj["cells"] is not None:
        obj["cells"] = [obj["cells"][j] for j in keepc]
    for d in obj["data"]:
        if d["vals"] is None:
            continue
        if d["assoc"] == "VERTEX" and keepv is not None:
            d["vals"] = [d["vals"][i] for i in keepv]
        elif d["assoc"] == "CELL" and keepc is not None:
            d["vals"] = [d["vals"][j] for j in keepc]


# --------------------------------------------------------------------------------------
# alphabet (enumerated from the model state; every argument domain is complete or listed)
# --------------------------------------------------------------------------------------
def subsets(n, mode="full"):
    """Index lists for a removal, simplest first.
    full: every non-empty subset of range(n) + repeated [1,1] + unsorted [2,0] + out-of-range [n]
    lite: singletons, first+last, all-but-last, all-but-first, all, [1,1], [2,0]
    tiny: singletons, all-but-last"""
    out = []
    if mode == "full":
        for k in range(1, n + 1):
            out += [list(c) for c in itertools.combinations(range(n), k)]
    else:
        cand = [[i] for i in range(n)]
        if n >= 3 or (n == 2 and mode == "lite"):
            cand.append(list(range(n - 1)))
        if n >= 2 and mode == "lite":
            cand += [[0, n - 1], list(range(1, n)), list(range(n))]
        for c in cand:
            if c and c not in out:
                out.append(c)
    if mode != "tiny":
        if n >= 2:
            out.append([1, 1])
        if n >= 3:
            out.append([2, 0])
    if mode == "full":
        out.append([n])
    return out


def masks(n, lite=False):
    if lite:
        cand = [[True] * n, [i != 0 for i in range(n)], [i == 0 for i in range(n)], [(i % 2) == 0 for i in range(n)], [i != n - 1 for i in range(n)]]
        out = []
        for c in cand:
            if c not in out:
                out.append(c)
        return out
    return [list(m) for m in itertools.product([True, False], repeat=n)]


def enabled(state, ops_so_far, classes, caps):
    """Operations of the given classes enabled in `state` (upper-case class = complete
    argument domain, lower-case = the listed lite domain)."""
    f = get_obj(state, state["focus"])
    nv, nc = count(f, "VERTEX"), count(f, "CELL")
    used = {c: sum(1 for o in ops_so_far if o[0] in codes) for c, codes in (("copies", ("cp", "cc", "dc")), ("adds", ("ad",)), ("reopens", ("ro",)))}
    out = []
    for cl in classes:
        mode = "tiny" if cl.endswith("1") else ("lite" if cl.islower() else "full")
        lite = mode != "full"
        c = cl.rstrip("1").upper()
        if c == "RV" and nv:
            out += [["rv", s] for s in subsets(nv, mode)]
        elif c == "RC" and nc:
            out += [["rc", s] for s in subsets(nc, mode)]
        elif c == "SV":
            for j, d in enumerate(f["data"]):
                n = count(f, d["assoc"])
                if n is None:
                    continue
                for var in ("short", "equal", "long") if not lite else ("short", "long"):
                    if var == "short" and n == 0:
                        continue
                    out.append(["sv", j, var])
        elif c == "AD" and used["adds"] < caps["adds"] and len(f["data"]) < caps["data"]:
            for nm in KIND_ORDER:
                n = count(f, KINDS[nm][1])
                if n is None:
                    continue
                variants = ("equal", "short", "long", "none") if not lite else (("none", "long") if nm == "fv" else ())
                for var in variants:
                    if var == "short" and n == 0:
                        continue
                    out.append(["ad", nm, var])
        elif c == "CP" and used["copies"] < caps["copies"] and nv is not None and len(state["objs"]) < caps["objects"]:
            out += [["cp", m] for m in masks(nv, lite)]
        elif c == "CC" and used["copies"] < caps["copies"] and nc is not None and len(state["objs"]) < caps["objects"]:
            out += [["cc", m] for m in masks(nc, lite)]
        elif c == "DC" and used["copies"] < caps["copies"] and len(f["data"]) < caps["data"]:
            for j, d in enumerate(f["data"]):
                n = count(f, d["assoc"])
                if not n:
                    continue
                for var in ("part", "full"):
                    out.append(["dc", j, var])
        elif c == "RO" and used["reopens"] < caps["reopens"]:
            out.append(["ro"])
    return out


# --------------------------------------------------------------------------------------
# oracle
# --------------------------------------------------------------------------------------
def is_nodata(kind, v):
    if v == ND:
        return True
    if kind == "boolean":
        return v is False
    return False


def match(kind, expected, observed):
    if expected == WILD:
        return True
    if expected == ND:
        return is_nodata(kind, observed)
    if isinstance(expected, bool) or isinstance(observed, bool):
        return isinstance(expected, bool) and isinstance(observed, bool) and expected == observed
    return expected == observed


def vals_match(kind, exp, obs):
    if exp is None or obs is None:
        return exp is None and obs is None
    if not isinstance(obs, list) or len(exp) != len(obs):
        return False
    return all(match(kind, e, o) for e, o in zip(exp, obs))


def _ckey(obj, cell):
    """A cell as the (unordered) collection of coordinates it connects; None when it
    references a vertex that does not exist."""
    n = len(obj["verts"])
    if any((not isinstance(v, int)) or v < 0 or v >= n for v in cell):
        return None
    return tuple(sorted(tuple(obj["verts"][v]) for v in cell))


def invariants(obj):
    """The two state clauses of the statement on one observed object:
    -> list of (which, data-witness, detail)."""
    bad = []
    nv = count(obj, "VERTEX")
    if obj["cells"] is not None and nv is not None:
        wrong = [c for c in obj["cells"] if any(v < 0 or v >= nv for v in c)]
        if wrong:
            bad.append(("cells-reference-existing-vertices", "", {"object": obj["name"], "n_vertices": nv, "cells": wrong}))
    for d in obj["data"]:
        n = count(obj, d["assoc"])
        if d["assoc"] not in ("VERTEX", "CELL") or n is None:
            continue
        v = d["vals"]
        if v is None:
            continue  # no stored array: nothing that could be misaligned
        if isinstance(v, dict):
            if v.get("stored") is not None and v["stored"] != n:
                bad.append(("one-entry-per-element", f"{d['kind']}/{d['assoc']}", {"object": obj["name"], "data": d["name"], "entries": v["stored"],
                                                                                   "elements": n, "read_error": v.get("error")}))
            else:  # the stored array has the right length (or cannot be sized) but the API cannot read it
                bad.append(("one-entry-per-element", f"array with {'0' if n == 0 else 'n>0'} entries unreadable: {v.get('error')}",
                            {"object": obj["name"], "data": d["name"], "kind": d["kind"], "assoc": d["assoc"], "expected_entries": n}))
        elif len(v) != n:
            bad.append(("one-entry-per-element", f"{d['kind']}/{d['assoc']}", {"object": obj["name"], "data": d["name"], "entries": len(v), "elements": n}))
    return bad


def relation(exp, obs):
    """Observed object against the model's prediction, by identity (coordinates), never by
    position: -> list of (clause, data-witness, detail)."""
    bad = []
    ev = [tuple(v) for v in exp["verts"]]
    ov = [tuple(v) for v in (obs["verts"] or [])]
    if sorted(ev) != sorted(ov):
        bad.append(("surviving-vertices-exact", "", {"object": exp["name"], "expected": sorted(ev), "observed": sorted(ov)}))
    ec = oc = None
    if exp["cells"] is not None:
        ec = [_ckey(exp, c) for c in exp["cells"]]
        oc = [_ckey(obs, c) for c in (obs["cells"] or [])]
        if sorted(ec) != sorted(c for c in oc if c is not None) or None in oc:
            bad.append(("cells-connect-same-coordinates", "", {"object": exp["name"], "expected": sorted(ec), "observed": [c for c in oc]}))
    odata = {d["name"]: d for d in obs["data"]}
    for d in exp["data"]:
        o = odata.get(d["name"])
        wit = f"{d['kind']}/{d['assoc']}"
        if o is None:
            if d["vals"] is not None:  # a data child without stored values has nothing to lose
                bad.append(("keeps-its-value", wit, {"object": exp["name"], "data": d["name"], "problem": "data missing"}))
            continue
        if d["vals"] is None or isinstance(o["vals"], dict):
            if d["vals"] is None and o["vals"] is not None:
                bad.append(("keeps-its-value", wit, {"object": exp["name"], "data": d["name"], "expected": None, "observed": o["vals"]}))
            continue  # unreadable arrays are reported by the invariants
        if o["vals"] is None:
            if d["vals"]:  # an expected 0-entry array has no entry that could be lost
                bad.append(("keeps-its-value", wit, {"object": exp["name"], "data": d["name"], "expected": d["vals"], "observed": None}))
            continue
        if d["assoc"] == "VERTEX":
            ids_e, ids_o = ev, ov
        else:
            ids_e, ids_o = ec, oc
        if ids_e is None or ids_o is None:
            continue
        if len(o["vals"]) != len(ids_o):
            # not one entry per element: nothing can be matched by identity; show the prefix by position
            short = [(i, e, x) for i, (e, x) in enumerate(zip(d["vals"], o["vals"])) if not match(d["kind"], e, x)]
            bad.append(("LENGTH", wit, {"object": exp["name"], "data": d["name"], "entries": len(o["vals"]), "elements": len(ids_o),
                                        "expected": d["vals"], "observed": o["vals"], "first_mismatches": short[:3]}))
            continue
        emap = dict(zip(ids_e, d["vals"])) if len(ids_e) == len(d["vals"]) else {}
        # every element the observed object still has (and the model knows) keeps its value
        wrong = [(list(i), emap[i], x) for i, x in zip(ids_o, o["vals"]) if i in emap and not match(d["kind"], emap[i], x)]
        if wrong:
            bad.append(("keeps-its-value", wit, {"object": exp["name"], "data": d["name"], "mismatch(id, expected, observed)": wrong[:4]}))
    return bad


def same_state(model, obs):
    """Exact agreement (positions included) - decides whether exploration may continue on
    the model's state; never a clause."""
    if [o["name"] for o in model["objs"]] != [o["name"] for o in obs["objs"]]:
        return False
    for m, o in zip(model["objs"], obs["objs"]):
        if m["cls"] != o["cls"] or m["verts"] != o["verts"] or m["cells"] != o["cells"]:
            return False
        if [(d["name"], d["kind"], d["assoc"]) for d in m["data"]] != [(d["name"], d["kind"], d["assoc"]) for d in o["data"]]:
            return False
        for dm, do in zip(m["data"], o["data"]):
            if not vals_match(dm["kind"], dm["vals"], do["vals"]):
                return False
    return True


def adopt(obs, focus):
    """Observed (consistent) state as the model's continuation state after an operation
    that raised (the statement does not say 'unchanged')."""
    st = {"focus": focus, "objs": []}
    for o in obs["objs"]:
        st["objs"].append({"name": o["name"], "cls": o["cls"], "verts": _copy.deepcopy(o["verts"]), "cells": _copy.deepcopy(o["cells"]),
                           "data": [dict(d, vals=_copy.deepcopy(d["vals"])) for d in o["data"]]})
    return st


def opname(op):
    return {"rv": "remove_vertices", "rc": "remove_cells", "sv": "values=", "ad": "add_data", "cp": "copy(mask)", "cc": "copy(cell_mask)",
            "dc": "Data.copy(mask)", "ro": "reopen"}[op[0]]


def judge(before, op, expect, after_model, feats, raised, obs, stage):
    """All failing clauses of the statement for the last operation of a history.

    before       model state before the operation (== observed state, checked one level up)
    expect       "ok" | "refuse" | "refuse-optional"
    after_model  the model's prediction for success
    raised       None or the exception class name
    obs          observed state (live, or after the final close + re-open)
    stage        "live" | "reopen"
    """
    out = []
    f_before = get_obj(before, before["focus"])
    fam = FAMILY[f_before["cls"]]
    # removal / object copy code differs between Points and CellObject; data-level operations do not
    head = f"{fam}.{opname(op)}" if op[0] in ("rv", "rc", "cp", "cc", "ro") else opname(op)
    geo_feats = [x for x in feats if x in ("no-cell-touched", "removes-all", "keeps-none", "keeps-all", "index-out-of-range")]
    # witnesses carry the one input-shape feature the removal code branches on; the others
    # (removes-all, keeps-all, ...) go to the detail: they would split one defect over many signatures
    ftxt = "[no-cell-touched]" if "no-cell-touched" in geo_feats else ""
    pre = "" if stage == "live" else "after re-open: "

    # the two state clauses hold "always": after success, after failure, live and re-opened
    inv = []
    for o in obs["objs"]:
        inv += invariants(o)

    if raised is not None:
        if expect == "ok" and op[0] in ("sv", "ad") and op[2] == "short":
            out.append(("shorter-padded", f"{pre}{feats[-2]} array refused", {"raised": raised, "op": op}))
        keeps_something = len(op) > 1 and isinstance(op[1], (list, tuple)) and any(bool(x) for x in op[1])
        if expect == "ok" and op[0] in ("cp", "cc", "dc") and stage == "live" and keeps_something:
            # (a mask that keeps nothing, or an empty mask on an object without elements, may be
            # refused: the statement only asks that a failed operation leaves things consistent)
            # a masked copy with a well-formed boolean mask of the right length is not a legitimate refusal
            one = " [one-element mask]" if len(op[1]) == 1 else ""
            out.append(("masked-copy-yields-selection", f"{head} raised {raised}{one}", {"op": op, "input": geo_feats}))
        # "an operation that fails leaves geometry and data mutually consistent"
        detail = [dict(d, clause=c, what=w) for c, w, d in inv if "unreadable" not in w]
        # a cell that is still there must connect coordinates it connected before
        before_cells = {o["name"]: {_ckey(o, c) for c in (o["cells"] or [])} for o in before["objs"]}
        for o in obs["objs"]:
            if o["cells"] is None or o["name"] not in before_cells:
                continue
            moved = [c for c in o["cells"] if _ckey(o, c) is not None and _ckey(o, c) not in before_cells[o["name"]]]
            if moved:
                detail.append({"clause": "cells-connect-same-coordinates", "object": o["name"], "cells": moved,
                               "now_connect": [_ckey(o, c) for c in moved]})
        if detail:
            # witness: operation + exception class + the one input-shape feature the removal code branches on
            # (the others would only split one defect over many signatures)
            # ... + what is left inconsistent: the first data child (in child order) with a wrong length, else the cells
            first = next((x["what"] for x in detail if x.get("clause") == "one-entry-per-element"), "cells")
            out.append(("failed-operation-leaves-consistent", f"{pre}{head}{ftxt} raised {raised}: {first}", [{"input": geo_feats}] + detail[:4]))
        out += [(c, w, d) for c, w, d in inv if "unreadable" in w]
        return out

    if expect == "refuse":
        out.append(("longer-refused", f"{pre}{feats[-2]} array accepted", {"op": op}))
        # what the statement says about the state still applies; fall through on the model's
        # (unchanged) state for everything but the data that took the longer array
    rel = []
    omap = {o["name"]: o for o in obs["objs"]}
    for m in after_model["objs"]:
        o = omap.get(m["name"])
        if o is None:
            rel.append(("surviving-vertices-exact", "", {"object": m["name"], "problem": "object missing"}))
            continue
        rel += relation(m, o)
    special = None
    if op[0] in ("sv", "ad") and op[2] in ("short", "long"):
        special = {"short": "shorter-padded", "long": "longer-refused"}[op[2]]
    target = None
    if op[0] == "sv":
        target = f_before["data"][op[1]]["name"]
    elif op[0] == "ad":
        target = f"n{len(f_before['data'])}"
    def role(d):
        """For object copies the witness says whether the source or the copy is off."""
        if op[0] not in ("cp", "cc"):
            return ""
        return " the copy" if d.get("object") != before["focus"] else " source object"

    seen_len = set()
    for c, w, d in rel:
        if expect == "refuse" and d.get("object") == before["focus"] and d.get("data") == target:
            continue  # the data that took the longer array: reported once, as longer-refused
        if c == "LENGTH":
            seen_len.add((d["object"], d["data"]))
            on_target = d["object"] == before["focus"] and d["data"] == target
            if special == "shorter-padded" and on_target:
                out.append((special, f"{pre}{w} array not padded to the element count", dict(d, op=op)))
            elif special == "longer-refused" and on_target:
                pass  # already reported as accepted
            else:
                out.append(("one-entry-per-element", f"{pre}{head}{ftxt}{role(d)} {w}", d))
        elif c == "keeps-its-value" and special == "shorter-padded" and d.get("data") == target and d["object"] == before["focus"]:
            out.append((special, f"{pre}{w} array wrong padding or prefix", dict(d, op=op)))
        else:
            out.append((c, f"{pre}{head}{ftxt}{role(d)} {w}".rstrip(), d))
    for c, w, d in inv:
        if c == "one-entry-per-element" and (d["object"], d["data"]) in seen_len:
            continue
        if c == "one-entry-per-element" and expect == "refuse" and d["object"] == before["focus"] and d["data"] == target:
            continue  # the accepted longer array: already reported as longer-refused
        if "unreadable" in w:
            out.append((c, w, d))
        else:
            out.append((c, f"{pre}{head}{ftxt}{role(d)} {w}".rstrip(), d))
    # de-duplicate signatures within one execution
    uniq, res = set(), []
    for c, w, d in out:
        if (c, w) not in uniq:
            uniq.add((c, w))
            res.append((c, w, d))
    return res
