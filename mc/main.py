"""CLI: python -m mc.main <ID> [--tier quick|thorough] [--replay FILE]"""

from __future__ import annotations

import argparse
import os
import sys
import traceback

from . import core


def main(argv=None) -> int:
    argv = sys.argv[1:] if argv is None else argv
    if argv and argv[0] == "--selftest":
        return selftest()
    ap = argparse.ArgumentParser()
    ap.add_argument("prop")
    ap.add_argument("--tier", default=os.environ.get("VERIF_TIER", "quick"), choices=["quick", "thorough"])
    ap.add_argument("--replay")
    args = ap.parse_args(argv)
    prop = args.prop.upper()
    seed = int(os.environ.get("VERIF_SEED", "0") or 0)
    os.environ["VERIF_SEED"] = str(seed)

    if args.replay:
        return core.replay_file(prop, args.replay)

    from . import world

    world.install()
    ctx = core.Ctx(prop, args.tier, seed)
    mod = core.load_prop(prop)
    try:
        mod.run(ctx)
        rc = ctx.finish()
    except core.HarnessError as err:
        print(f"HARNESS-ERROR: {err}")
        rc = 2
    except Exception:  # pylint: disable=broad-except
        traceback.print_exc()
        print("HARNESS-ERROR: unexpected exception in the checker")
        rc = 2
    finally:
        core.close_pool()
        world.cleanup()
    return rc


def selftest() -> int:
    """Offline sanity check of the harness environment (used by MANIFEST.setup_cmd)."""
    from . import rawh5, treecheck, world

    world.install()
    ex, obs = treecheck.execute({"scene": "S1", "cfg": {}, "ops": [["rename", 1], ["reopen"]]})
    bad = rawh5.validate(obs["bytes"])
    print("selftest: geoh5py from", __import__("geoh5py").__file__, "validator findings:", bad)
    world.cleanup()
    return 0 if not bad else 2


if __name__ == "__main__":
    sys.exit(main())
