"""C10 - read-only workspaces never change the file: scenes, reflective alphabet, execution, oracle.

A *scene* is a geoh5 file on disk holding the fixture of one concrete class (mc.fixtures) plus a few
bystanders used as arguments (a ContainerGroup, a Points object with one FloatData child, a property
group), or the fixture of EVERY class (scene "ALL").  A *case* is (scene, medium, [op, ...]).

Every case is executed twice on the real library, from byte-identical copies of the scene file:

    RO run     Workspace(path, mode="r");   the ops;   close()
    twin run   Workspace(path2, mode="r+"); the same ops; close()        (only where it is needed)

Oracle clauses (each a sentence of the statement of C10):

    bytes-unchanged      SHA-256 of every file the read-only workspace is / was attached to (the source,
                         and the copy made by save_as) is the same after every op and after close().
    handle-stays-read-only
                         after every op the handle of the workspace is closed or has mode "r", no open HDF5
                         file id on a tracked path has write intent, and nothing opened a tracked path with
                         a mode other than "r" during the op (ops that are an explicit request for "r+" are
                         exempt from this clause, not from the others).
    must-raise           differential: an op that changed the twin's rawh5.digests (flushed file, before vs
                         after the op) "would have to write"; the same op on the read-only workspace must
                         have raised (any exception type).  Judged along the prefix of ops that returned
                         normally read-only (after a refused op the twin is a different program state).  The
                         final close() is an op like any other: what the twin persists only at close() is
                         charged to the read-only close(), which returned normally (witness "close-after:<op>").
    helper-leaves-source-unchanged
                         bytes-unchanged evaluated on the ops that are helpers opening the file on the
                         user's behalf (read_ui_json, path2workspace, monitored_directory_copy,
                         fetch_active_workspace, save_as) - same comparison, separate name so that the
                         signature says which sentence broke.
"""

from __future__ import annotations

import hashlib
import inspect
import io
import json
import os
import shutil
import tempfile
import uuid
from pathlib import Path

import h5py
import numpy as np

from . import core, domains, fixtures, rawh5, world

UID_NEW = uuid.UUID("cccccccc-0000-4000-8000-00000000000c")
EXTENT = np.array([[-1000.0, -1000.0, -1000.0], [1000.0, 1000.0, 1000.0]])
SKIP_SCENES = dict(fixtures.UNREADABLE)

# methods that only read (by name); everything else that is callable and public is a mutator candidate
GETTER_PREFIXES = (
    "get_", "find_", "fetch_", "list_", "validate_", "format_", "mask_by_extent", "reference_to_uid", "default_type_uid",
    "primitive_type", "str_from_type", "fix_up_name", "active", "convert_kwargs", "desurvey", "is_collocated", "collect_values",
    "find", "activate", "deactivate",
)
# fetch_or_create_root / find_or_create* create: not getters
NOT_GETTERS = ("fetch_or_create_root", "find_or_create", "find_or_create_type", "find_or_create_property_group")

# ---------------------------------------------------------------------------
# passive observer of h5py.File constructions (which path, which mode was asked, which was obtained)
# ---------------------------------------------------------------------------
OPENS: list = []
_ORIG_INIT = None


def _key(name):
    if isinstance(name, (str, Path)):
        try:
            return str(Path(name).resolve())
        except OSError:
            return str(name)
    if isinstance(name, bytes):
        return name.decode("utf-8", "replace")
    if isinstance(name, io.BytesIO):
        return f"bytesio:{id(name)}"
    return None


def install_observer():
    global _ORIG_INIT
    if _ORIG_INIT is not None:
        return
    _ORIG_INIT = h5py.File.__init__

    def recording_init(self, name, mode="r", *args, **kwargs):
        _ORIG_INIT(self, name, mode, *args, **kwargs)
        key = _key(name)
        if key is not None:
            try:
                got = self.mode
            except Exception:  # pylint: disable=broad-except
                got = "?"
            OPENS.append((key, mode, got))

    h5py.File.__init__ = recording_init


def open_write_intents(paths) -> list:
    """Open HDF5 file ids on one of `paths` whose intent is not read-only."""
    out = []
    try:
        ids = h5py.h5f.get_obj_ids(types=h5py.h5f.OBJ_FILE)
    except Exception:  # pylint: disable=broad-except
        return out
    for fid in ids:
        try:
            name = fid.name.decode("utf-8", "replace")
            intent = fid.get_intent()
        except Exception:  # pylint: disable=broad-except
            continue
        if intent != h5py.h5f.ACC_RDONLY and _key(name) in paths:
            out.append(name)
    return out


# ---------------------------------------------------------------------------
# emulation of the external h5repack tool (not installed here): a byte-different, content-identical copy
# ---------------------------------------------------------------------------
def _fake_repack(cmd, *args, **kwargs):
    import shlex
    import subprocess

    if isinstance(cmd, str) and cmd.startswith("h5repack"):
        parts = shlex.split(cmd)
        src, dst = parts[-2], parts[-1]
        with h5py.File(src, "r") as fin, h5py.File(dst, "w") as fout:
            for key in fin:
                fin.copy(key, fout, name=key)
            for k, v in fin.attrs.items():
                fout.attrs[k] = v
        return subprocess.CompletedProcess(cmd, 0)
    return world._REAL_RUN(cmd, *args, **kwargs)  # pylint: disable=protected-access


def install_repack():
    import subprocess

    import geoh5py.workspace.workspace as wsmod

    class _Sub:  # same shape as the proxy installed by mc.world, with a working h5repack
        DEVNULL = subprocess.DEVNULL
        CalledProcessError = subprocess.CalledProcessError
        run = staticmethod(_fake_repack)

    wsmod.subprocess = _Sub


# ---------------------------------------------------------------------------
# scenes
# ---------------------------------------------------------------------------
_SCENES: dict = {}


def scene_names() -> list:
    return [c for c in fixtures.FACTORIES if c not in SKIP_SCENES]


def build_scene(name: str) -> dict:
    """bytes of the scene file and the identifiers the ops refer to (deterministic)."""
    if name in _SCENES:
        return _SCENES[name]
    from geoh5py.groups import ContainerGroup
    from geoh5py.objects import ObjectBase, Points
    from geoh5py.workspace import Workspace

    world.reset()
    ws = Workspace()
    if name == "ALL":
        ents = fixtures.build_all(ws)
        main = ents["Points"]
    else:
        ents = fixtures.build_all(ws, only=[name])
        main = ents[name]
    other = ContainerGroup.create(ws, name="C10_Other")
    pts = Points.create(ws, vertices=fixtures.V4.copy(), name="C10_Pts")
    val = pts.add_data({"c10_val": {"values": np.array([1.0, 2.0, 3.0, 4.0])}})
    pts.add_data_to_group(val, "C10_PtsGroup")
    uids = {"main": main.uid, "other": other.uid, "pts": pts.uid, "val": val.uid, "pg": None, "child": None}
    if name != "ALL":
        _furnish(ws, main, uids)
    if name == "PropertyGroup":
        uids["pg"] = main.uid
    all_uids = {k: v.uid for k, v in ents.items()}
    ws.close()
    data = ws.h5file.getvalue()
    scene = {"name": name, "bytes": data, "uids": uids, "all": all_uids, "sha": hashlib.sha256(data).hexdigest()}
    _SCENES[name] = scene
    return scene


def _furnish(ws, main, uids):
    """Bystanders that make the argument tuples valid: a child for empty groups, a data child for bare
    objects, a property group and a free data set of the same association for objects without one."""
    from geoh5py.data import Data
    from geoh5py.groups import Group, RootGroup
    from geoh5py.objects import ObjectBase, Points

    concat = storage_tag(main) != "plain"
    if isinstance(main, Group) and not isinstance(main, RootGroup) and not concat and not main.children:
        Points.create(ws, vertices=fixtures.V4.copy(), name="C10_Kid", parent=main)
    if isinstance(main, ObjectBase) and not concat:
        if not [c for c in main.children if isinstance(c, Data)]:
            try:
                main.add_data({"c10_obj": {"values": np.array([1.5]), "association": "OBJECT"}})
            except Exception:  # pylint: disable=broad-except
                pass
        kids = [c for c in main.children if isinstance(c, Data) and getattr(c.association, "name", "") in ("VERTEX", "CELL") and hasattr(c, "values") and isinstance(c.values, np.ndarray)]
        if not main.property_groups and kids:
            main.add_data_to_group(kids[0], "C10_PG")
            try:
                main.add_data({"c10_free": {"values": np.arange(len(kids[0].values), dtype=float), "association": kids[0].association.name}})
            except Exception:  # pylint: disable=broad-except
                pass
        if main.property_groups:
            uids["pg"] = main.property_groups[0].uid
    if hasattr(main, "children") and not isinstance(main, RootGroup):
        kids = [c for c in main.children if hasattr(c, "entity_type")]
        if kids:
            uids["child"] = kids[0].uid


# ---------------------------------------------------------------------------
# environment of one run (resolution of targets and arguments at op time)
# ---------------------------------------------------------------------------
class Env:
    def __init__(self, scene, ws, path, workdir, tag):
        self.scene = scene
        self.ws = ws
        self.path = path  # the scene file this run started from
        self.workdir = workdir
        self.tag = tag  # "ro" | "rw"
        self.extra_ws: list = []
        self.counter = 0
        self.explicit_rw = False  # set while / after an op that explicitly asks for "r+"
        self.opens_mark = 0  # file openings recorded before this index belong to an explicit request for "r+"

    # -- entities -------------------------------------------------------------
    def ent(self, key):
        uid = self.scene["uids"].get(key)
        if uid is None:
            raise LookupError(f"scene has no '{key}'")
        found = self.ws.get_entity(uid)[0]
        if found is None and key == "pg":
            main = self.ent("main")
            found = main.get_property_group(uid)[0]
        if found is None:
            raise LookupError(f"'{key}' not found in the workspace")
        return found

    def holes(self):
        grp = self.ent("main")
        kids = [c for c in (self.ws.fetch_children(grp) or grp.children) if type(c).__name__.endswith("Drillhole")]
        return sorted(kids, key=lambda c: c.name)

    def target(self, t):  # noqa: C901
        if t == "ws":
            return self.ws
        if t == "self":
            return self.ent("main")
        if t == "type":
            return self.ent("main").entity_type
        if t == "pg":
            return self.ent("pg")
        if t == "type.color_map":
            return self.ent("main").entity_type.color_map
        if t == "type.value_map":
            return self.ent("main").entity_type.value_map
        if t.startswith("hole"):
            hole = self.holes()[0]
            if t == "hole":
                return hole
            if t == "hole.type":
                return hole.entity_type
            if t in ("hole.log", "hole.log.type"):
                data = [d for d in hole.get_data("log") if d is not None][0]
                return data.entity_type if t.endswith(".type") else data
            if t == "hole.pg":
                hole.get_data("log")
                return [p for p in hole.property_groups if p.name == "depth_0"][0]
        raise ValueError(t)

    def newpath(self, suffix=".geoh5"):
        self.counter += 1
        return self.workdir / f"{self.tag}_new{self.counter}_{self.workdir.name}{suffix}"

    def newdir(self):
        self.counter += 1
        d = self.workdir / f"{self.tag}_dir{self.counter}"
        d.mkdir(exist_ok=True)
        return d


def storage_tag(obj) -> str:
    names = [c.__name__ for c in type(obj).__mro__]
    if "Concatenator" in names:
        return "concatenator"
    if "Concatenated" in names or "ConcatenatedPropertyGroup" in names:
        return "concatenated"
    return "plain"


def owner_of(cls, member) -> str:
    for c in cls.__mro__:
        if member in c.__dict__:
            return c.__name__
    return cls.__name__


def is_getter_method(name: str) -> bool:
    if name in NOT_GETTERS or name.startswith("find_or_create"):
        return False
    return name.startswith(GETTER_PREFIXES)


# ---------------------------------------------------------------------------
# arguments
# ---------------------------------------------------------------------------
def _first_child(env, obj):
    kids = [c for c in getattr(obj, "children", []) if hasattr(c, "entity_type")]
    if not kids and storage_tag(obj) == "concatenated" and hasattr(obj, "get_data"):
        kids = [c for c in obj.get_data("log") if c is not None]  # concatenated children load lazily
    if not kids:
        raise LookupError("no child")
    return kids[0]


def _data_child(env, obj):
    from geoh5py.data import Data

    kids = [c for c in getattr(obj, "children", []) if isinstance(c, Data)]
    if not kids and storage_tag(obj) == "concatenated" and hasattr(obj, "get_data"):
        kids = [c for c in obj.get_data("log") if c is not None]
    if not kids:
        raise LookupError("no data child")
    return kids[0]


def _numeric_child(env, obj):
    from geoh5py.data import FloatData

    kids = [c for c in getattr(obj, "children", []) if isinstance(c, FloatData)]
    if not kids:
        raise LookupError("no float child")
    return kids[0]


def _pg_of(env, obj):
    pgs = getattr(obj, "property_groups", None)
    if not pgs:
        raise LookupError("no property group")
    return pgs[0]


def _new_data_spec(T):
    return {"c10_new": {"values": np.array([1.5]), "association": "OBJECT"}}


def _components(env, T):
    n = T.n_vertices
    chans = list(T.channels or [])
    return {"C10comp": {f"c10_{i}": {"values": np.arange(n, dtype=float) + i} for i, _ in enumerate(chans)}}


def _drillhole_data(T):
    return {"c10_new": {"depth": np.array([0.0, 10.0, 20.0, 30.0]), "values": np.array([4.0, 3.0, 2.0, 1.0])}}


def _copy_args(env, T):
    if _is_type(T):
        return (), {"name": "c10 type copy"}
    if _is_data(T):
        return (), {"parent": env.ent("pts")}
    return (), {"parent": env.ent("other")}


# name -> fn(env, T) -> (args, kwargs).  Keys "Owner.name" win over "name".
ARGS = {
    # ---- Entity / EntityContainer / ObjectBase / Group / Data -------------------------------------
    "copy": lambda env, T: _copy_args(env, T),
    "copy_from_extent": lambda env, T: ((EXTENT[:, :2] if _is_data(T) else EXTENT,), {"parent": env.ent("pts") if _is_data(T) else env.ent("other")}),
    "copy_complement": lambda env, T: ((T,), {"parent": env.ent("other")}),
    "create": lambda env, T: ((env.ws,), {"name": "c10_created"}),
    "fix_up_name": lambda env, T: (("a/b",), {}),
    "add_file": lambda env, T: ((b"c10-bytes",), {"name": "c10.dat"}),
    "get_entity": lambda env, T: (("C10_Pts" if T is env.ws else _first_child(env, T).name,), {}),
    "get_entity_list": lambda env, T: ((), {}),
    "reference_to_uid": lambda env, T: ((_first_child(env, T),), {}),
    "remove_children": lambda env, T: ((env.ent("pts"), [env.ent("val")]) if T is env.ws else ([_first_child(env, T)],), {}),
    "add_children": lambda env, T: (([env.ent("val")] if _is_object(T) else [env.ent("pts")],), {}),
    "add_comment": lambda env, T: (("a comment", "c10"), {}),
    "find_or_create_type": lambda env, T: ((env.ws,), {}),
    "mask_by_extent": lambda env, T: ((EXTENT[:, :2] if _is_data(T) else EXTENT,), {}),
    "add_data": lambda env, T: ((_new_data_spec(T),), {}),
    "Drillhole.add_data": lambda env, T: ((_drillhole_data(T),), {}),
    "add_data_to_group": lambda env, T: ((_data_child(env, T), "c10_group"), {}),
    "add_default_visual_parameters": lambda env, T: ((), {}),
    "create_property_group": lambda env, T: ((), {"name": "c10_pg_created"}),
    "find_or_create_property_group": lambda env, T: ((), {"name": "c10_pg_found"}),
    "get_data": lambda env, T: ((_data_child(env, T).name,), {}),
    "get_data_list": lambda env, T: ((), {}),
    "get_property_group": lambda env, T: ((_pg_of(env, T).name,), {}),
    "remove_children_values": lambda env, T: (([0], "VERTEX" if getattr(T, "n_cells", None) is None or _is_points_like(T) else "CELL"), {}),
    "remove_data_from_groups": lambda env, T: ((_pg_member(env, T),), {}),
    "remove_property_group": lambda env, T: ((_pg_of(env, T),), {}),
    "validate_data_association": lambda env, T: (({"association": "OBJECT", "values": np.array([1.0])},), {}),
    "remove_cells": lambda env, T: (([0],), {}),
    "remove_vertices": lambda env, T: (([0],), {}),
    "format_type": lambda env, T: ((np.array([1, 0, 1, 1]),), {}),
    "format_length": lambda env, T: ((np.array([1.0, 2.0]),), {}),
    "format_values": lambda env, T: ((np.array([1.0, 2.0, 3.0, 4.0]),), {}),
    "save_file": lambda env, T: ((), {"path": env.newdir()}),
    # ---- surveys --------------------------------------------------------------------------------------
    "fetch_metadata": lambda env, T: ((env.ent("main").uid,) if T is env.ws else ("pitch",), {}),
    "set_metadata": lambda env, T: (("pitch", 3.5), {}),
    "add_components_data": lambda env, T: ((_components(env, T),), {}),
    "add_validate_component_data": lambda env, T: (("C10comp2", _components(env, T)["C10comp"]), {}),
    "edit_em_metadata": lambda env, T: (({"Unit": T.default_units[0]},), {}),
    "edit_metadata": lambda env, T: (({"Note": "c10"},), {}),
    "add_default_ab_cell_id": lambda env, T: ((), {}),
    # ---- drillholes -------------------------------------------------------------------------------------
    "add_vertices": lambda env, T: ((np.array([[1.0, 2.0, 3.0]]),), {}),
    "format_survey_values": lambda env, T: ((np.array([[0.0, 10.0, -80.0], [20.0, 12.0, -70.0]]),), {}),
    "sort_depths": lambda env, T: ((), {}),
    "desurvey": lambda env, T: ((np.array([0.0, 10.0, 20.0]),), {}),
    "validate_data": lambda env, T: ((dict(_drillhole_data(T)["c10_new"], name="c10_v"),), {}),
    "validate_depth_data": lambda env, T: ((np.array([0.0, 10.0, 20.0, 30.0]), np.array([1.0, 2.0, 3.0, 4.0])), {}),
    "validate_interval_data": lambda env, T: ((np.array([[0.0, 5.0], [5.0, 15.0], [15.0, 25.0]]), np.array([1.0, 2.0, 3.0])), {}),
    # ---- images / grids ------------------------------------------------------------------------------------
    "georeference": lambda env, T: ((np.array([[0, 0], [3, 0], [3, 4]]), np.array([[0.0, 8.0, 0.0], [6.0, 8.0, 0.0], [6.0, 0.0, 0.0]])), {}),
    "georeferencing_from_image": lambda env, T: ((), {}),
    "georeferencing_from_tiff": lambda env, T: ((), {}),
    "GeoImage.save_as": lambda env, T: (("c10_image.png",), {"path": env.newdir()}),
    "set_tag_from_vertices": lambda env, T: ((), {}),
    "to_grid2d": lambda env, T: ((), {}),
    "to_geoimage": lambda env, T: (([_numeric_child(env, T).name],), {}),
    "base_refine": lambda env, T: ((), {}),
    # ---- types ---------------------------------------------------------------------------------------------
    "convert_kwargs": lambda env, T: (({"Name": "x"},), {}),
    "create_custom": lambda env, T: ((env.ws,), {"name": "c10 custom type"}),
    "EntityType.create": lambda env, T: ((env.ws,), {"name": "c10 created type"}),
    "find": lambda env, T: ((env.ws, T.uid), {}),
    "find_or_create": lambda env, T: ((env.ws,), {"name": "c10 found type"} if not _is_datatype(T) else {"name": "c10 found type", "primitive_type": "FLOAT"}),
    "for_x_data": lambda env, T: ((env.ws,), {}),
    "for_y_data": lambda env, T: ((env.ws,), {}),
    "for_z_data": lambda env, T: ((env.ws,), {}),
    "validate_data_type": lambda env, T: ((env.ws, {"values": np.array([1.0, 2.0])}), {}),
    # ---- property groups / visual parameters / ui.json groups -------------------------------------------------------
    "add_properties": lambda env, T: ((_other_data(env, T),), {}),
    "remove_properties": lambda env, T: ((T.properties[0],), {}),
    "get_tag": lambda env, T: (("Colour",), {}),
    "set_tag": lambda env, T: (("Colour", "255"), {}),
    "add_ui_json": lambda env, T: ((), {}),
    "is_collocated": lambda env, T: ((np.array([0.0, 10.0, 20.0, 30.0]), 0.01), {}),
    # ---- concatenator ---------------------------------------------------------------------------------------------
    "add_save_concatenated": lambda env, T: ((env.holes()[0],), {}),
    "delete_index_data": lambda env, T: (("log", 0), {}),
    "fetch_concatenated_data_index": lambda env, T: ((), {}),
    "fetch_concatenated_objects": lambda env, T: ((), {}),
    "fetch_index": lambda env, T: ((env.target("hole.log"), "log"), {}),
    "fetch_start_index": lambda env, T: ((env.target("hole.log"), "log"), {}),
    "Concatenator.fetch_values": lambda env, T: ((env.target("hole.log"), "log"), {}),
    "get_concatenated_attributes": lambda env, T: ((env.holes()[0].uid,), {}),
    "Concatenator.remove_entity": lambda env, T: ((env.target("hole.log"),), {}),
    "save_attribute": lambda env, T: (("Attributes",), {}),
    "update_array_attribute": lambda env, T: ((env.holes()[0], "surveys"), {}),
    "update_attributes": lambda env, T: ((env.holes()[0], "attributes"), {}),
    "update_concatenated_attributes": lambda env, T: ((env.holes()[0],), {}),
    "update_data_index": lambda env, T: ((), {}),
    # ---- Workspace -----------------------------------------------------------------------------------------------------
    "add_or_update_property_group": lambda env, T: ((_any_pg(env),), {}),
    "copy_property_groups": lambda env, T: ((env.ent("pts"), [_any_pg(env)], {u: u for u in (_any_pg(env).properties or [])}), {}),
    "copy_to_parent": lambda env, T: ((env.ent("main"), env.ent("other")), {}),
    "Workspace.create": lambda env, T: ((env.newpath(),), {}),
    "create_data": lambda env, T: ((_data_base(), {"name": "c10_cd", "parent": env.ent("pts"), "association": "OBJECT"}, {"primitive_type": "FLOAT", "name": "c10 cd type"}), {}),
    "create_entity": lambda env, T: ((_points_cls(),), {"entity": {"name": "c10_ce", "vertices": fixtures.V4.copy()}, "entity_type": {}}),
    "create_from_concatenation": lambda env, T: (({"Name": "c10_rec", "ID": str(UID_NEW), "Object Type ID": str(_points_cls().default_type_uid())},), {}),
    "create_object_or_group": lambda env, T: ((_points_cls(), {"name": "c10_coog", "vertices": fixtures.V4.copy(), "parent": env.ws.root}, {}), {}),
    "fetch_array_attribute": lambda env, T: ((env.ent("pts"), "vertices"), {}),
    "fetch_children": lambda env, T: ((env.ent("main"),), {}),
    "fetch_concatenated_attributes": lambda env, T: ((env.ent("main"),), {}),
    "fetch_concatenated_list": lambda env, T: ((env.ent("main"), "Attributes"), {}),
    "fetch_concatenated_values": lambda env, T: ((env.ent("main"), "log"), {}),
    "fetch_file_object": lambda env, T: ((env.ent("main").uid, getattr(env.ent("main"), "file_name", None) or "fixture.dat"), {}),
    "fetch_or_create_root": lambda env, T: ((), {}),
    "fetch_property_groups": lambda env, T: ((env.ent("pts"),), {}),
    "fetch_type": lambda env, T: ((env.ent("val").entity_type.uid, "Data"), {}),
    "fetch_values": lambda env, T: ((env.ent("val"),), {}),
    "find_data": lambda env, T: ((env.ent("val").uid,), {}),
    "find_entity": lambda env, T: ((env.ent("main").uid,), {}),
    "find_group": lambda env, T: ((env.ent("other").uid,), {}),
    "find_object": lambda env, T: ((env.ent("pts").uid,), {}),
    "find_property_group": lambda env, T: ((_any_pg(env).uid,), {}),
    "find_type": lambda env, T: ((env.ent("val").entity_type.uid, type(env.ent("val").entity_type)), {}),
    "load_entity": lambda env, T: ((env.ent("pts").uid, "object"), {}),
    "open": lambda env, T: ((), {}),
    "register": lambda env, T: ((env.ent("main"),), {}),
    "remove_entity": lambda env, T: ((env.ent("main"),), {}),
    "remove_none_referents": lambda env, T: ((env.ws._objects, "Objects"), {}),  # pylint: disable=protected-access
    "remove_recursively": lambda env, T: ((env.ent("main"),), {}),
    "save": lambda env, T: ((env.newpath(),), {}),
    "Workspace.save_as": lambda env, T: ((env.newpath(),), {}),
    "save_entity": lambda env, T: ((env.ent("main"),), {}),
    "save_entity_type": lambda env, T: ((env.ent("main").entity_type,), {}),
    "str_from_type": lambda env, T: ((env.ent("main"),), {}),
    "update_attribute": lambda env, T: ((env.ent("main"), "attributes"), {}),
}

# second argument tuples of a few entry points (variant 1)
ARGS_V1 = {
    "copy": lambda env, T: ((), {}),  # default parent: next to the source
    "remove_entity": lambda env, T: ((_any_pg(env),), {}),
    "update_attribute": lambda env, T: ((env.ent("main").entity_type, "attributes"), {}),
    "create_entity": lambda env, T: ((_points_cls(),), {"save_on_creation": False, "entity": {"name": "c10_ce_deferred", "vertices": fixtures.V4.copy()}, "entity_type": {}}),
    "open": lambda env, T: ((), {"mode": "r"}),
    "save_entity": lambda env, T: ((env.ent("pts"),), {"add_children": False}),
}


def _is_data(T):
    from geoh5py.data import Data

    return isinstance(T, Data)


def _is_type(T):
    from geoh5py.shared import EntityType

    return isinstance(T, EntityType)


def _is_datatype(T):
    from geoh5py.data import DataType

    return isinstance(T, DataType)


def _is_object(T):
    from geoh5py.objects import ObjectBase

    return isinstance(T, ObjectBase)


def _is_points_like(T):
    return getattr(T, "cells", None) is None


def _points_cls():
    from geoh5py.objects import Points

    return Points


def _data_base():
    from geoh5py.data import Data

    return Data


def _any_pg(env):
    main = env.ent("main")
    pgs = getattr(main, "property_groups", None)
    if pgs:
        return pgs[0]
    return env.ent("pts").property_groups[0]


def _pg_member(env, T):
    pg = _pg_of(env, T)
    return pg.properties[0]


def _other_data(env, T):
    """A data child of the parent of property group T that is not yet a member."""
    from geoh5py.data import Data

    members = set(T.properties or [])
    for c in T.parent.children:
        if isinstance(c, Data) and c.uid not in members and getattr(c.association, "name", "") == T.association.name:
            return c
    raise LookupError("no free data")


def arguments(env, T, member, variant):
    owner = owner_of(type(T), member)
    table = ARGS_V1 if variant == 1 else ARGS
    for key in (f"{owner}.{member}", f"{type(T).__name__}.{member}", member):
        if key in table:
            return table[key](env, T)
    for cls in type(T).__mro__:
        key = f"{cls.__name__}.{member}"
        if key in table:
            return table[key](env, T)
    if variant == 1:
        return arguments(env, T, member, 0)
    return None


def has_arguments(cls, member) -> bool:
    owner = owner_of(cls, member)
    if member in ARGS or f"{owner}.{member}" in ARGS:
        return True
    return any(f"{c.__name__}.{member}" in ARGS for c in cls.__mro__)


# own values for the setters mc.domains leaves out (domains.SKIP) ------------------------------------------------
def _setter_value(env, T, attr, variant):  # noqa: C901
    if attr not in domains.SKIP:
        try:
            vals = domains.values_for(T, attr)
            return vals[min(variant, len(vals) - 1)], "domain"
        except core.HarnessError:
            pass
    if attr == "uid":
        return UID_NEW, "own"
    if attr == "parent":
        if _is_data(T):
            return env.ent("pts"), "own"
        return env.ent("other"), "own"
    if attr == "on_file":
        return bool(T.on_file), "own"
    if attr == "repack":
        return True, "own"
    if attr == "workspace":
        return env.ws, "own"
    if attr == "h5file":
        return env.newpath(), "own"
    if attr == "depths":
        return np.array([0.0, 10.0, 20.0, 30.0]), "own"
    if attr == "ab_cell_id":
        return np.asarray(T.ab_cell_id.values).copy(), "own"
    if attr == "tx_id_property":
        return np.asarray(T.tx_id_property.values).copy(), "own"
    if attr == "properties":
        return list(T.properties or [])[:1], "own"
    if attr == "visual_parameters":
        return T.visual_parameters, "current"
    return getattr(T, attr), "current"


# ---------------------------------------------------------------------------
# reflective alphabet
# ---------------------------------------------------------------------------
TARGETS = {
    "DrillholeGroup": ["hole", "hole.type", "hole.log", "hole.log.type", "hole.pg"],
    "IntegratorDrillholeGroup": ["hole", "hole.log", "hole.pg"],
    "FloatData": ["type.color_map"],
    "ReferencedData": ["type.value_map"],
}


def target_names(scene_name, scene) -> list:
    if scene_name == "ALL":
        return ["ws"]
    out = ["ws", "self"]
    if scene_name != "PropertyGroup":
        out.append("type")
        if scene["uids"].get("pg") is not None:
            out.append("pg")
    return out + TARGETS.get(scene_name, [])


def describe(scene_name) -> dict:
    """Every op of the scene, found by reflection on the runtime class of each target."""
    from geoh5py.workspace import Workspace

    scene = build_scene(scene_name)
    world.reset("desc")
    ws = Workspace(io.BytesIO(scene["bytes"]), mode="r")
    env = Env(scene, ws, None, None, "describe")
    ops, missing = [], []
    for t in target_names(scene_name, scene):
        T = env.target(t)
        cls = type(T)
        tag = storage_tag(T)
        for name, member in inspect.getmembers(cls):
            if name.startswith("_"):
                continue
            owner = owner_of(cls, name)
            base = {"t": t, "m": name, "owner": owner, "cls": _stable_cls(cls), "storage": tag}
            if isinstance(member, property):
                ops.append(dict(base, k="get", v=0, role="getter"))
                if member.fset is not None:
                    ops.append(dict(base, k="set", v=0, role="mutator"))
                    none_at = _none_index(T, name)
                    if none_at:  # "reset to nothing" is a write path of its own (delete instead of write)
                        ops.append(dict(base, k="set", v=none_at, role="mutator"))
            elif callable(member):
                role = "getter" if is_getter_method(name) else "mutator"
                sig_required = _required_params(member)
                if has_arguments(cls, name) or not sig_required:
                    ops.append(dict(base, k="call", v=0, role=role))
                    if name in ARGS_V1:
                        ops.append(dict(base, k="call", v=1, role=role))
                else:
                    missing.append(f"{owner}.{name}{sig_required}")
    ws.close()
    return {"scene": scene_name, "ops": ops, "missing": missing}


def _none_index(T, attr) -> int:
    if attr in domains.SKIP:
        return 0
    try:
        vals = domains.values_for(T, attr)
    except Exception:  # pylint: disable=broad-except
        return 0
    for i, v in enumerate(vals):
        if v is None:
            return i
    return 0


def _stable_cls(cls) -> str:
    return cls.__name__


def _required_params(member) -> list:
    try:
        sig = inspect.signature(member)
    except (TypeError, ValueError):
        return []
    out = []
    for p in sig.parameters.values():
        if p.name in ("self", "cls"):
            continue
        if p.default is inspect.Parameter.empty and p.kind in (p.POSITIONAL_ONLY, p.POSITIONAL_OR_KEYWORD, p.KEYWORD_ONLY):
            out.append(p.name)
    return out


# helpers named in the statement / design: ops of kind "helper" ------------------------------------------------
HELPERS = {
    # name: (role, explicit request for r+?)
    "faw_r(rename)": ("mutator", False),
    "closed;faw_r(rename)": ("mutator", False),
    "faw_default(rename)": ("mutator", False),
    "faw_rplus(pass)": ("getter", True),
    "faw_rplus;open": ("getter", False),
    "close;open": ("getter", False),
    "open_again": ("getter", False),
    "close;open;rename": ("mutator", False),
    "path2workspace": ("getter", False),
    "closed;path2workspace;use": ("getter", False),
    "read_ui_json": ("getter", False),
    "closed;read_ui_json;use": ("getter", False),
    "input_file_data_setter": ("getter", False),
    "monitored_directory_copy": ("getter", False),
    "closed;monitored_directory_copy": ("getter", False),
    "save_as": ("getter", False),
    "save_as;rename": ("mutator", False),
    "second_handle_rplus(rename)": ("mutator", True),
    "repack;close": ("getter", False),
    "constructor_repack;close": ("getter", False),
    "context_manager(rename)": ("mutator", False),
    "active_workspace(rename)": ("mutator", False),
}
HELPER_SENTENCE = ("path2workspace", "read_ui_json", "monitored_directory_copy", "faw_", "closed;", "save_as", "input_file")


class OutsideQuantifier(Exception):
    """The op turned into something the statement does not speak about; recorded as 'raised' so that
    nothing after it is compared with the twin."""


def helper_ops() -> list:
    return [{"t": "ws", "k": "helper", "m": n, "v": 0, "owner": "helper", "cls": "helper", "storage": "plain", "role": r} for n, (r, _) in HELPERS.items()]


def _rename(env, ws=None):
    """The canonical mutation used inside helpers: rename the main entity of the scene."""
    ws = env.ws if ws is None else ws
    ent = ws.get_entity(env.scene["uids"]["main"])[0]
    if ent is None:
        raise LookupError("main entity not loaded")
    if ent is ws.root:  # the root group cannot be renamed meaningfully: use the bystander
        ent = ws.get_entity(env.scene["uids"]["pts"])[0]
    ent.name = "c10_renamed"


def _ui_json_file(env, with_object=True):
    from geoh5py.ui_json.constants import default_ui_json

    ui = json.loads(json.dumps(default_ui_json))
    ui["geoh5"] = str(env.ws.h5file)
    ui["title"] = "c10"
    if with_object:
        ui["object"] = {"label": "Object", "meshType": [], "value": "{" + str(env.scene["uids"]["pts"]) + "}", "main": True}
        ui["data"] = {
            "label": "Data", "parent": "object", "association": "Vertex", "dataType": "Float",
            "value": "{" + str(env.scene["uids"]["val"]) + "}", "main": True,
        }
    d = env.newdir()
    path = d / "c10.ui.json"
    path.write_text(json.dumps(ui))
    return path


def run_helper(env, name):  # noqa: C901  pylint: disable=too-many-branches,too-many-statements
    from geoh5py.shared.utils import fetch_active_workspace
    from geoh5py.ui_json import InputFile
    from geoh5py.ui_json.utils import monitored_directory_copy, path2workspace
    from geoh5py.workspace import Workspace, active_workspace

    ws = env.ws
    if name == "faw_r(rename)":
        with fetch_active_workspace(ws, mode="r"):
            _rename(env)
    elif name == "closed;faw_r(rename)":
        ws.close()
        with fetch_active_workspace(ws, mode="r"):
            _rename(env)
    elif name == "faw_default(rename)":
        ws.close()
        with fetch_active_workspace(ws):
            _rename(env)
    elif name == "faw_rplus(pass)":
        env.explicit_rw = True
        with fetch_active_workspace(ws, mode="r+"):
            pass
    elif name == "faw_rplus;open":
        env.explicit_rw = True
        try:
            with fetch_active_workspace(ws, mode="r+"):
                pass
        finally:
            env.explicit_rw = False
            env.opens_mark = len(OPENS)
        ws.open()
    elif name == "close;open":
        ws.close()
        ws.open()
    elif name == "open_again":
        ws.open()
    elif name == "close;open;rename":
        ws.close()
        ws.open()
        _rename(env)
    elif name in ("path2workspace", "closed;path2workspace;use"):
        if name.startswith("closed"):
            ws.close()
        w2 = path2workspace(str(ws.h5file))
        env.extra_ws.append(w2)
        if name.endswith("use"):
            w2.open()
            env.ws = w2
            env.extra_ws.append(ws)
    elif name in ("read_ui_json", "closed;read_ui_json;use"):
        path = _ui_json_file(env)
        if name.startswith("closed"):
            ws.close()
        ifile = InputFile.read_ui_json(path)
        w2 = ifile.geoh5
        env.extra_ws.append(w2)
        if name.endswith("use"):
            w2.open()
            env.ws = w2
            env.extra_ws.append(ws)
    elif name == "input_file_data_setter":
        path = _ui_json_file(env)
        ui = json.loads(path.read_text())
        ui["geoh5"] = ws
        ifile = InputFile(ui_json=ui)
        _ = ifile.data
    elif name == "monitored_directory_copy":
        monitored_directory_copy(str(env.newdir()), env.ent("pts"))
    elif name == "closed;monitored_directory_copy":
        ent = env.ent("pts")
        ws.close()
        monitored_directory_copy(str(env.newdir()), ent)
    elif name == "save_as":
        ws.save_as(env.newpath())
    elif name == "save_as;rename":
        ws.save_as(env.newpath())
        _rename(env)
    elif name == "second_handle_rplus(rename)":
        env.explicit_rw = True
        w2 = Workspace(ws.h5file, mode="r+")
        env.extra_ws.append(w2)
        if env.tag == "ro" and _handle_state(w2) != "r":
            # the read-only handle was closed by an earlier op: this is an ordinary read-write session the
            # user asked for (outside the quantifier) - nothing is done with it
            w2.close()
            raise OutsideQuantifier("read-write session on a file no read-only handle holds")
        _rename(env, w2)
    elif name == "repack;close":
        ws.repack = True
        ws.close()
    elif name == "constructor_repack;close":
        w2 = Workspace(ws.h5file, mode="r" if env.tag == "ro" else "r+", repack=True)
        env.extra_ws.append(w2)
        w2.close()
    elif name == "context_manager(rename)":
        with ws:
            _rename(env)
    elif name == "active_workspace(rename)":
        with active_workspace(ws):
            _rename(env)
    else:
        raise ValueError(name)


# ---------------------------------------------------------------------------
# execution
# ---------------------------------------------------------------------------
def apply_op(env, op):
    k = op["k"]
    if op.get("implicit"):  # the final close() of the case: every workspace the case created
        env.ws.close()
        for w in env.extra_ws:
            w.close()
        return
    if k == "helper":
        run_helper(env, op["m"])
        return
    T = env.target(op["t"])
    if k == "get":
        getattr(T, op["m"])
    elif k == "set":
        value, _ = _setter_value(env, T, op["m"], op.get("v", 0))
        setattr(T, op["m"], value)
    elif k == "call":
        got = arguments(env, T, op["m"], op.get("v", 0))
        args, kwargs = got if got is not None else ((), {})
        getattr(T, op["m"])(*args, **kwargs)
    else:
        raise ValueError(k)


def _sha(path) -> str:
    return hashlib.sha256(Path(path).read_bytes()).hexdigest()


def _handle_state(ws):
    h = ws._geoh5  # pylint: disable=protected-access
    if not h:
        return "closed"
    try:
        return h.mode
    except Exception:  # pylint: disable=broad-except
        return "closed"


def _attached(ws):
    f = ws.h5file
    return str(Path(f).resolve()) if isinstance(f, (str, Path)) else None


def _close_everything(env):
    for w in [env.ws] + env.extra_ws:
        try:
            w.close()
        except Exception:  # pylint: disable=broad-except
            pass
    try:
        for fid in h5py.h5f.get_obj_ids(types=h5py.h5f.OBJ_FILE):
            try:
                while fid.valid:
                    h5py.h5f.FileID.close(fid)
            except Exception:  # pylint: disable=broad-except
                break
    except Exception:  # pylint: disable=broad-except
        pass


def _light_state(env) -> str:
    ws = env.ws
    rows = []
    for reg in ("_groups", "_objects", "_data", "_property_groups"):
        for uid, ref in getattr(ws, reg).items():
            e = ref()
            if e is None:
                continue
            rows.append((reg, str(uid), str(getattr(e, "name", None)), bool(getattr(e, "on_file", False)), len(getattr(e, "children", []) or [])))
    return core.digest((env.scene["name"], _handle_state(ws), sorted(rows)))


def close_witness(prev) -> str:
    """Witness of something seen at the final close(): named after the op that preceded it."""
    if prev is None:
        return "close"
    return "close-after:" + witness(prev)


SESSIONS = ("r", "reopen_r", "fallback_r")


def open_read_only(path, session):
    """The ways of ending up with a read-only handle:
    "r"           Workspace(path, mode="r")
    "reopen_r"    Workspace(path) (default mode), close(), open(mode="r")
    "fallback_r"  Workspace(path) (default mode) while the file cannot be opened for writing: Workspace.open falls
                  back to "r" on OSError (the process runs as root, so a chmod would not bite; the OSError comes from
                  HDF5 refusing write access to a file another handle of the process holds read-only)."""
    from geoh5py.workspace import Workspace

    if session == "r":
        return Workspace(path, mode="r")
    if session == "reopen_r":
        ws = Workspace(path)
        ws.close()
        ws.open(mode="r")
    elif session == "fallback_r":
        holder = h5py.File(path, "r")
        ws = Workspace(path)
        ws._c10_holder = holder  # pylint: disable=protected-access
    else:
        raise ValueError(session)
    if _handle_state(ws) != "r":
        raise core.HarnessError(f"session {session} did not give a read-only handle")
    return ws


def run_ro(scene, ops, workdir, session="r") -> dict:
    """Read-only run: outcome of every op, the direct clauses after every op (the last op is the final close)."""
    path = workdir / f"ro_{workdir.name}.geoh5"
    path.write_bytes(scene["bytes"])
    world.reset("desc")  # the scene was built from the ascending stream: new identifiers never collide
    del OPENS[:]
    source = str(path.resolve())
    ws = open_read_only(path, session)
    tracked = {source: _sha(path)}  # baseline once the read-only session exists
    env = Env(scene, ws, path, workdir, "ro")
    env.opens_mark = len(OPENS)
    viol, outcomes, errors = [], [], []
    seen_opens = len(OPENS)

    def check(op, prev, idx):
        nonlocal seen_opens
        label = op_label(op)
        exempt = env.explicit_rw or (op["k"] == "helper" and HELPERS[op["m"]][1])
        wit = close_witness(prev) if op.get("implicit") else witness(op)
        for w in [env.ws] + env.extra_ws:  # files the workspaces are attached to now
            p = _attached(w)
            if p is not None and p not in tracked and Path(p).is_file():
                tracked[p] = _sha(p)
        for p, sha in tracked.items():
            now = _sha(p) if Path(p).is_file() else "<missing>"
            if now != sha:
                clause = "bytes-unchanged"
                if op["k"] == "helper" and any(s in op["m"] for s in HELPER_SENTENCE):
                    clause = "helper-leaves-source-unchanged"
                sem = _semantic_diff(scene, p) if now != "<missing>" else ["file removed"]
                kind = "content-changed" if sem else "rewritten-same-content"
                which = "the file opened read-only" if p == source else "the copy made by save_as"
                viol.append((clause, f"{wit}:{kind}", {"step": idx, "after": label, "file": which, "semantic_diff": sem}))
                tracked[p] = now  # report once per change
        new_opens = OPENS[max(seen_opens, env.opens_mark):]
        seen_opens = len(OPENS)
        if not exempt:
            for w in [env.ws] + env.extra_ws:
                st = _handle_state(w)
                if st not in ("closed", "r"):
                    viol.append(("handle-stays-read-only", wit, {"step": idx, "after": label, "mode": st}))
            bad = open_write_intents(set(tracked))
            if bad:
                viol.append(("handle-stays-read-only", wit, {"step": idx, "after": label, "open_with_write_intent": len(bad)}))
            for key, asked, got in new_opens:
                if key in tracked and got != "r":
                    viol.append(("handle-stays-read-only", wit, {"step": idx, "after": label, "opened": "the file opened read-only" if key == source else "the copy made by save_as", "asked": asked, "got": got}))

    state = None
    for idx, op in enumerate(ops):
        if op.get("implicit"):
            state = _light_state(env)
        try:
            apply_op(env, op)
            outcomes.append("ok")
            errors.append(None)
        except Exception as err:  # pylint: disable=broad-except
            outcomes.append("raised")
            errors.append(f"{type(err).__name__}: {str(err)[:160]}")
        check(op, ops[idx - 1] if idx else None, idx)
    _close_everything(env)
    return {"viol": viol, "outcomes": outcomes, "errors": errors, "state": state}


def _semantic_diff(scene, path) -> list:
    try:
        before = scene_digests(scene)
        after = rawh5.digests(Path(path).read_bytes())
        return sorted(str(k) + ":" + ",".join(sorted(v)) for k, v in rawh5.diff_digests(before, after).items())[:8]
    except Exception as err:  # pylint: disable=broad-except
        return [f"unreadable: {type(err).__name__}"]


def _twin_bytes(env):
    ws = env.ws
    h = ws._geoh5  # pylint: disable=protected-access
    if h:
        try:
            h.flush()
        except Exception:  # pylint: disable=broad-except
            pass
    f = ws.h5file
    if isinstance(f, io.BytesIO):
        return f.getvalue()
    return Path(f).read_bytes()


def scene_digests(scene):
    if "dig" not in scene:
        scene["dig"] = _dig(scene["bytes"])
    return scene["dig"]


_CASES = [0]


def _dig(data):
    try:
        return rawh5.digests(data)
    except Exception as err:  # pylint: disable=broad-except
        return {("unreadable",): {"err": type(err).__name__ + hashlib.sha256(data).hexdigest()[:8]}}


def run_twin(scene, ops, workdir) -> dict:
    """Read-write twin: which ops changed the semantic content of the file (and what close() added)."""
    from geoh5py.workspace import Workspace

    path = workdir / f"rw_{workdir.name}.geoh5"
    path.write_bytes(scene["bytes"])
    world.reset("desc")
    ws = Workspace(path, mode="r+")
    env = Env(scene, ws, path, workdir, "rw")
    prev_bytes = _twin_bytes(env)
    prev_dig = scene_digests(scene)
    wrote, outcomes, errors, diffs = [], [], [], []
    for op in ops:
        try:
            apply_op(env, op)
            outcomes.append("ok")
            errors.append(None)
        except Exception as err:  # pylint: disable=broad-except
            outcomes.append("raised")
            errors.append(f"{type(err).__name__}: {str(err)[:160]}")
        now = _twin_bytes(env)
        if now == prev_bytes:
            wrote.append(False)
            diffs.append([])
            continue
        now_dig = _dig(now)
        d = rawh5.diff_digests(prev_dig, now_dig)
        wrote.append(bool(d))
        diffs.append(sorted(str(k) + ":" + ",".join(sorted(v)) for k, v in d.items())[:6])
        prev_bytes, prev_dig = now, now_dig
    _close_everything(env)
    return {"wrote": wrote, "outcomes": outcomes, "errors": errors, "diffs": diffs}


def op_label(op) -> str:
    return f"{op['k']}:{op['t']}.{op['m']}" + (f"#{op['v']}" if op.get("v") else "")


def witness(op) -> str:
    if op["k"] == "helper":
        return f"helper:{op['m']}"
    v = f"#{op['v']}" if op.get("v") else ""
    return f"{op['k']}:{op['owner']}.{op['m']}{v}[{op['storage']}]"


CLOSE_OP = {"t": "ws", "k": "call", "m": "close", "v": 0, "owner": "Workspace", "cls": "Workspace", "storage": "plain", "role": "mutator", "implicit": True}


def run_case(case, need_twin="auto") -> dict:
    """One case = {"scene", "ops"}; the harness appends the final close() as one more op.

    must-raise is judged along the prefix of ops that returned normally in the read-only run (after a
    refused op the twin, in which that op succeeded, is no longer the same program state).
    need_twin: "always" - every op of that prefix is judged (and the twin always runs, for the evidence
    numbers); "auto" - only the last user op and the final close() are judged (earlier ops are judged by
    the cases in which they come last) and the twin is skipped when a user op raised read-only."""
    install_observer()
    install_repack()
    scene = build_scene(case["scene"])
    user_ops = case["ops"]
    ops = list(user_ops) + [CLOSE_OP]
    last = len(user_ops) - 1
    workdir = Path(tempfile.mkdtemp(prefix="c10_", dir=str(world.scratch())))
    try:
        ro = run_ro(scene, ops, workdir, case.get("session", "r"))
        viol = list(ro["viol"])
        twin = None
        if need_twin == "always" or all(o == "ok" for o in ro["outcomes"][: last + 1]):
            twin = run_twin(scene, ops, workdir)
            for i, op in enumerate(ops):
                if ro["outcomes"][i] != "ok":
                    break
                if not twin["wrote"][i] or (need_twin != "always" and i < last):
                    continue
                wit = close_witness(ops[i - 1] if i else None) if op.get("implicit") else witness(op)
                viol.append((
                    "must-raise", wit,
                    {"step": i, "op": op_label(op), "twin_changed": twin["diffs"][i], "read_only_outcome": "returned normally",
                     "twin_outcome": twin["outcomes"][i]},
                ))
        _CASES[0] += 1
        if _CASES[0] % 8 == 0:  # garbage of finished cases (the collector is disabled while a case runs)
            world.full_collect()
        return {
            "viol": [[c, w, d] for c, w, d in viol],
            "ro": ro["outcomes"], "ro_errors": ro["errors"], "state": ro["state"],
            "twin": None if twin is None else {"wrote": twin["wrote"], "outcomes": twin["outcomes"], "errors": twin["errors"]},
        }
    finally:
        shutil.rmtree(workdir, ignore_errors=True)
