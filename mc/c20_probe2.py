# standalone reproductions (plain geoh5py)
import io, numpy as np
from geoh5py.workspace import Workspace
from geoh5py.objects import (AirborneTEMReceivers, AirborneTEMTransmitters, AirborneFEMReceivers, AirborneFEMTransmitters,
    MovingLoopGroundTEMReceivers, MovingLoopGroundTEMTransmitters, TipperReceivers, TipperBaseStations)
V = np.array([[0., 0, 0], [10, 0, 0], [10, 10, 0], [0, 10, 5]])

def reopen(ws):
    ws.close(); return Workspace(io.BytesIO(ws.h5file.getvalue()), mode="r+")

# F1 copy shares the nested Waveform dict with its source
ws = Workspace()
rx = AirborneTEMReceivers.create(ws, vertices=V); tx = AirborneTEMTransmitters.create(ws, vertices=V + 1)
rx.transmitters = tx
rx.waveform = np.array([[0., 0.], [1., 1.], [2., 0.]]); rx.timing_mark = 1.0
cp = rx.copy()
cp.timing_mark = 7.0
print("F1 original timing mark after editing the COPY:", rx.timing_mark, tx.timing_mark, "(expected 1.0)")
ws2 = reopen(ws); print("   on file:", ws2.get_entity(rx.uid)[0].timing_mark)

# F2 masked copy of tipper receivers with a single base station
ws = Workspace()
rx = TipperReceivers.create(ws, vertices=V); base = TipperBaseStations.create(ws, vertices=V[:1])
rx.base_stations = base
n0 = len(ws.objects)
try:
    rx.copy(mask=np.array([True, True, False, False]))
except Exception as e:
    print("F2", type(e).__name__, e, "| objects before/after:", n0, len(ws.objects))
try:
    base.copy(mask=np.array([True]))
except Exception as e:
    print("F2b", type(e).__name__, e)

# F3 component list lost
ws = Workspace()
rx = AirborneFEMReceivers.create(ws, vertices=V); tx = AirborneFEMTransmitters.create(ws, vertices=V + 1)
rx.transmitters = tx; rx.channels = [1.0, 2.0]
rx.add_components_data({"Zxx": {"a": {"values": np.arange(4.)}, "b": {"values": np.arange(4.)}}})
ws = reopen(ws); rx, tx = ws.get_entity(rx.uid)[0], ws.get_entity(tx.uid)[0]
print("F3 before:", rx.metadata["EM Dataset"]["Property groups"], list(rx.components))
tx.channels = [3.0, 4.0]
print("F3 after edit through tx:", rx.metadata["EM Dataset"]["Property groups"], list(rx.components))
ws = reopen(ws); print("   on file:", ws.get_entity(rx.uid)[0].metadata["EM Dataset"]["Property groups"])

# F4 refused loop_radius = None is half applied
ws = Workspace()
rx = MovingLoopGroundTEMReceivers.create(ws, vertices=V); tx = MovingLoopGroundTEMTransmitters.create(ws, vertices=V + 1)
rx.transmitters = tx; rx.loop_radius = 2.5
try:
    rx.loop_radius = None
except KeyError as e:
    print("F4 KeyError", e, "| live:", rx.loop_radius, tx.loop_radius)
ws = reopen(ws); print("   on file:", ws.get_entity(rx.uid)[0].loop_radius)
