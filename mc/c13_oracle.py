"""C13 oracle: judges one executed step against the reference selection of c13_lib.

Every clause is a sentence of the property statement:

  selection-defined              "for any object and any 2-D or 3-D extent, selection is exact" (a refusal is no selection)
  inside-closed-box              points / cell centres selected precisely when inside the closed box (z ignored for 2 columns)
  cells-whole-with-their-vertices curves / surfaces keep precisely the cells whose vertices all qualify + the vertices they use
  inverse-is-complement          the inverse option applies the complementary test
  none-only-when-missed-or-empty nothing is returned only when the box misses the bounding box or no element qualifies
  copy-is-the-selection          copying by extent yields exactly that selection
  cells-reindexed-same-coordinates  cells re-indexed onto the same coordinates
  data-follow-elements           data entries follow their vertices or cells
  subgrid-of-source / subgrid-covers-selection / subgrid-is-smallest / selected-values-kept / values-outside-blanked
                                 2-D grids: smallest sub-grid covering the selected cells, values outside the box blanked
"""

from __future__ import annotations

import numpy as np

from .c13_lib import CELL_KINDS, CLASSNAME, cell_selection, inside, kind_of, misses_bbox, on_face, qualify, record

GRID_TOL = 1e-9


def nv(x):
    """Normalise one value for comparisons (NaN -> None, numpy scalars -> python)."""
    if isinstance(x, (np.floating, float)):
        x = float(x)
        return None if x != x else x
    if isinstance(x, (np.bool_, bool)):
        return bool(x)
    if isinstance(x, (np.integer, int)):
        return int(x)
    if isinstance(x, (np.str_, str, bytes)):
        return x.decode() if isinstance(x, bytes) else str(x)
    return repr(x)


def ms(items):
    return sorted(items, key=repr)


def pt(p):
    return tuple(float(v) for v in p)


def is_blank(val, ndv):
    v = nv(val)
    if ndv == "nan":
        return v is None
    return v == ndv


def where(rec, op, ext, inverse):
    return f"{CLASSNAME.get(rec['kind'], rec['kind'])}.{op} inverse={inverse}"


def raised_in(err):
    """Innermost geoh5py function on the traceback: names the failing code, not the scene."""
    site = "?"
    tb = err.__traceback__
    while tb is not None:
        code = tb.tb_frame.f_code
        if "geoh5py" in code.co_filename:
            site = f"{code.co_filename.rsplit('/', 1)[-1]}:{code.co_name}"
        tb = tb.tb_next
    return site


def _exc(rec, op, ext, inverse, err, extra=""):
    """One refusal = one signature: operation, exception type and the library function that raised."""
    return [("selection-defined", f"{op} raises {type(err).__name__} in {raised_in(err)}",
             {"error": repr(err)[:300], "object": CLASSNAME.get(rec["kind"], rec["kind"]), "ext": ext, "inverse": inverse,
              "data": sorted({d["cls"] + "/" + d["assoc"] for d in rec.get("data", {}).values()})})]


def dcls(d):
    """Data class named in a witness only when it is not plain numeric data."""
    return "" if d["cls"] in ("FloatData", "IntegerData") else d["cls"] + "/"


def wanted(rec, ext, inverse):
    """(per-element selection, per-cell selection or None, box misses bounding box)."""
    q = qualify(rec["coords"], ext, inverse)
    miss = misses_bbox(rec["coords"], ext)
    if rec["kind"] in CELL_KINDS:
        keep_c, keep_v = cell_selection(q, rec["cells"])
        return keep_v, keep_c, miss
    return q, None, miss


def none_allowed(rec, ext, inverse):
    """Literal reading: nothing may be returned only when the box misses the bounding box or no
    element qualifies.  A group returns something exactly when one of its members does."""
    if rec["kind"] == "group":
        return all(none_allowed(ch, ext, inverse) for ch in rec["children"])
    want, _, miss = wanted(rec, ext, inverse)
    return miss or not want.any()


# ---------------------------------------------------------------------------
def judge_mask(rec, ext, inverse, result, op="mask_by_extent", want=None, tag="", face_flag=True):
    w = where(rec, op, ext, inverse) + tag
    if isinstance(result, Exception):
        return _exc(rec, op, ext, inverse, result, tag)
    if want is None:
        want, _, _ = wanted(rec, ext, inverse)
    miss = misses_bbox(rec["coords"], ext)
    detail = {"ext": ext, "inverse": inverse, "expected": want.tolist()}
    if result is None:
        if not miss and want.any():
            return [("none-only-when-missed-or-empty", f"{w}: nothing returned although the box meets the bounding box and elements qualify", detail)]
        return []
    r = np.asarray(result)
    detail["returned"] = r.tolist()
    if r.dtype != bool or r.shape != want.shape:
        return [("inside-closed-box", f"{w}: result is not a boolean array with one entry per element", detail)]
    if bool((r == want).all()):
        return []
    extra, missing = r & ~want, want & ~r
    bad = np.where(extra | missing)[0]
    elem_coords = rec["coords"]
    face = face_flag and len(elem_coords) == len(r) and any(on_face(elem_coords, ext, i) for i in bad)
    what = "selects elements that do not qualify" if not missing.any() else (
        "omits qualifying elements" if not extra.any() else "selects wrong elements")
    if rec["kind"] in CELL_KINDS and op == "mask_by_extent":
        clause = "cells-whole-with-their-vertices"
    elif inverse:
        clause = "inverse-is-complement"
    else:
        clause = "inside-closed-box"
    return [(clause, f"{w}: {what}{' (element on a box face)' if face else ''}", detail)]


# ---------------------------------------------------------------------------
def _data_pairs(rec_src, sel_idx, rec_copy, assoc, key_src, key_copy, w):
    """Data entries follow their elements: multiset of (element key, value) must agree."""
    out = []
    for name, d in rec_src["data"].items():
        if d["assoc"] != assoc or not isinstance(d["values"], np.ndarray):
            continue
        if len(d["values"]) != len(key_src):
            continue  # source itself not aligned: not this property's business
        cd = rec_copy["data"].get(name)
        if cd is None or not isinstance(cd["values"], np.ndarray):
            out.append(("data-follow-elements", f"{w}: {dcls(d)}{assoc} data absent from the copy", {"data": name}))
            continue
        exp = ms([(key_src[i], nv(d["values"][i])) for i in sel_idx])
        if len(cd["values"]) != len(key_copy):
            out.append(("data-follow-elements", f"{w}: {dcls(d)}{assoc} data length differs from the copy's element count",
                        {"data": name, "n_values": len(cd["values"]), "n_elements": len(key_copy)}))
            continue
        got = ms([(key_copy[i], nv(cd["values"][i])) for i in range(len(key_copy))])
        if exp != got:
            out.append(("data-follow-elements", f"{w}: {dcls(d)}{assoc} values no longer sit on their elements",
                        {"data": name, "expected": exp, "got": got}))
    return out


def judge_copy(rec, ext, inverse, result):
    """`result` is the live entity returned by copy_from_extent, None, or the exception raised."""
    op = "copy_from_extent"
    w = where(rec, op, ext, inverse)
    kind = rec["kind"]
    if isinstance(result, Exception):
        return _exc(rec, op, ext, inverse, result)
    if result is None:
        if not none_allowed(rec, ext, inverse):
            return [("none-only-when-missed-or-empty", f"{w}: nothing returned although the box meets the bounding box and elements qualify",
                     {"ext": ext, "inverse": inverse})]
        return []
    if kind == "group":
        return _judge_group(rec, ext, inverse, result)
    if kind_of(result) != kind:
        return [("copy-is-the-selection", f"{w}: copy is of another class", {"got": type(result).__name__})]
    crec = record(result)
    want, keep_c, miss = wanted(rec, ext, inverse)
    detail = {"ext": ext, "inverse": inverse, "expected": want.tolist()}
    if kind == "drillhole":
        if not want[0]:
            return [("copy-is-the-selection", f"{w}: hole copied although its collar does not qualify", detail)]
        if pt(crec["coords"][0]) != pt(rec["coords"][0]):
            return [("copy-is-the-selection", f"{w}: collar moved", detail)]
        return []
    if kind in ("points",) + CELL_KINDS:
        return _judge_vertex_object(rec, crec, want, keep_c, w, detail)
    if kind == "grid2d":
        return _judge_grid2d(rec, crec, want, ext, inverse, w, detail)
    return _judge_grid(rec, crec, want, w, detail)


def _judge_vertex_object(rec, crec, want, keep_c, w, detail):
    out = []
    sel = [int(i) for i in np.where(want)[0]]
    src_pts = [pt(p) for p in rec["coords"]]
    cop_pts = [pt(p) for p in crec["coords"]]
    exp, got = ms([src_pts[i] for i in sel]), ms(cop_pts)
    if exp != got:
        what = "more" if len(got) > len(exp) else ("fewer" if len(got) < len(exp) else "other")
        detail = dict(detail, expected_vertices=exp, got_vertices=got)
        return [("copy-is-the-selection", f"{w}: copy has {what} vertices than the selection", detail)]
    out += _data_pairs(rec, sel, crec, "VERTEX", src_pts, cop_pts, w)
    if keep_c is not None:
        csel = [int(i) for i in np.where(keep_c)[0]]
        src_cells = [tuple(src_pts[i] for i in c) for c in rec["cells"]]
        ccells = crec["cells"]
        if ccells is None:
            ccells = np.zeros((0, 2), dtype=int)
        if len(ccells) and (ccells.max() >= len(cop_pts) or ccells.min() < 0):
            return out + [("cells-reindexed-same-coordinates", f"{w}: a cell of the copy points outside its vertices", detail)]
        cop_cells = [tuple(cop_pts[i] for i in c) for c in ccells]
        exp, got = ms([src_cells[i] for i in csel]), ms(cop_cells)
        if exp != got:
            if sorted(map(sorted, exp)) == sorted(map(sorted, got)) or len(exp) == len(got):
                clause, what = "cells-reindexed-same-coordinates", "cells of the copy connect other coordinates"
            else:
                clause, what = "copy-is-the-selection", ("copy has more cells than the selection" if len(got) > len(exp)
                                                        else "copy has fewer cells than the selection")
            return out + [(clause, f"{w}: {what}", dict(detail, expected_cells=exp, got_cells=got))]
        out += _data_pairs(rec, csel, crec, "CELL", src_cells, cop_cells, w)
    return out


def _judge_grid(rec, crec, want, w, detail):
    """BlockModel / Octree: the geometry cannot shrink, the selection shows as non-blank cell values."""
    if crec["coords"].shape != rec["coords"].shape or not np.array_equal(crec["coords"], rec["coords"]):
        return [("copy-is-the-selection", f"{w}: cell centres of the copy differ from the source", detail)]
    out = []
    for name, d in rec["data"].items():
        if d["assoc"] != "CELL" or not isinstance(d["values"], np.ndarray) or len(d["values"]) != len(want):
            continue
        cd = crec["data"].get(name)
        if cd is None or not isinstance(cd["values"], np.ndarray) or len(cd["values"]) != len(want):
            out.append(("data-follow-elements", f"{w}: {dcls(d)}CELL data absent from the copy or of another length", {"data": name}))
            continue
        lost = [i for i in range(len(want)) if want[i] and nv(cd["values"][i]) != nv(d["values"][i])]
        kept = [i for i in range(len(want)) if not want[i] and not is_blank(cd["values"][i], cd["ndv"])]
        if lost:
            out.append(("data-follow-elements", f"{w}: {dcls(d)}CELL value of a selected cell lost or changed",
                        dict(detail, data=name, cells=lost, got=[nv(v) for v in cd["values"]])))
        if kept:
            out.append(("copy-is-the-selection", f"{w}: {dcls(d)}CELL value kept at a cell that does not qualify",
                        dict(detail, data=name, cells=kept, got=[nv(v) for v in cd["values"]])))
    return out


def _match_centres(src, cop, tol):
    match = []
    for p in cop:
        d = np.abs(src - p).max(axis=1)
        j = int(np.argmin(d))
        match.append(j if d[j] <= tol else None)
    return match


def _judge_grid2d(rec, crec, want, ext, inverse, w, detail):
    src, cop = rec["coords"], crec["coords"]
    scale = max(1.0, float(np.abs(src).max()))
    tol = GRID_TOL * scale
    for key in ("du", "dv", "rot", "dip"):
        if crec[key] != rec[key]:
            return [("subgrid-of-source", f"{w}: cell size, rotation or dip of the copy differ from the source", dict(detail, attr=key))]
    if len(cop) != crec["nu"] * crec["nv"]:
        return [("subgrid-of-source", f"{w}: copy is not a u x v grid", detail)]
    match = _match_centres(src, cop, tol)
    if any(m is None for m in match) or len(set(match)) != len(match):
        return [("subgrid-of-source", f"{w}: a cell centre of the copy coincides with no cell centre of the source",
                 dict(detail, copy_centres=cop.tolist(), shape=[crec["nu"], crec["nv"]]))]
    sel = [int(i) for i in np.where(want)[0]]
    uncovered = [i for i in sel if i not in match]
    if uncovered:
        cols, rows = sorted({i % rec["nu"] for i in sel}), sorted({i // rec["nu"] for i in sel})
        gaps = (cols[-1] - cols[0] + 1 != len(cols)) or (rows[-1] - rows[0] + 1 != len(rows))
        how = "selection skips a column or row" if gaps else "selected columns and rows are adjacent"
        return [("subgrid-covers-selection", f"{w}: a selected cell is not part of the returned sub-grid ({how})",
                 dict(detail, uncovered=uncovered, shape=[crec["nu"], crec["nv"]]))]
    out = []
    if not inverse and sel:
        nu = rec["nu"]
        cols, rows = [i % nu for i in sel], [i // nu for i in sel]
        hull = (max(cols) - min(cols) + 1) * (max(rows) - min(rows) + 1)
        if len(cop) != hull:
            out.append(("subgrid-is-smallest", f"{w}: returned sub-grid is larger than the hull of the selected cells",
                        dict(detail, shape=[crec["nu"], crec["nv"]], hull_cells=hull)))
    for name, d in rec["data"].items():
        if d["assoc"] != "CELL" or not isinstance(d["values"], np.ndarray) or len(d["values"]) != len(src):
            continue
        cd = crec["data"].get(name)
        if cd is None or not isinstance(cd["values"], np.ndarray) or len(cd["values"]) != len(cop):
            out.append(("data-follow-elements", f"{w}: {dcls(d)}CELL data absent from the copy or not one value per cell", {"data": name}))
            continue
        lost, kept = [], []
        for ci, si in enumerate(match):
            if want[si]:
                if nv(cd["values"][ci]) != nv(d["values"][si]):
                    lost.append(si)
            elif not is_blank(cd["values"][ci], cd["ndv"]):
                kept.append(si)
        for lst, clause, text in ((lost, "selected-values-kept", "value of a selected cell blanked or changed"),
                                  (kept, "values-outside-blanked", "value kept at a cell that does not qualify")):
            if lst:
                face = any(on_face(src, ext, i, tol) for i in lst)
                out.append((clause, f"{w}: {dcls(d)}CELL {text} ({'centre on a box face' if face else 'centre off the faces'})",
                            dict(detail, data=name, source_cells=lst, got=[nv(v) for v in cd["values"]], shape=[crec["nu"], crec["nv"]])))
    return out


def _judge_group(rec, ext, inverse, result):
    from geoh5py.data import Data

    w = where(rec, "copy_from_extent", ext, inverse)
    out = []
    by_name = {}
    for ch in result.children:
        if isinstance(ch, Data):
            continue
        by_name.setdefault(ch.name, []).append(ch)
    names = {ch["name"] for ch in rec["children"]}
    for nm, lst in by_name.items():
        if nm not in names or len(lst) > 1:
            out.append(("copy-is-the-selection", f"{w}: group copy holds a member the source does not have (or twice)", {"member": nm}))
    for ch in rec["children"]:
        got = by_name.get(ch["name"], [None])[0]
        sub = judge_copy(ch, ext, inverse, got)
        out += [(c, wit, dict(d or {}, member_of_group=True)) for c, wit, d in sub]
    return out


# ---------------------------------------------------------------------------
def judge_data_mask(rec, name, ext, inverse, result):
    d = rec["data"][name]
    tag = f" of {dcls(d)}{d['assoc']}"
    q = qualify(rec["coords"], ext, inverse)
    if d["assoc"] == "CELL" and rec["cells"] is not None:
        want = np.array([all(q[i] for i in c) for c in rec["cells"]], dtype=bool)
        return judge_mask(rec, ext, inverse, result, op="data.mask_by_extent", want=want, tag=tag, face_flag=False)
    if isinstance(result, Exception):
        return _exc(rec, "data.mask_by_extent", ext, inverse, result, tag)
    if result is None:
        if q.any() and not misses_bbox(rec["coords"], ext):
            return [("none-only-when-missed-or-empty", f"{where(rec, 'data.mask_by_extent', ext, inverse)}{tag}: nothing returned although elements qualify", {"ext": ext})]
        return []
    return judge_mask(rec, ext, inverse, result, op="data.mask_by_extent", want=q, tag=tag)


def data_selection(rec, name, ext, inverse):
    d = rec["data"][name]
    q = qualify(rec["coords"], ext, inverse)
    if d["assoc"] == "CELL" and rec["cells"] is not None:
        return np.array([all(q[i] for i in c) for c in rec["cells"]], dtype=bool)
    return q


def judge_data_copy(rec, name, ext, inverse, result):
    """data.copy_from_extent onto the same parent: selected entries kept in place, the others no-data."""
    d = rec["data"][name]
    w = f"{where(rec, 'data.copy_from_extent', ext, inverse)} of {dcls(d)}{d['assoc']}"
    if isinstance(result, Exception):
        return _exc(rec, "data.copy_from_extent", ext, inverse, result)
    want = data_selection(rec, name, ext, inverse)
    if result is None:
        if want.any() and not misses_bbox(rec["coords"], ext):
            return [("none-only-when-missed-or-empty", f"{w}: nothing returned although elements qualify", {"ext": ext})]
        return []
    vals = getattr(result, "values", None)
    if not isinstance(vals, np.ndarray) or len(vals) != len(want):
        return [("data-follow-elements", f"{w}: copy does not hold one value per element", {"ext": ext})]
    ndv = "nan" if d["ndv"] == "nan" else d["ndv"]
    lost = [i for i in range(len(want)) if want[i] and nv(vals[i]) != nv(d["values"][i])]
    kept = [i for i in range(len(want)) if not want[i] and not is_blank(vals[i], ndv)]
    out = []
    detail = {"ext": ext, "inverse": inverse, "expected": want.tolist(), "got": [nv(v) for v in vals]}
    if lost:
        out.append(("data-follow-elements", f"{w}: value of a selected element lost or changed", detail))
    if kept:
        out.append(("copy-is-the-selection", f"{w}: value kept at an element that does not qualify", detail))
    return out
