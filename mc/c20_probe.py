import numpy as np, io
from mc import world, fixtures
world.install()
from geoh5py.workspace import Workspace
from geoh5py.objects import PotentialElectrode, CurrentElectrode, TipperReceivers, TipperBaseStations
ws = Workspace()
tx = CurrentElectrode.create(ws, vertices=fixtures.V6.copy(), parts=np.array([0,0,0,1,1,1])); tx.add_default_ab_cell_id()
try:
    PotentialElectrode.create(ws, vertices=fixtures.V6.copy(), current_electrodes=tx)
except KeyError as e: print("KeyError", e)
print("root children", [type(c).__name__ for c in ws.root.children], "objects", len(ws.objects), "tx md", tx.metadata)
ws.close(); ws2 = Workspace(io.BytesIO(ws.h5file.getvalue())); print("reopen objs", [type(o).__name__ for o in ws2.objects])
# tipper
ws = Workspace()
base = TipperBaseStations.create(ws, vertices=fixtures.V4[:1].copy())
rx = TipperReceivers.create(ws, vertices=fixtures.V4.copy(), base_stations=base)
print("live: rx.base_stations is base", rx.base_stations is base, rx.metadata["EM Dataset"]["Base stations"], base.metadata["EM Dataset"])
ws.close(); ws2 = Workspace(io.BytesIO(ws.h5file.getvalue()))
rx2 = ws2.get_entity(rx.uid)[0]; print("reopen: rx.base_stations", rx2.base_stations, rx2.metadata["EM Dataset"]["Base stations"])
