import sys, time
from mc import world
world.install()
from mc.props import c20
t=time.time()
cases, plan, cat = c20.enumerate_cases(sys.argv[1]=="q")
print(len(cases), time.time()-t)
import collections
print(collections.Counter(c["pair"]+"/"+c["variant"] for c in cases))
print(collections.Counter(len(c["ops"]) for c in cases))
