"""C15 fixtures: the two small workspaces, the form lattice (kind x switch configuration),
the value lattice per kind and the reference predicate.

Nothing here calls a validation routine of geoh5py: the library is only used to BUILD
entities (Workspace / Points / data / property groups).  The reference predicate is written
from docs/content/uijson_format/params.rst and the hierarchy documented for the switches
(group -> dependency -> optional); it reads the configuration, never the library's rule table.
"""

from __future__ import annotations

import io
import itertools
import uuid
from copy import deepcopy

import numpy as np

UNKNOWN_UID = uuid.UUID("deadbeef-0000-4000-8000-00000000c15c")
POINTS_TYPE = "{202c5db1-a56d-4004-9cad-baafd8899406}"
CONTAINER_TYPE = "{61fbb4e8-a480-11e3-8d5a-2776bdf4f982}"


# ---------------------------------------------------------------------------
# world
# ---------------------------------------------------------------------------
class Fix:
    """Two workspaces.  w1: Points A (data a1 a2 a3 i1, property groups pgV '3D vector' and
    pgM 'Multi-element'), Points B (data b1 b2 b3, groups pgBV '3D vector', pgBM), container
    group G1.  w2: Points C (data c1), container group G2."""

    def __init__(self, lazy: bool = False):
        from geoh5py import Workspace
        from geoh5py.groups import ContainerGroup
        from geoh5py.objects import Points

        from . import world

        world.reset("asc")
        xyz = np.arange(9.0).reshape(3, 3)
        w1 = Workspace()
        A = Points.create(w1, vertices=xyz, name="A")
        a = A.add_data({f"a{i}": {"values": np.arange(3.0) + i} for i in (1, 2, 3)})
        i1 = A.add_data({"i1": {"values": np.arange(3, dtype="int32"), "type": "integer"}})
        pgM = A.add_data_to_group([a[0], a[1]], "pgM")
        pgV = A.find_or_create_property_group(name="pgV", property_group_type="3D vector")
        A.add_data_to_group(list(a), pgV)
        B = Points.create(w1, vertices=xyz + 1, name="B")
        b = B.add_data({f"b{i}": {"values": np.arange(3.0) - i} for i in (1, 2, 3)})
        pgBV = B.find_or_create_property_group(name="pgBV", property_group_type="3D vector")
        B.add_data_to_group(list(b), pgBV)
        pgBM = B.add_data_to_group([b[0], b[1]], "pgBM")
        G1 = ContainerGroup.create(w1, name="G1")
        w2 = Workspace()
        C = Points.create(w2, vertices=xyz + 2, name="C")
        c1 = C.add_data({"c1": {"values": np.arange(3.0)}})
        G2 = ContainerGroup.create(w2, name="G2")
        ents = dict(A=A, a1=a[0], a2=a[1], a3=a[2], i1=i1, pgM=pgM, pgV=pgV, B=B, b1=b[0], pgBV=pgBV,
                    pgBM=pgBM, G1=G1, C=C, c1=c1, G2=G2)
        self.uid = {k: v.uid for k, v in ents.items()}
        self.pg_parent = {"pgM": "A", "pgV": "A", "pgBV": "B", "pgBM": "B"}
        self.w2 = w2
        self.lazy = lazy
        if lazy:
            # nothing loaded: every entity has to come from the file on first use
            w1.close()
            self.w1 = Workspace(io.BytesIO(w1.h5file.getvalue()), mode="r")
            self._ents = {k: v for k, v in ents.items() if k in ("C", "c1", "G2")}
        else:
            self.w1 = w1
            self._ents = ents
        self.names = {str(u): k for k, u in self.uid.items()}

    def ent(self, key):
        if key not in self._ents:
            if key in self.pg_parent:
                parent = self.ent(self.pg_parent[key])
                self._ents[key] = [p for p in parent.property_groups if p.uid == self.uid[key]][0]
            else:
                self._ents[key] = self.w1.get_entity(self.uid[key])[0]
        return self._ents[key]

    # symbolic value -> concrete value -------------------------------------------------
    def value(self, spec):
        """spec: JSON-able description of a value.
        ["lit", x] | ["none"] | ["ent", key] | ["uid", key] | ["str", key] | ["ws", 1|2] |
        ["unk-uid"] | ["unk-str"] | ["list", spec, ...]"""
        tag = spec[0]
        if tag == "none":
            return None
        if tag == "lit":
            return deepcopy(spec[1])
        if tag == "ent":
            return self.ent(spec[1])
        if tag == "uid":
            return self.uid[spec[1]]
        if tag == "str":
            return str(self.uid[spec[1]])
        if tag == "ws":
            return self.w1 if spec[1] == 1 else self.w2
        if tag == "unk-uid":
            return UNKNOWN_UID
        if tag == "unk-str":
            return str(UNKNOWN_UID)
        if tag == "list":
            return [self.value(s) for s in spec[1:]]
        raise ValueError(spec)

    # normalisation of observed values (never a uid: the entity's fixture name) ------------
    def norm(self, val):
        from geoh5py import Workspace
        from geoh5py.groups import PropertyGroup
        from geoh5py.shared import Entity

        if isinstance(val, dict):
            return {str(k): self.norm(v) for k, v in val.items()}
        if isinstance(val, (list, tuple)):
            return [self.norm(v) for v in val]
        if isinstance(val, Workspace):
            return "WS1" if val is self.w1 else ("WS2" if val is self.w2 else "WS?")
        if isinstance(val, PropertyGroup):
            return "PG:" + self.names.get(str(val.uid), "?")
        if isinstance(val, Entity):
            return "E:" + self.names.get(str(val.uid), "?")
        if isinstance(val, uuid.UUID):
            return "U:" + self.names.get(str(val), "unknown")
        if isinstance(val, str) and val.strip("{}") in self.names:
            return "S:" + self.names[val.strip("{}")]
        if isinstance(val, float) and val != val:
            return "nan"
        if isinstance(val, type):
            return "T:" + val.__name__
        if isinstance(val, (set, frozenset)):
            return sorted((self.norm(v) for v in val), key=repr)
        if val is None or isinstance(val, (bool, int, float, str)):
            return val
        return "R:" + type(val).__name__


# ---------------------------------------------------------------------------
# value lattice per form kind.  Each entry: (symbol, value spec, expected)
#   expected True  : satisfies every constraint the form declares  -> must be accepted
#   expected False : breaks the named constraint(s)                -> must be refused
# None is handled separately (its verdict is the switch rule).
# ---------------------------------------------------------------------------
def _reps(sym, key, expected):
    return [(f"{sym}-ent", ["ent", key], expected), (f"{sym}-uid", ["uid", key], expected),
            (f"{sym}-str", ["str", key], expected)]


BAD_UUID = ("malformed-uuid", ["lit", "not-a-uuid"], False)
KINDS: dict[str, dict] = {
    "float": dict(form={"value": 1.0}, typed_by_value=True, values=[
        ("valid", ["lit", 2.5], True), ("wrongtype-str", ["lit", "abc"], False),
        ("wrongtype-int", ["lit", 3], False), ("wrongtype-bool", ["lit", True], False)]),
    "integer": dict(form={"value": 1}, typed_by_value=True, values=[
        ("valid", ["lit", 7], True), ("wrongtype-float", ["lit", 2.5], False),
        ("wrongtype-str", ["lit", "abc"], False)]),
    "string": dict(form={"value": "s"}, typed_by_value=True, values=[
        ("valid", ["lit", "hello"], True), ("wrongtype-int", ["lit", 5], False),
        ("wrongtype-float", ["lit", 2.5], False)]),
    "bool": dict(form={"value": True}, typed_by_value=True, values=[
        ("valid", ["lit", False], True), ("wrongtype-int", ["lit", 1], False),
        ("wrongtype-str", ["lit", "yes"], False)]),
    "choice": dict(form={"value": "A", "choiceList": ["A", "B"]}, values=[
        ("valid", ["lit", "B"], True), ("not-in-choicelist", ["lit", "C"], False),
        ("wrongtype+not-in-choicelist", ["lit", 5], False)]),
    "choice_multi": dict(form={"value": ["A"], "choiceList": ["A", "B"], "multiSelect": True}, values=[
        ("valid-list", ["lit", ["A", "B"]], True), ("valid-single", ["lit", "B"], True),
        ("not-in-choicelist-list", ["lit", ["A", "C"]], False), ("not-in-choicelist", ["lit", "C"], False),
        ("wrongtype+not-in-choicelist", ["lit", 5], False)]),
    "file": dict(form={"value": "a.txt", "fileType": ["txt"], "fileDescription": ["text"]}, values=[
        ("valid", ["lit", "b.txt"], True), ("wrongtype-int", ["lit", 5], False)]),
    "object": dict(form={"value": ["uid", "A"], "meshType": [POINTS_TYPE]}, values=(
        _reps("valid", "A", True) + _reps("other-workspace", "C", False)
        + [("unknown-uid", ["unk-uid"], False), ("unknown-str", ["unk-str"], False), BAD_UUID,
           ("wrongtype-int", ["lit", 5], False), ("wrongtype-float", ["lit", 2.5], False)])),
    "group": dict(form={"value": ["uid", "G1"], "groupType": [CONTAINER_TYPE]}, values=(
        _reps("valid", "G1", True) + _reps("other-workspace", "G2", False)
        + [BAD_UUID, ("wrongtype-int", ["lit", 5], False)])),
    "data": dict(parent=True, form={"value": ["uid", "a1"], "parent": "object", "association": "Vertex",
                                    "dataType": "Float"}, values=(
        _reps("valid", "a2", True) + _reps("other-parent", "b1", False) + _reps("other-workspace", "c1", False)
        + [("unknown-uid", ["unk-uid"], False), BAD_UUID, ("wrongtype-int", ["lit", 5], False),
           ("wrongtype-propertygroup", ["ent", "pgM"], False)])),
    "pg": dict(parent=True, form={"value": ["uid", "pgV"], "parent": "object", "association": "Vertex",
                                  "dataType": "Float", "dataGroupType": "3D vector"}, values=(
        _reps("valid", "pgV", True) + _reps("wrong-pgtype", "pgM", False) + _reps("other-parent", "pgBV", False)
        + [("other-parent+wrong-pgtype-ent", ["ent", "pgBM"], False), BAD_UUID,
           ("wrongtype-int", ["lit", 5], False), ("wrongtype-data-entity", ["ent", "a1"], False)])),
    "datavalue": dict(parent=True, form={"value": 0.0, "isValue": True, "property": None, "parent": "object",
                                         "association": "Vertex", "dataType": "Float"}, values=(
        [("valid-float", ["lit", 2.5], True), ("valid-int", ["lit", 3], True)]
        + _reps("valid", "a2", True) + _reps("other-parent", "b1", False) + _reps("other-workspace", "c1", False)
        + [BAD_UUID, ("wrongtype-propertygroup", ["ent", "pgM"], False)])),
    "range": dict(parent=True, form={"value": [0.1, 0.9], "rangeLabel": "Values", "parent": "object",
                                     "property": ["uid", "a1"], "association": "Vertex", "dataType": "Float"},
                  values=[("valid", ["lit", [0.2, 0.8]], True), ("wrongtype-int", ["lit", 5], False),
                          ("wrongtype-str", ["lit", "abc"], False)]),
    "groupvalue": dict(form={"value": ["ch"], "groupType": [CONTAINER_TYPE], "groupValue": ["uid", "G1"],
                             "multiselect": True},
                       values=[("valid", ["lit", ["ch2"]], True), ("wrongtype-int", ["lit", 5], False)]),
}
ASSOCIATED = ("object", "group", "data", "pg", "datavalue")  # rule table names another parameter


# ---------------------------------------------------------------------------
# switch configurations
# ---------------------------------------------------------------------------
GROUP_MODES = ("none", "plain", "gfalse", "on", "off", "self")


def all_switch_configs():
    """Every combination of the switches that decide whether None is allowed:
    group membership / groupOptional / group enabled (6 modes) x dependency (none | controller with
    optional absent|true x enabled absent|true|false x value true|false x dependencyType
    enabled|disabled|absent) x optional present x
    enabled true|false|absent."""
    deps = [dict(dep="none", copt=False, cen=None, cval=None, dtype=None)]
    # the controlling parameter: a checkbox form, with every combination of its own members
    # optional absent|true x enabled absent|true|false x value true|false
    for copt, cen, cval, dtype in itertools.product((False, True), (None, True, False), (True, False),
                                                    ("enabled", "disabled", None)):
        deps.append(dict(dep="ctl", copt=copt, cen=cen, cval=cval, dtype=dtype))
    out = []
    for grp, dcfg, opt, en in itertools.product(GROUP_MODES, deps, (False, True), (None, True, False)):
        out.append(dict(grp=grp, opt=opt, en=en, **dcfg))
    return out


def cfg_key(cfg) -> str:
    tf = {None: "-", True: "T", False: "F"}
    d = "nodep" if cfg["dep"] == "none" else (
        f"ctl(opt={'T' if cfg['copt'] else '-'},en={tf[cfg['cen']]},val={tf[cfg['cval']]})/{cfg['dtype'] or 'default'}")
    return f"grp={cfg['grp']},{d},opt={'T' if cfg['opt'] else '-'},en={ {None: '-', True: 'T', False: 'F'}[cfg['en']] }"


def ref_requires(cfg):
    """(requires a value?, deciding level) - written from the documented hierarchy:
    groupOptional switch on top (unchecked group: nothing in it is required), then the dependency
    (unsatisfied: not required), then the parameter's own optional switch (enabled default true)."""
    enabled = cfg["en"] is not False
    if cfg["grp"] in ("on", "off", "self"):
        group_on = {"on": True, "off": False, "self": enabled}[cfg["grp"]]
        if not group_on:
            return False, "group-unchecked"
    if cfg["dep"] != "none":
        # "The dependency parameter should be optional or boolean (i.e., has a checkbox)": the
        # checkbox of an optional controller is its enabled state (default true), that of a plain
        # boolean controller is its value; other members of the controller play no part.
        checked = (cfg["cen"] is not False) if cfg["copt"] else bool(cfg["cval"])
        active = checked if (cfg["dtype"] or "enabled") == "enabled" else (not checked)
        if not active:
            return False, "dependency-unsatisfied"
        if cfg["opt"]:
            return enabled, "dependency-satisfied+optional-" + ("enabled" if enabled else "disabled")
        return True, "dependency-satisfied"
    if cfg["opt"]:
        return enabled, "optional-" + ("enabled" if enabled else "disabled")
    return True, "no-switch"


def cfg_of_form(ui_json: dict, name: str = "target"):
    """Read the switch configuration back from a (current) ui.json dictionary - used by the
    history part, where the library itself has edited the form in between."""
    form = ui_json[name]
    cfg = dict(grp="none", dep="none", copt=False, cen=None, cval=None, dtype=None, opt=bool(form.get("optional", False)),
               en=form.get("enabled", None))
    if "group" in form:
        members = [f for f in ui_json.values() if isinstance(f, dict) and f.get("group") == form["group"]]
        leaders = [f for f in members if "groupOptional" in f]
        if not leaders or not leaders[0]["groupOptional"]:
            cfg["grp"] = "plain"
        elif leaders[0] is form:
            cfg["grp"] = "self"
        else:
            cfg["grp"] = "on" if leaders[0].get("enabled", True) else "off"
    if "dependency" in form:
        dep = ui_json[form["dependency"]]
        cfg.update(dep="ctl", copt=bool(dep.get("optional", False)), cen=dep.get("enabled", None), cval=dep.get("value", None))
        cfg["dtype"] = form.get("dependencyType", None)
    return cfg


# ---------------------------------------------------------------------------
# ui.json builder
# ---------------------------------------------------------------------------
def build_ui_json(fix: Fix, kind: str, cfg: dict, target_value="__form__"):
    """ui.json dictionary for (kind, switches); returns (ui_json, data) where `data` is the flat
    data dictionary with valid values for every other parameter (entities promoted)."""
    from geoh5py.ui_json.constants import default_ui_json

    spec = KINDS[kind]
    uj = deepcopy(default_ui_json)
    uj["geoh5"] = fix.w1
    data = {k: (v["value"] if isinstance(v, dict) else v) for k, v in uj.items()}
    grp = cfg["grp"]
    if grp in ("plain", "gfalse", "on", "off"):
        leader = {"label": "leader", "value": "x", "group": "G"}
        if grp == "gfalse":
            leader.update({"groupOptional": False, "optional": True, "enabled": False})
        elif grp == "on":
            leader.update({"groupOptional": True, "enabled": True})
        elif grp == "off":
            leader.update({"groupOptional": True, "enabled": False})
        uj["leader"] = leader
        data["leader"] = "x"
    if cfg["dep"] != "none":
        ctl = {"label": "dep", "value": bool(cfg["cval"])}
        if cfg["copt"]:
            ctl["optional"] = True
        if cfg["cen"] is not None:
            ctl["enabled"] = cfg["cen"]
        uj["dep"] = ctl
        data["dep"] = bool(cfg["cval"])
    if spec.get("parent"):
        uj["object"] = {"label": "object", "value": fix.uid["A"], "meshType": [POINTS_TYPE]}
        data["object"] = fix.ent("A")
    form = {"label": "target"}
    for key, val in spec["form"].items():
        form[key] = fix.value(val) if isinstance(val, list) and val and val[0] in ("uid", "ent", "str") else deepcopy(val)
    if target_value != "__form__":
        form["value"] = target_value
    if grp != "none":
        form["group"] = "G"
    if grp == "self":
        form["groupOptional"] = True
    if cfg["dep"] != "none":
        form["dependency"] = "dep"
        if cfg["dtype"] is not None:
            form["dependencyType"] = cfg["dtype"]
    if cfg["opt"]:
        form["optional"] = True
    if cfg["en"] is not None:
        form["enabled"] = cfg["en"]
    uj["target"] = form
    data["target"] = None
    return uj, data


def switches(ui_json, names=("leader", "dep", "target")):
    """The members of the forms that take part in the None rule (to see whether the library
    edited them)."""
    keys = ("optional", "enabled", "group", "groupOptional", "dependency", "dependencyType")
    out = {}
    for n in names:
        if n in ui_json and isinstance(ui_json[n], dict):
            out[n] = {k: ui_json[n][k] for k in keys if k in ui_json[n]}
            if n == "dep":
                out[n]["value"] = ui_json[n].get("value")
    return out


# ---------------------------------------------------------------------------
# helpers shared by the parts
# ---------------------------------------------------------------------------
def clone(obj):
    """Copy the dict / list skeleton, keep leaves (entities, workspaces) by reference."""
    if isinstance(obj, dict):
        return {k: clone(v) for k, v in obj.items()}
    if isinstance(obj, list):
        return [clone(v) for v in obj]
    return obj


def outcome(fn):
    """('ok',) or ('refused', kind-of-exception) - any exception is a refusal; the class is kept
    only to tell a validation error from a crash (never judged)."""
    from geoh5py.shared.exceptions import BaseValidationError, JSONParameterValidationError

    try:
        fn()
    except (BaseValidationError, JSONParameterValidationError):
        return ("refused", "validation-error")
    except Exception as err:  # pylint: disable=broad-except
        return ("refused", "crash:" + type(err).__name__)
    return ("ok",)


def numified(value):
    """What InputFile.numify documents for a value stored in a form: '' -> None, uuid string -> UUID."""
    import uuid

    if isinstance(value, str):
        if value == "":
            return None
        try:
            return uuid.UUID(value)
        except ValueError:
            return value
    return value


