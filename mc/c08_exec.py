"""C08 - executor and oracle: run one case on the real library, observe (API live, raw
HDF5 through h5py only, API after a read-only re-open) and judge.

Oracle clauses (each a sentence of the property statement):

read-back-equal          "... values read back equal to what was written" - through the API
                         right after the accepted write (stage live) and after re-open (stage
                         reopen); NaN <-> NaN.
stored-as-written        the same on the raw dataset ("raw 'Data' dataset ... contents"):
                         numbers equal, text is the UTF-8 encoding, blob bytes identical,
                         JSON documents equal, value-map rows equal.
gap-uses-no-data-code    "NaN is stored as the format's float no-data code ..., integer gaps
                         use the integer no-data code" (raw), padding of short arrays included.
bool-stored-0-1          "booleans are stored as 0/1" (raw).
key0-unknown             "reference keys keep their labels with key 0 reserved for Unknown".
rejected-not-altered     "A value that cannot be represented in the stored type (...) is
                         rejected rather than silently altered": the call must raise.
refused-write-keeps-stored  after a call that raised, the file still reads back what was last
                         written successfully (first sentence, applied to the earlier write).
accepted-canonical       vacuity guard: the canonical input type of each kind is accepted.
ndv-reads-as-nan         "... and returns as NaN" for datasets of either float width.
"""

from __future__ import annotations

import io
import json
import math
import uuid

import h5py
import numpy as np

from . import core, world
from .c08_lattice import F32_NDV, FLOAT_NDV, INTEGER_NDV, N_GEOM, decode

UNKNOWN = "UNKNOWN"  # model value: nothing can be said any more (after an unjudgeable acceptance)
ABSENT = "ABSENT"  # no entity
NOVALUE = "NOVALUE"  # entity without values

TYPE = {"float": "float", "int": "integer", "bool": "boolean", "ref": "referenced", "text": "text"}
BOOL_MAP = {0: "False", 1: "True"}
I32 = (-(2**31), 2**31 - 1)


# ---------------------------------------------------------------------------
# representable(kind, value): written from the statement, independent of the library
# ---------------------------------------------------------------------------
def _ok(expected, canonical=False, mask=(), alt32=False, n_written=None):
    return {"status": "ok", "expected": expected, "canonical": canonical, "mask": sorted(mask), "alt32": alt32, "n_written": n_written}


def _bad(reason):
    return {"status": "bad", "reason": reason}


FREE = {"status": "free"}  # the statement does not say whether this input is a supported type


def _has_surrogate(s: str) -> bool:
    return any(0xD800 <= ord(ch) <= 0xDFFF for ch in s)


def judge_num(kind, path, val, n=N_GEOM):
    if val["t"] == "py":
        w = val["what"]
        if w in ("strarr", "objarr", "datetime", "str"):
            return _bad("unsupported-type")
        if w in ("strided", "bigendian"):
            exp = {"float": [1.0, 0.0], "int": [1, 0], "ref": [1, 0], "bool": [1, 0]}[kind]
            return _ok(exp, alt32=(path == "concat" and kind == "float"))
        return FREE  # list, scalar, object array of numbers
    a = decode(val)
    dt = a.dtype
    flat = a.ravel().tolist()  # exact python values (int / float / bool / complex)
    if len(flat) > n:
        return _bad("too-many-entries")
    if dt.kind == "c":
        if any(z.imag != 0 for z in flat):
            return _bad("complex-with-imaginary-part")
        flat = [z.real for z in flat]
    canonical = a.ndim == 1 and len(flat) == n and str(dt) == {"float": "float64", "int": "int32", "ref": "int32", "bool": "bool"}[kind]
    mask = set()
    if kind == "float":
        exp = []
        for i, x in enumerate(flat):
            x = float(x)  # IEEE round-to-nearest for wide integers: the documented coercion to float64
            if math.isnan(x):
                exp.append(None)
                continue
            exp.append(x)
            if path == "concat":
                with np.errstate(all="ignore"):
                    if float(np.float32(x)) == F32_NDV:
                        mask.add(i)  # equals the sentinel in the stored (32-bit) type: documented exception
            elif x == FLOAT_NDV:
                mask.add(i)  # the single documented exception
        exp += [None] * (n - len(exp))
        return _ok(exp, canonical, mask, alt32=(path == "concat"), n_written=len(flat))
    if kind in ("int", "ref"):
        exp, reason = [], None
        for x in flat:
            if isinstance(x, float):
                if math.isnan(x):
                    exp.append(INTEGER_NDV)
                    continue
                if math.isinf(x):
                    reason = reason or "outside-32-bit-range"
                    continue
                if not x.is_integer():
                    reason = "non-integral"
                    continue
            x = int(x)
            if not I32[0] <= x <= I32[1]:
                reason = reason or "outside-32-bit-range"
            exp.append(x)
        if reason:
            return _bad(reason)
        exp += [INTEGER_NDV] * (n - len(exp))
        return _ok(exp, canonical, n_written=len(flat))
    if kind == "bool":
        exp = []
        for i, x in enumerate(flat):
            if isinstance(x, float) and math.isnan(x):
                exp.append(None)
                mask.add(i)  # the statement does not define a boolean gap
                continue
            if x not in (0, 1):
                return _bad("not-0/1")
            exp.append(int(x))
        for i in range(len(exp), n):
            exp.append(None)
            mask.add(i)
        return _ok(exp, canonical, mask)
    raise ValueError(kind)


def judge_text(val, path="node", n=N_GEOM):
    jd = _judge_text(val, n)
    if path == "concat" and val["t"] in ("str", "bytes") and jd["status"] == "ok":
        jd["canonical"] = False  # drillhole data are arrays along a depth table
    return jd


def _judge_text(val, n=N_GEOM):
    t = val["t"]
    if t == "py":
        return FREE if val["what"] == "strlist" else _bad("unsupported-type")
    if t == "str":
        s = val["s"]
        if _has_surrogate(s):
            return _bad("not-unicode")
        return _ok([s], canonical="\x00" not in s)
    if t in ("bytes", "S"):
        raws = [bytes.fromhex(val["hex"])] if t == "bytes" else [bytes.fromhex(h) for h in val["hex"]]
        try:
            return _ok([r.decode("utf-8") for r in raws])
        except UnicodeDecodeError:
            return _bad("not-utf8")
    items = list(val["items"])
    if any(_has_surrogate(s) for s in items):
        return _bad("not-unicode")
    return _ok(items, canonical=(t == "U" and len(items) == n and not any("\x00" in s for s in items)))


def _json_scan(v, depth=0):
    """(json-able?, has-optional-oddities?) of a tagged description."""
    if isinstance(v, dict):
        if len(v) == 1:
            (k,) = v
            if k in ("__bytes__", "__nd__", "__set__"):
                return False, True
            if k == "__uuid__":
                return "uuid", True
            if k == "__npi__":
                return "npi", True
            if k in ("__npf__", "__float__", "__tuple__"):
                return True, True
        ok, odd = True, False
        for x in v.values():
            o, d = _json_scan(x, depth + 1)
            ok = o if ok is True else ok
            if o is False:
                ok = False
            odd = odd or d
        return ok, odd
    if isinstance(v, list):
        ok, odd = True, False
        for x in v:
            o, d = _json_scan(x, depth + 1)
            if o is not True and ok is not False:
                ok = o
            odd = odd or d
        return ok, odd
    if isinstance(v, str):
        return True, (_has_surrogate(v) or "\x00" in v)
    return True, False


def norm_json(v):
    """Comparable form of a JSON-like python value: UUID and uuid-shaped strings are the same
    token (the file cannot tell them apart), NaN is a token, tuples are lists, numpy scalars
    are python numbers."""
    if isinstance(v, uuid.UUID):
        return "uuid:" + v.hex
    if isinstance(v, str):
        s = str(v)
        if len(s) in (36, 38) and s.count("-") == 4:
            try:
                return "uuid:" + uuid.UUID(s.strip("{}")).hex
            except ValueError:
                pass
        return s
    if isinstance(v, (bool, np.bool_)):
        return bool(v)
    if isinstance(v, (int, np.integer)):
        return int(v)
    if isinstance(v, (float, np.floating)):
        v = float(v)
        return "float:nan" if v != v else v
    if isinstance(v, dict):
        return {str(k): norm_json(x) for k, x in v.items()}
    if isinstance(v, (list, tuple)):
        return [norm_json(x) for x in v]
    if isinstance(v, np.ndarray):
        return [norm_json(x) for x in v.tolist()]
    if isinstance(v, bytes):
        return "bytes:" + v.hex()
    return v


def judge_comment(val):
    if val["t"] == "py":
        return _bad("unsupported-type")
    v = val["v"]
    structured = isinstance(v, list) and all(isinstance(c, dict) and list(c) == ["Author", "Date", "Text"] for c in v)
    if not structured:
        return _bad("bad-comment-structure")
    ok, odd = _json_scan(v)
    if ok is not True:
        return _bad("unsupported-type")
    plain = len(v) > 0 and not odd and all(isinstance(x, str) for c in v for x in c.values())
    return _ok(norm_json(decode(val)), canonical=plain)


def judge_blob(val):
    if val["t"] == "py":
        return FREE if val["what"] in ("bytearray", "u8arr") else _bad("unsupported-type")
    b = bytes.fromhex(val["hex"])
    return _ok(b, canonical=len(b) > 0)


def judge_meta(val):
    if val["t"] == "py":
        return _bad("unsupported-type")
    v = val["v"]
    ok, odd = _json_scan(v)
    if ok is False:
        return _bad("unsupported-type")
    if ok == "npi":
        return FREE
    return _ok(norm_json(decode(val)), canonical=(len(v) > 0 and not odd))


def judge_vmap(val):
    if val["t"] == "py":
        return _bad("unsupported-type")
    exp, reason, odd = {}, None, False
    items = val["items"]
    for k, lbl in items:
        if "s" in k:
            return _bad("non-integer-key")
        if "f" in k:
            if not float(k["f"]).is_integer():
                return _bad("non-integer-key")
            return FREE
        key = int(k["i"]) if "i" in k else int(k["npi"])
        odd = odd or "npi" in k
        if not isinstance(lbl, str):
            return _bad("non-string-label")
        if _has_surrogate(lbl):
            return _bad("not-unicode")
        odd = odd or "\x00" in lbl
        if key < 0:
            reason = reason or "negative-key"
        elif key >= 2**32:
            reason = reason or "key-outside-32-bit-range"
        exp[key] = lbl
    if reason:
        return _bad(reason)
    if exp == BOOL_MAP:
        return FREE  # the boolean type's own map: documented special case of the library
    if 0 in exp and exp[0] != "Unknown":
        return _bad("key0-not-unknown")
    exp.setdefault(0, "Unknown")
    return _ok(exp, canonical=(not odd and all(0 < k < 2**31 for k in exp if k)))


def judge(case, val):
    fam, kind, path = case["fam"], case["kind"], case["path"]
    if val is None:
        return {"status": "none"}
    if fam == "num":
        return judge_num(kind, path, val)
    if fam == "text":
        return judge_text(val, path)
    if fam == "comment":
        return judge_comment(val)
    if fam == "blob":
        return judge_blob(val)
    if fam == "meta":
        return judge_meta(val)
    if fam == "vmap":
        return judge_vmap(val)
    raise ValueError(fam)


# ---------------------------------------------------------------------------
# value classes for witnesses (stable, run-independent)
# ---------------------------------------------------------------------------
def vclass_num(x):
    """Coarse, run-independent class of the written value that failed to come back."""
    if x is None:
        return "gap"
    if isinstance(x, float):
        if math.isinf(x):
            return "inf"
        if x == 0:
            return "zero"
        if FLOAT_NDV / 2 <= abs(x) <= FLOAT_NDV * 2:
            return "near-float-ndv"
        if abs(x) < FLOAT_NDV or abs(x) > 3.4028234663852886e38:
            return "outside-float32-magnitude"
        if not x.is_integer():
            return "fraction"
    if x == INTEGER_NDV:
        return "integer-ndv"
    if abs(x) >= 2**31 - 1:
        return "int32-boundary-or-beyond"
    return "ordinary"


def vclass_text(s):
    if not isinstance(s, str):
        return "non-string"
    if s == "":
        return "empty"
    if "\x00" in s:
        return "nul"
    if len(s) > 100:
        return "long"
    if s.startswith("{") and s.endswith("}"):
        return "uid-like"
    if "/" in s or "⁄" in s:
        return "slash"
    if any(ord(c) > 127 for c in s):
        return "non-ascii"
    return "ascii"


# ---------------------------------------------------------------------------
# comparison of an expected canonical value with an observation
# ---------------------------------------------------------------------------
class Obs:
    """value = canonical observation, or err = why there is none."""

    def __init__(self, value=None, err=None, extra=None):
        self.value, self.err, self.extra = value, err, extra or {}


def _f32(x):
    with np.errstate(all="ignore"):
        return float(np.float32(x))


def compare(case, jd, obs: Obs, stage):
    """None when the observation equals the expectation, else (clause, vclass, detail)."""
    fam, kind = case["fam"], case["kind"]
    exp = jd["expected"]
    default_clause = "stored-as-written" if stage == "raw" else "read-back-equal"
    if obs.err is not None:
        return default_clause, obs.err, {"observed": obs.err, "expected": exp}
    got = obs.value
    if fam == "num":
        if got is None:
            return default_clause, "missing", {"expected": exp}
        if len(got) != len(exp):
            return default_clause, "length", {"expected": exp, "observed": got}
        n_written = jd.get("n_written")
        for i, (e, g) in enumerate(zip(exp, got)):
            if i in jd["mask"]:
                continue
            pad = n_written is not None and i >= n_written  # entry the library added to a short array
            if pad and stage != "raw":
                if (g is not None) if kind == "float" else (g != e):
                    return "gap-uses-no-data-code", "padding", {"index": i, "observed": g, "expected": "NaN" if kind == "float" else e}
                continue
            if kind == "float":
                if stage == "raw":
                    code = obs.extra["ndv"]
                    if e is None:
                        if g != code:
                            return "gap-uses-no-data-code", "float-gap", {"index": i, "raw": g, "code": code, "dtype": obs.extra["dtype"]}
                        continue
                    good = g == e or (obs.extra["dtype"] == "float32" and jd["alt32"] and g == _f32(e))
                else:
                    if e is None:
                        good = g is None
                    else:
                        good = g is not None and (g == e or (jd["alt32"] and g == _f32(e)))
                if not good:
                    return default_clause, vclass_num(e), {"index": i, "written": e, "observed": g}
            else:
                if stage == "raw" and kind == "bool" and g not in (0, 1):
                    return "bool-stored-0-1", "raw-value", {"index": i, "raw": g}
                if g != e:
                    if stage == "raw" and e == INTEGER_NDV and kind in ("int", "ref"):
                        return "gap-uses-no-data-code", "integer-gap", {"index": i, "raw": g}
                    return default_clause, vclass_num(e), {"index": i, "written": e, "observed": g}
        if stage == "raw" and kind == "bool" and obs.extra.get("dtype_kind") not in ("i", "u", "b"):
            return "bool-stored-0-1", "raw-dtype", {"dtype": obs.extra.get("dtype")}
        if stage == "raw" and kind in ("int", "ref") and obs.extra.get("dtype_kind") not in ("i", "u"):
            return default_clause, "raw-dtype", {"dtype": obs.extra.get("dtype")}
        return None
    if fam == "text":
        if got is None:
            return default_clause, "missing", {"expected": exp}
        if case["path"] == "concat" and len(exp) < N_GEOM and len(got) == N_GEOM:
            got = got[: len(exp)]  # a short array is padded to the depth table; no text gap is defined
        if len(got) != len(exp):
            return default_clause, "length", {"expected": exp, "observed": got}
        for i, (e, g) in enumerate(zip(exp, got)):
            if stage == "raw":
                if g != e.encode("utf-8"):
                    return default_clause, vclass_text(e), {"index": i, "written": e, "raw": g}
            elif g != e:
                return default_clause, vclass_text(e), {"index": i, "written": e, "observed": g}
        return None
    if fam == "comment":
        if case["path"].startswith("add_comment"):
            exp = [{k: v for k, v in c.items() if k != "Date"} for c in exp]
            got = got if got is None else [{k: v for k, v in c.items() if k != "Date"} for c in got if isinstance(c, dict)]
        if not exp:
            same = not got  # an empty list of comments and no comments read the same
        else:
            same = got == exp
        if not same:
            return default_clause, "comments", {"expected": exp, "observed": got}
        return None
    if fam == "blob":
        if got != exp:
            return default_clause, "blob" if got is not None else "missing", {"expected": exp, "observed": got}
        return None
    if fam == "meta":
        if exp is None:  # metadata removed
            return None if not got else (default_clause, "not-removed", {"observed": got})
        got = got or {}
        for k, e in exp.items():
            if k not in got or got[k] != e:
                return default_clause, "metadata-value", {"key": k, "written": e, "observed": got.get(k, "<absent>")}
        return None
    if fam == "vmap":
        if got is None:
            return default_clause, "missing", {"expected": exp}
        if got.get(0) != "Unknown":
            return "key0-unknown", "key0", {"observed": got}
        if got != exp:
            return default_clause, "value-map", {"expected": exp, "observed": got}
        return None
    raise ValueError(fam)


# ---------------------------------------------------------------------------
# canonical observations
# ---------------------------------------------------------------------------
def canon_api(fam, kind, values):
    """Canonical form of what the API returned."""
    if fam == "num":
        if values is None:
            return None
        arr = np.asarray(values).ravel()
        out = []
        for x in arr.tolist():
            if kind == "float":
                out.append(None if (isinstance(x, float) and x != x) else float(x))
            else:
                if isinstance(x, float):
                    out.append(x if x != x or not x.is_integer() else int(x))
                else:
                    out.append(int(x))
        return out
    if fam == "text":
        if values is None:
            return None
        items = np.atleast_1d(values).tolist() if not isinstance(values, (str, bytes)) else [values]
        return [x.decode("utf-8") if isinstance(x, bytes) else (str(x) if isinstance(x, str) else x) for x in items]
    if fam in ("comment", "meta"):
        return None if values is None else norm_json(values)
    if fam == "blob":
        return values if values is None else bytes(values)
    if fam == "vmap":
        if values is None:
            return None
        m = values.map if hasattr(values, "map") else values
        return {int(k): (str(v) if isinstance(v, str) else v) for k, v in m.items()}
    raise ValueError(fam)


def _txt(x):
    return x.decode("utf-8") if isinstance(x, bytes) else str(x)


class Raw:
    """Independent look at the bytes of a closed file (h5py only)."""

    def __init__(self, b):
        self.f = h5py.File(io.BytesIO(b), "r")
        self.proj = self.f[list(self.f)[0]]

    def close(self):
        self.f.close()

    def node(self, kind, name):
        if kind not in self.proj:
            return None
        for key in self.proj[kind]:
            nd = self.proj[kind][key]
            if "Name" in nd.attrs and _txt(nd.attrs["Name"]) == name:
                return nd
        return None

    def observe(self, case, name="x"):
        fam, kind, path = case["fam"], case["kind"], case["path"]
        try:
            if fam == "meta":
                nd = self.node("Objects", "o")
                if nd is None or "Metadata" not in nd:
                    return Obs(None)
                doc = nd["Metadata"][()]
                doc = doc[0] if isinstance(doc, np.ndarray) else doc
                return Obs(norm_json(json.loads(_txt(doc))))
            if fam == "vmap":
                nd = self.node("Data", name)
                if nd is None or "Type" not in nd or "Value map" not in nd["Type"]:
                    return Obs(None)
                rows = nd["Type"]["Value map"][()]
                out = {}
                for k, v in rows.tolist():
                    if int(k) in out:
                        return Obs(err="duplicate-key", extra={"rows": repr(rows.tolist())})
                    out[int(k)] = _txt(v)
                return Obs(out, extra={"dtype": str(rows.dtype)})
            if path == "concat":
                g = self.node("Groups", "dg")
                if g is None or name not in g["Concatenated Data"]["Data"]:
                    return Obs(None)
                ds = g["Concatenated Data"]["Data"][name]
                idx = g["Concatenated Data"]["Index"][name][()]
                if len(idx) != 1:
                    return Obs(err="index-rows", extra={"rows": len(idx)})
                start, size = int(idx[0][0]), int(idx[0][1])
                arr = ds[()][start : start + size]
                return self._array(fam, kind, ds, arr)
            if fam == "comment":
                nd = self.node("Data", "UserComments")
                if nd is None or "Data" not in nd:
                    return Obs(None)
                doc = nd["Data"][()]
                doc = doc[0] if isinstance(doc, np.ndarray) else doc
                return Obs(norm_json(json.loads(_txt(doc))["Comments"]))
            if fam == "blob":
                nd = self.node("Data", "f.dat")
                if nd is None or "f.dat" not in nd:
                    return Obs(None)
                fname = nd["Data"][()]
                fname = fname[0] if isinstance(fname, np.ndarray) else fname
                if _txt(fname) != "f.dat":
                    return Obs(err="file-name-dataset", extra={"name": _txt(fname)})
                return Obs(nd["f.dat"][()].tobytes())
            nd = self.node("Data", name)
            if nd is None or "Data" not in nd:
                return Obs(None)
            ds = nd["Data"]
            return self._array(fam, kind, ds, ds[()])
        except Exception as err:  # pylint: disable=broad-except
            return Obs(err=f"raw-unreadable:{type(err).__name__}", extra={"msg": str(err)[:200]})

    @staticmethod
    def _array(fam, kind, ds, arr):
        arr = np.atleast_1d(arr)
        extra = {"dtype": str(ds.dtype), "dtype_kind": ds.dtype.kind}
        if fam == "text":
            items = arr.ravel().tolist()
            return Obs([x if isinstance(x, bytes) else str(x).encode("utf-8") for x in items], extra=extra)
        if kind == "float":
            if ds.dtype.kind != "f":
                return Obs(err="raw-dtype-not-float", extra=extra)
            extra["ndv"] = float(ds.dtype.type(FLOAT_NDV))
            return Obs([float(x) for x in arr.ravel().tolist()], extra=extra)
        return Obs([int(x) for x in arr.ravel().astype(np.int64 if ds.dtype.kind != "u" else np.uint64).tolist()], extra=extra)


# ---------------------------------------------------------------------------
# the executor
# ---------------------------------------------------------------------------
_SCENES: dict = {}  # path -> bytes of the closed scene file (per process, deterministic)


class Exec:
    def __init__(self, case):
        from geoh5py.workspace import Workspace

        self.Workspace = Workspace
        self.case = case
        self.fam, self.kind, self.path = case["fam"], case["kind"], case["path"]
        self.viol = []
        self.tags = []
        self.states = set()
        self.transitions = 0
        self.compared = 0
        self.model = ABSENT  # or NOVALUE / UNKNOWN / judgement dict of the last accepted write
        self.n_refused = 0
        self.ws = None
        self.ent = None

    # -- scene -----------------------------------------------------------------
    def build(self):
        """Scene: one owner named 'o' with 2 vertices / a 2-point survey.  Depth-1 cases build
        it live in a new workspace; deeper cases start from the bytes of the same scene, built
        once per process and re-opened read-write (uids continue after the scene's)."""
        if len(self.case["steps"]) == 1:
            self.ws = self._scene(self.path)
            return
        if self.path not in _SCENES:
            ws = self._scene(self.path)
            ws.close()
            _SCENES[self.path] = ws.h5file.getvalue()
        world._STATE["n"] = 64  # pylint: disable=protected-access
        self.ws = self.Workspace(io.BytesIO(_SCENES[self.path]), mode="r+")

    def _scene(self, path):
        from geoh5py.groups import ContainerGroup, DrillholeGroup
        from geoh5py.objects import Drillhole, Points

        world.reset("asc")
        ws = self.Workspace()
        if path == "concat":
            grp = DrillholeGroup.create(ws, name="dg")
            Drillhole.create(ws, parent=grp, name="o", collar=[0.0, 0.0, 0.0], surveys=np.array([[0.0, 0.0, -90.0], [10.0, 0.0, -90.0]]))
        elif path == "add_comment-group":
            ContainerGroup.create(ws, name="o")
        else:
            Points.create(ws, name="o", vertices=np.array([[0.0, 0.0, 0.0], [1.0, 0.0, 0.0]]))
        return ws

    def owner(self):
        return self.ws.get_entity("o")[0]

    def dname(self):
        return {"comment": "UserComments", "blob": "f.dat"}.get(self.fam, "x")

    def fetch(self):
        """The data entity (metadata: its owner) in the current workspace, or None.  A refused
        creation can leave a half-registered name behind; looking it up must not stop the run."""
        owner = self.owner()
        if self.fam == "meta":
            return owner
        try:
            if self.path == "concat":
                if self.dname() not in owner.get_data_list():
                    return None
                found = owner.get_data(self.dname())
                return found[0] if found else None
            for child in owner.children:
                if getattr(child, "name", None) == self.dname() and hasattr(child, "values"):
                    return child
        except Exception:  # pylint: disable=broad-except
            return None
        return None

    # -- the two write operations ---------------------------------------------------
    def do_create(self, obj):
        owner = self.owner()
        fam, kind = self.fam, self.kind
        if fam == "meta":
            if obj is not None:
                owner.metadata = obj
            return owner
        if fam == "blob":
            return owner.add_file(obj, name="f.dat")
        if fam == "comment":
            if self.path.startswith("add_comment"):
                owner.add_comment(obj[0]["Text"], author=obj[0]["Author"])
                return owner.comments
            attrs = {"association": "OBJECT", "entity_type": {"primitive_type": "TEXT"}}
            if obj is not None:
                attrs["values"] = obj
            return owner.add_data({"UserComments": attrs})
        if fam == "vmap":
            attrs = {"values": np.array([1, 2], dtype="int32"), "association": "VERTEX", "type": "referenced"}
            if obj is not None:
                attrs["value_map"] = obj
            return owner.add_data({"x": attrs})
        attrs = {"type": TYPE[kind]}
        if self.path == "concat":
            attrs["depth"] = np.array([1.0, 2.0])
        elif fam == "text" and not isinstance(obj, np.ndarray):
            attrs["association"] = "OBJECT"
        else:
            attrs["association"] = "VERTEX"
        if obj is not None:
            attrs["values"] = obj
        if kind == "ref":
            attrs["value_map"] = {1: "one", 2: "two"}
        return owner.add_data({"x": attrs})

    def do_set(self, obj):
        if self.fam == "meta":
            self.ent.metadata = obj
        elif self.fam == "vmap":
            self.ent.entity_type.value_map = obj
        elif self.path.startswith("add_comment"):
            self.owner().add_comment(obj[0]["Text"], author=obj[0]["Author"])
        else:
            self.ent.values = obj

    def read_api(self, ent):
        try:
            if ent is None:
                return Obs(None)
            if self.fam == "meta":
                return Obs(canon_api("meta", None, ent.metadata))
            if self.fam == "vmap":
                return Obs(canon_api("vmap", None, ent.value_map))
            return Obs(canon_api(self.fam, self.kind, ent.values))
        except Exception as err:  # pylint: disable=broad-except
            return Obs(err=f"read-raised:{type(err).__name__}", extra={"msg": str(err)[:200]})

    # -- judging -----------------------------------------------------------------------
    def wit(self, tail):
        return f"{self.kind}/{self.path}:{tail}"

    def store_wit(self, reason):
        """One signature per missing check: IntegerData and ReferencedData share the 32-bit
        store and its format_type; both storage paths share the per-class coercion and the
        text setter.  Only the entry count is checked by path-specific code."""
        store = {"float": "float-store", "int": "int32-store", "ref": "int32-store", "bool": "bool-store"}.get(self.kind, self.kind)
        if reason == "too-many-entries" and self.fam == "num":
            return f"numeric/{self.path}:{reason}"  # NumericData.format_length / drillhole depth validation
        return f"{store}:{reason}"

    def refusal_wit(self):
        """Which stored thing a refused write damaged: the three writers that replace a dataset
        (ordinary node, concatenated group, value map); numeric kinds stay separate."""
        if self.fam == "num":
            return f"{self.kind}/{self.path}"
        if self.fam == "vmap":
            return "value-map-dataset"
        return "concatenated-dataset" if self.path == "concat" else "ordinary-node-dataset"

    def check(self, obs, stage, refused_before):
        """Compare one observation with the model."""
        if not isinstance(self.model, dict):
            return True
        self.compared += 1
        res = compare(self.case, self.model, obs, stage)
        if res is None:
            return True
        clause, vcls, detail = res
        if refused_before and clause in ("read-back-equal", "stored-as-written", "gap-uses-no-data-code"):
            clause = "refused-write-keeps-stored"
            self.viol.append((clause, self.refusal_wit(), dict(detail, stage=stage, after=refused_before, kind=self.kind, path=self.path)))
        elif vcls == "padding":
            store = {"float": "float-store", "int": "int32-store", "ref": "int32-store"}.get(self.kind, self.kind)
            self.viol.append((clause, f"{store}/{self.path}:padding", dict(detail, stage=stage, kind=self.kind)))
        else:
            self.viol.append((clause, self.wit(f"{stage}:{vcls}"), dict(detail, stage=stage)))
        return False

    def write(self, op, val):
        jd = judge(self.case, val)
        obj = decode(val)
        if op == "edit":
            # in-place edit of the map object the library hands out, assigned back to persist it:
            # only for maps the statement accepts as they are (anything else is the business of
            # "set"); the expectation is the old map overlaid with the edited entries
            if jd["status"] != "ok" or not jd["canonical"] or not isinstance(self.model, dict) or not isinstance(self.model["expected"], dict):
                return None
            jd = dict(jd)
            jd["expected"] = {**self.model["expected"], **jd["expected"]}
        if self.path.startswith("add_comment"):
            jd = dict(jd)
            prev = self.model["expected"] if isinstance(self.model, dict) else []
            jd["expected"] = prev + jd["expected"]
            jd["canonical"] = False
        self.transitions += 1
        raised = None
        if self.fam == "meta":
            self.ent = self.owner()
        try:
            if op == "create":
                self.ent = self.do_create(obj)  # (metadata: obj None = nothing written yet)
            elif op == "edit":
                held = self.ent.value_map
                for key, label in obj.items():
                    held[key] = label
                self.ent.entity_type.value_map = held
            else:
                self.do_set(obj)
        except Exception as err:  # pylint: disable=broad-except
            raised = type(err).__name__
        st = jd["status"]
        self.tags.append((self.fam, self.kind, self.path, op, st, jd.get("reason"), "refused" if raised else "accepted"))
        if st == "none":
            if raised:
                raise core.HarnessError(f"creating an entity without values raised {raised}: {self.case}")
            self.model = NOVALUE
            return None
        if raised:
            self.n_refused += 1
            if st == "ok" and jd["canonical"] and self.n_refused == 1:  # (in a state no refusal has touched)
                self.viol.append(("accepted-canonical", self.wit(f"{op}:refused"), {"raised": raised, "value": val}))
            if op == "create":
                self.model = ABSENT if self.fam != "meta" else NOVALUE
            return raised
        if st == "bad":
            self.viol.append(("rejected-not-altered", self.store_wit(jd["reason"]), {"value": _brief(val), "op": op, "path": self.path, "kind": self.kind}))
            self.model = UNKNOWN
            return None
        if st == "free":
            self.model = UNKNOWN
            return None
        if self.fam == "meta":
            if jd["expected"] is not None and isinstance(self.model, dict) and isinstance(self.model["expected"], dict):
                jd = dict(jd)
                jd["expected"] = {**self.model["expected"], **jd["expected"]}
        self.model = jd
        self.states.add(core.digest([self.fam, self.kind, self.path, jd["expected"], jd["mask"]]))
        return None

    # -- the protocol ----------------------------------------------------------------------
    def run(self):
        world.reset("asc")
        self.build()
        refused = None  # tag of the last refused write since the model was set
        failed = False  # a stage already disagreed: later stages are downstream of it
        try:
            for step in self.case["steps"]:
                op = step[0]
                if op == "reopen":
                    self.transitions += 1
                    self.ws.close()
                    b = self.ws.h5file.getvalue()
                    self.ws = self.Workspace(io.BytesIO(b), mode="r+")
                    self.ent = self.fetch()
                    if not self.check(self.read_api(self.ent), "reopen", refused):
                        failed = True
                        break
                    if self.ent is None:
                        break
                    continue
                if self.model is ABSENT and op in ("set", "edit"):
                    break  # nothing to assign to: the creation was refused
                had_model = isinstance(self.model, dict)
                raised = self.write(op, step[1])
                if raised:
                    if had_model:
                        jd = judge(self.case, step[1])
                        why = jd.get("reason") or ("representable" if jd["status"] == "ok" else "unsupported-type")
                        refused = f"after-refused-{op}:{why}"
                elif isinstance(self.model, dict):
                    refused = None
                    if not self.check(self.read_api(self.ent), "live", None):
                        failed = True
                        break
        finally:
            try:
                self.ws.close()
            except Exception:  # pylint: disable=broad-except
                pass
        b = self.ws.h5file.getvalue()
        if isinstance(self.model, dict) and not failed:
            raw = Raw(b)
            try:
                ok = self.check(raw.observe(self.case, self.dname()), "raw", refused)
            finally:
                raw.close()
            if ok:
                ro = self.Workspace(io.BytesIO(b), mode="r")
                try:
                    self.ws = ro
                    self.check(self.read_api(self.fetch_safe()), "reopen", refused)
                finally:
                    ro.close()
        self.ws = None
        self.ent = None
        return self.result()

    def fetch_safe(self):
        try:
            return self.fetch()
        except Exception:  # pylint: disable=broad-except
            return None

    def result(self):
        return {
            "v": self.viol,
            "tags": self.tags,
            "states": sorted(self.states),
            "trans": self.transitions,
            "compared": self.compared,
        }


def _brief(val):
    if val is None:
        return None
    if val.get("t") == "nd":
        return {"dtype": val["dtype"], "shape": val["shape"], "values": val["show"]}
    return val


# ---------------------------------------------------------------------------
# files written by another producer: the reader side of the no-data convention
# ---------------------------------------------------------------------------
def run_foreign(case):
    from geoh5py.objects import Points
    from geoh5py.workspace import Workspace

    world.reset("asc")
    val = case["steps"][0][1]
    arr = decode(val)
    kind = case["kind"]
    ws = Workspace()
    pts = Points.create(ws, name="o", vertices=np.array([[0.0, 0.0, 0.0], [1.0, 0.0, 0.0]]))
    seed = np.array([1.5, 2.5]) if kind == "float" else np.array([1, 2], dtype="int32")
    pts.add_data({"x": {"values": seed, "association": "VERTEX", "type": TYPE[kind]}})
    ws.close()
    bio = io.BytesIO(ws.h5file.getvalue())
    with h5py.File(bio, "r+") as f:
        proj = f[list(f)[0]]
        for key in proj["Data"]:
            nd = proj["Data"][key]
            if _txt(nd.attrs["Name"]) == "x":
                del nd["Data"]
                nd.create_dataset("Data", data=arr)
    viol, tags = [], []
    exp = []
    code = float(arr.dtype.type(FLOAT_NDV)) if kind == "float" else None
    for x in arr.tolist():
        if kind == "float":
            exp.append(None if (x != x or x == code) else float(x))
        else:
            exp.append(int(x))
    ro = Workspace(io.BytesIO(bio.getvalue()), mode="r")
    try:
        ent = ro.get_entity("x")[0]
        try:
            got = canon_api("num", kind, ent.values)
        except Exception as err:  # pylint: disable=broad-except
            got = f"read-raised:{type(err).__name__}"
    finally:
        ro.close()
    tags.append(("foreign", kind, str(arr.dtype), "ndv" if None in exp else "plain"))
    if got != exp:
        bad = "length"
        if isinstance(got, list) and len(got) == len(exp):
            i = [a != b for a, b in zip(exp, got)].index(True)
            bad = "no-data-code" if exp[i] is None else vclass_num(exp[i])
        clause = "ndv-reads-as-nan" if bad == "no-data-code" else "read-back-equal"
        viol.append((clause, f"{kind}/foreign-{arr.dtype}:{bad}", {"dataset": _brief(val), "expected": exp, "observed": got}))
    return {"v": viol, "tags": tags, "states": [core.digest(["foreign", kind, str(arr.dtype), exp])], "trans": 2, "compared": 1}


_GC = {"frozen": False, "n": 0}


def run_case(case):
    import gc

    if not _GC["frozen"]:
        gc.collect()
        gc.freeze()  # the imported library never dies: keep it out of the per-case collections
        _GC["frozen"] = True
    try:
        if case["fam"] == "foreign":
            return run_foreign(case)
        return Exec(case).run()
    finally:
        _GC["n"] += 1
        if _GC["n"] % 4 == 0:
            gc.collect()  # workspaces are reference cycles; the collector is off (mc.world)
