"""Fault alphabet of C19: every single deletion of one HDF5 attribute or one HDF5 link of
a closed geoh5 file, enumerated and applied with plain h5py (never imports geoh5py).

A fault is {"kind": "attr" | "link", "node": [symbolic path below the project group],
"name": attribute or link name}.  Path components which are uid keys are written
"@<Name>" (or "@<Name>#k" for the k-th of several same-named siblings in key order), so
that a fault does not mention uids and replays under any uid stream.

Hard links make one HDF5 object reachable under many paths; attributes and the links
*inside* a group belong to the object, so each object is visited once (flat containers
first) and the faults of the hierarchy copies of an entity are the same faults.  The
link *to* an object is a separate item in every group holding one (flat entry vs. the
entry in the parent's child container).

enumerate_faults also classifies every fault from the property statement:
  cls        'optional'  - items the statement lists as optional (strong clause: opens)
             'mandatory' - identifier, name, type link, flat container
             'other'     - the statement does not name the item: only the clause common to
                           both halves of the statement is applied
  ents/types/pgs  the records *described* by the item (keys of the intact snapshot)
  down       True when descendants of the described entities may be left out as well
             (second sentence of the statement); False for optional items
"""

from __future__ import annotations

import io
import re

import h5py

KINDS = ("Data", "Groups", "Objects")
TYPE_KINDS = ("Data types", "Group types", "Object types")
UID_RE = re.compile(r"^\{[0-9a-fA-F]{8}-[0-9a-fA-F]{4}-[0-9a-fA-F]{4}-[0-9a-fA-F]{4}-[0-9a-fA-F]{12}\}$")

# Classification of attributes from the format documentation
# (docs/content/geoh5_format/hierarchy/*.rst, analyst/objects.rst):
#   mandatory  the statement's own examples: an identifier, a name
#   optional   marked "(Optional)" or given a default by the documentation, or not
#              mentioned by it at all ("Anything found in a geoh5 v1.0 file which is not
#              mentioned in this document is optional information")
#   other      documented without default and without the optional mark (geometry
#              parameters of a class, Association, Primitive type ...) and anything this
#              table does not know: judged with the common clause only
MANDATORY_ATTRS = {"ID", "Name"}
OPTIONAL_ATTRS = {
    "project": {"Contributors", "GA Version", "Distance unit"},  # marked optional / not mentioned / "(default) metres"
    "entity": {
        "Allow delete", "Allow move", "Allow rename", "Clipping IDs", "Public", "Visible",  # documented optional / default
        "Partially hidden", "Modifiable", "Last focus", "Cost", "End of hole", "Planning", "Dip",  # not mentioned
        "Rotation", "Vertical",  # documented default 0 / optional
    },
    "type": {
        "Description", "Hidden", "Transparent no data", "Allow delete contents", "Allow move contents", "Units",
        "Scientific notation", "Precision", "Number of bins", "Duplicate type on copy",  # documented optional
        "Mapping",  # not mentioned
    },
    "pg": set(),
}


def _s(v):
    return v.decode("utf-8") if isinstance(v, bytes) else str(v)


def uid_of(key: str) -> str:
    return key.strip("{}").lower()


def addr(obj) -> int:
    return h5py.h5o.get_info(obj.id).addr


def _label(node) -> str:
    for a in ("Name", "Group Name"):
        if a in node.attrs:
            return _s(node.attrs[a])
    return "?"


def sym_names(group) -> dict:
    """key -> symbolic component for every member of a group."""
    out = {}
    by_label = {}
    for key in sorted(group):
        if UID_RE.match(key):
            by_label.setdefault(_label(group[key]), []).append(key)
        else:
            out[key] = key
    for lab, keys in by_label.items():
        for k, key in enumerate(keys):
            out[key] = f"@{lab}" if len(keys) == 1 else f"@{lab}#{k}"
    return out


def resolve(proj, node_path):
    """Follow a symbolic path below the project group."""
    cur = proj
    for comp in node_path:
        if comp.startswith("@"):
            inv = {v: k for k, v in sym_names(cur).items()}
            cur = cur[inv[comp]]
        else:
            cur = cur[comp]
    return cur


def resolve_link(group, name):
    if name.startswith("@"):
        inv = {v: k for k, v in sym_names(group).items()}
        return inv[name]
    return name


def apply_fault(b: bytes, fault: dict) -> bytes:
    """Bytes of a copy of the file with the one item removed."""
    bio = io.BytesIO(b)
    with h5py.File(bio, "r+") as f:
        proj = f[list(f)[0]]
        node = resolve(proj, fault["node"])
        if fault["kind"] == "attr":
            del node.attrs[fault["name"]]
        else:
            del node[resolve_link(node, fault["name"])]
    return bio.getvalue()


def removed_something(b: bytes, damaged: bytes, fault: dict) -> bool:
    """Independent confirmation that the item is present in the intact file and absent from
    the damaged one (this is what makes a (file, fault) pair non-trivial)."""
    res = []
    for blob in (b, damaged):
        with h5py.File(io.BytesIO(blob), "r") as f:
            proj = f[list(f)[0]]
            try:
                node = resolve(proj, fault["node"])
                if fault["kind"] == "attr":
                    res.append(fault["name"] in node.attrs)
                else:
                    try:
                        res.append(resolve_link(node, fault["name"]) in node)
                    except KeyError:
                        res.append(False)
            except KeyError:
                res.append(False)
    return res == [True, False]


# ---------------------------------------------------------------------------
def enumerate_faults(b: bytes, snap: dict) -> list:
    """All single deletions of the file, each with its classification.  `snap` is the
    snapshot of the intact file (mc.c19_snap): only its parent / type / property-group
    relations are used, to name the records an item describes."""
    ents = snap["entities"]
    kids = {}
    for u, r in ents.items():
        kids.setdefault(r["parent"], []).append(u)

    def below(us):
        out, stack = set(), list(us)
        while stack:
            u = stack.pop()
            for c in kids.get(u, []):
                if c not in out:
                    out.add(c)
                    stack.append(c)
        return out

    of_type = {}
    for u, r in ents.items():
        of_type.setdefault(r["type"], set()).add(u)
    pgs_of = {}
    for p, r in snap["pgs"].items():
        pgs_of.setdefault(r["owner"], set()).add(p)
    all_e, all_t, all_p = set(ents), set(snap["types"]), set(snap["pgs"])

    faults = []

    def add(kind, node, name, role, item, cls, e=(), t=(), p=(), owner=None):
        faults.append(
            {
                "kind": kind,
                "node": list(node),
                "name": name,
                "role": role,
                "item": item,
                "owner": owner,
                "cls": cls,
                "ents": sorted(e),
                "types": sorted(t),
                "pgs": sorted(p),
                # second sentence of the statement: descendants may be left out as well;
                # first sentence (optional items): only the described records are exempt
                "down": cls != "optional",
            }
        )

    def attr_cls(role, name):
        if name in MANDATORY_ATTRS and role != "project":
            return "mandatory"
        if name in OPTIONAL_ATTRS[role.split(":")[0]]:
            return "optional"
        return "other"

    with h5py.File(io.BytesIO(b), "r") as f:
        proj = f[list(f)[0]]
        # ---- project ------------------------------------------------------
        for a in sorted(proj.attrs):
            if a == "Version":
                # "Version of specification used by this file": says how every node of the
                # file is to be read, hence describes all of them
                add("attr", [], a, "project", f"project.{a}", "other", e=all_e, t=all_t, p=all_p)
            else:
                add("attr", [], a, "project", f"project.{a}", attr_cls("project", a))
        for k in sorted(proj):
            if k == "Root":
                root_u = uid_of([key for key in proj["Groups"] if addr(proj["Groups"][key]) == addr(proj["Root"])][0])
                add("link", [], k, "project", "Root", "optional", e={root_u}, owner="Root")
            elif k in KINDS:
                inside = {uid_of(key) for key in proj[k]}
                add("link", [], k, "project", f"flat-container:{k}", "mandatory", e=inside)
            elif k == "Types":
                add("link", [], k, "project", "Types", "mandatory", e=all_e, t=all_t, p=all_p)
            else:
                add("link", [], k, "project", f"unknown:{k}", "other", e=all_e, t=all_t, p=all_p)
        # ---- types --------------------------------------------------------
        if "Types" in proj:
            types = proj["Types"]
            for tk in sorted(types):
                inside_t = {uid_of(key) for key in types[tk]}
                inside_e = set().union(*[of_type.get(t, set()) for t in inside_t]) if inside_t else set()
                add("link", ["Types"], tk, "types", f"type-container:{tk}", "mandatory", e=inside_e, t=inside_t)
                cont = types[tk]
                names = sym_names(cont)
                for key in sorted(cont):
                    tnode = cont[key]
                    tu = uid_of(key)
                    te = of_type.get(tu, set())
                    role = f"type:{tk}"
                    tpath = ["Types", tk, names[key]]
                    add("link", ["Types", tk], names[key], "type-entry", f"type-entry:{tk}", "other", e=te, t={tu}, owner=names[key])
                    for a in sorted(tnode.attrs):
                        add("attr", tpath, a, role, f"{role}.{a}", attr_cls(role, a), e=te, t={tu}, owner=names[key])
                    for sub in sorted(tnode):
                        c = "optional" if sub in ("Color map", "Value map") else "other"
                        add("link", tpath, sub, role, f"{role}/{sub}", c, e=te, t={tu}, owner=names[key])
                        for a in sorted(tnode[sub].attrs):
                            add("attr", tpath + [sub], a, role, f"{role}/{sub}.{a}", "optional", e=te, t={tu}, owner=names[key])
        # ---- entities -----------------------------------------------------
        for kind in KINDS:
            if kind not in proj:
                continue
            flat = proj[kind]
            names = sym_names(flat)
            for key in sorted(flat):
                node = flat[key]
                u = uid_of(key)
                epath = [kind, names[key]]
                role = f"entity:{kind}"
                own = names[key]
                ecls = ents.get(u, {}).get("cls", "?")
                add("link", [kind], names[key], "flat-entry", f"flat-entry:{kind}", "other", e={u}, owner=own)
                for a in sorted(node.attrs):
                    c = attr_cls(role, a)
                    item = f"{role}[{ecls}].{a}" if c == "other" else f"{role}.{a}"
                    add("attr", epath, a, role, item, c, e={u}, owner=own)
                for sub in sorted(node):
                    child = node[sub]
                    if sub == "Type":
                        add("link", epath, sub, role, f"{role}/Type", "mandatory", e={u}, owner=own)
                    elif sub in KINDS and isinstance(child, h5py.Group):
                        inside = {uid_of(k2) for k2 in child}
                        if not inside:
                            add("link", epath, sub, role, f"{role}/empty-child-container:{sub}", "optional", e={u}, owner=own)
                        else:
                            add("link", epath, sub, role, f"{role}/child-container:{sub}", "other", e=inside, owner=own)
                        cnames = sym_names(child)
                        for k2 in sorted(child):
                            add("link", epath + [sub], cnames[k2], "child-entry", f"{role}/child-entry:{sub}", "other", e={uid_of(k2)}, owner=own)
                    elif sub == "PropertyGroups":
                        mine = {uid_of(k2) for k2 in child}
                        add("link", epath, sub, role, f"{role}/PropertyGroups", "optional", e={u}, p=mine, owner=own)
                        pnames = sym_names(child)
                        for k2 in sorted(child):
                            pu = uid_of(k2)
                            add("link", epath + [sub], pnames[k2], "pg", "pg-block", "optional", e={u}, p={pu}, owner=own)
                            for a in sorted(child[k2].attrs):
                                c = "mandatory" if a == "ID" else attr_cls("pg", a)
                                add("attr", epath + [sub, pnames[k2]], a, "pg", f"pg.{a}", c, p={pu}, owner=own)
                    elif sub == "Metadata":
                        # documented among the attributes: "(Optional) Any additional text attached"
                        add("link", epath, sub, role, f"{role}/Metadata", "optional", e={u}, owner=own)
                    else:
                        # datasets of the entity (values, geometry ...) and the concatenated
                        # storage of a drillhole group
                        conc = "oncatenated" in sub
                        tag = f"{role}/{sub}" if conc else f"{role}[{ecls}]/{sub}"
                        add("link", epath, sub, role, tag, "other", e={u}, owner=own)
                        _generic(add, child, epath + [sub], role, tag, {u}, own)
    # entities the item describes "together with their descendants"
    for ft in faults:
        ft["exempt"] = sorted(set(ft["ents"]) | (below(ft["ents"]) if ft["down"] else set()))
        if ft["down"]:
            ex = set(ft["exempt"])
            ft["pgs"] = sorted(set(ft["pgs"]) | {p for p, r in snap["pgs"].items() if r["owner"] in ex})
    return faults


def _generic(add, node, path, role, tag, e, own):
    """attributes of a dataset / every link below a group which has no role of its own
    (inside 'Concatenated Data'): all describe the owning entity."""
    for a in sorted(node.attrs):
        add("attr", path, a, role, f"{tag}.{a}", "other", e=e, owner=own)
    if isinstance(node, h5py.Group):
        for sub in sorted(node):
            lab = sub if sub in ("Index", "Data", "Attributes", "Attributes Jsons", "Property Group IDs", "Surveys", "Trace", "TraceDepth") else "*"
            add("link", path, sub, role, f"{tag}/{lab}", "other", e=e, owner=own)
            _generic(add, node[sub], path + [sub], role, f"{tag}/{lab}", e, own)
