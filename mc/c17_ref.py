"""C17 reference formulas and catalogues - written from docs/content/geoh5_format/analyst/objects.rst,
in plain Python (math module, explicit loops), never importing geoh5py or numpy.

  block model   cell (i,j,k) at index k + i*nZ + j*nU*nZ; delimiters are distances of the cell edges
                from the origin; rotation is counter-clockwise about the vertical axis at the origin
  2D grid       cell (i,j) at index i + j*nU; U east, V north; rotation counter-clockwise about the
                vertical axis at the origin; `Vertical` => V axis vertical (dip 90 about the U axis)
  octree        record (I,J,K,NCells): position and size in base cells; centre = origin + R((I,J,K)+N/2)*size
"""

from __future__ import annotations

import itertools
import math

REL_TOL = 1e-9  # DESIGN 2.7: computed positions compare with 1e-9 relative tolerance


# --------------------------------------------------------------------------- geometry
def rotz(deg, p):
    """Counter-clockwise rotation about the vertical axis (docs: 'Counterclockwise angle')."""
    a = math.radians(deg)
    c, s = math.cos(a), math.sin(a)
    return (c * p[0] - s * p[1], s * p[0] + c * p[1], p[2])


def dipx(deg, p):
    """Rotation about the U axis; dip 90 puts the V axis on +Z ('V axis is vertical')."""
    a = math.radians(deg)
    c, s = math.cos(a), math.sin(a)
    return (p[0], c * p[1] - s * p[2], s * p[1] + c * p[2])


def add(o, p):
    return (o[0] + p[0], o[1] + p[1], o[2] + p[2])


def block_centres(du, dv, dz, origin, rot):
    nu, nv, nz = len(du) - 1, len(dv) - 1, len(dz) - 1
    out = [None] * (nu * nv * nz)
    for j in range(nv):
        for i in range(nu):
            for k in range(nz):
                idx = k + i * nz + j * nu * nz
                assert out[idx] is None
                local = (0.5 * (du[i] + du[i + 1]), 0.5 * (dv[j] + dv[j + 1]), 0.5 * (dz[k] + dz[k + 1]))
                out[idx] = add(origin, rotz(rot, local))
    return out


def grid_centres(nu, nv, su, sv, origin, rot, dip):
    out = [None] * (nu * nv)
    for j in range(nv):
        for i in range(nu):
            idx = i + j * nu
            local = ((i + 0.5) * su, (j + 0.5) * sv, 0.0)
            out[idx] = add(origin, rotz(rot, dipx(dip, local)))
    return out


def octree_centres(records, sizes, origin, rot):
    out = []
    for i, j, k, n in records:
        local = ((i + n / 2.0) * sizes[0], (j + n / 2.0) * sizes[1], (k + n / 2.0) * sizes[2])
        out.append(add(origin, rotz(rot, local)))
    return out


def compare(got, want):
    """None when equal within tolerance, else a small description of the first mismatch."""
    if len(got) != len(want):
        return {"n_got": len(got), "n_expected": len(want)}
    scale = max([1.0] + [abs(c) for p in want for c in p])
    bad = []
    for idx, (g, w) in enumerate(zip(got, want)):
        if any(not (abs(a - b) <= REL_TOL * scale) for a, b in zip(g, w)):  # 'not <=' also catches nan
            bad.append(idx)
    if not bad:
        return None
    i = bad[0]
    return {"first_bad_index": i, "got": list(got[i]), "expected": list(want[i]), "n_bad": len(bad), "n": len(want)}


# --------------------------------------------------------------------------- octree tiling
def tiling_defect(records, dims):
    """None when the records cover every base cell of the NU x NV x NW grid exactly once."""
    seen = {}
    for i, j, k, n in records:
        if n < 1:
            return {"why": "record with non-positive size", "record": [i, j, k, n]}
        for a in range(i, i + n):
            for b in range(j, j + n):
                for c in range(k, k + n):
                    if not (0 <= a < dims[0] and 0 <= b < dims[1] and 0 <= c < dims[2]):
                        return {"why": "record leaves the base grid", "record": [i, j, k, n]}
                    seen[(a, b, c)] = seen.get((a, b, c), 0) + 1
    twice = sorted(c for c, m in seen.items() if m > 1)
    if twice:
        return {"why": "base cell covered more than once", "cell": list(twice[0]), "n": len(twice)}
    total = dims[0] * dims[1] * dims[2]
    if len(seen) != total:
        missing = next(c for c in itertools.product(*(range(d) for d in dims)) if c not in seen)
        return {"why": "base cell not covered", "cell": list(missing), "n": total - len(seen)}
    return None


def base_cubes(dims):
    m = min(dims)
    return [[i, j, k, m] for i in range(0, dims[0], m) for j in range(0, dims[1], m) for k in range(0, dims[2], m)]


def refined_cells(dims, twice=False):
    """A valid explicit tiling different from the default one: the first base cube is split into
    its eight octants (and the last octant once more); with unit cubes the order is reversed."""
    cubes = base_cubes(dims)
    m = cubes[0][3]
    if m == 1:
        return cubes[::-1]

    def split(c):
        h = c[3] // 2
        return [[c[0] + a * h, c[1] + b * h, c[2] + d * h, h] for d in (0, 1) for b in (0, 1) for a in (0, 1)]

    out = cubes[1:] + split(cubes[0])
    if twice and m >= 4:
        out = out[:-1] + split(out[-1])
    return out


# --------------------------------------------------------------------------- curve
def expected_segments(labels):
    """Consecutive vertices of the same part: (previous vertex with this label, this vertex)."""
    last, segs = {}, []
    for v, lab in enumerate(labels):
        if lab in last:
            segs.append((last[lab], v))
        last[lab] = v
    return segs


def components(n, cells):
    parent = list(range(n))

    def find(x):
        while parent[x] != x:
            parent[x] = parent[parent[x]]
            x = parent[x]
        return x

    for a, b in cells:
        ra, rb = find(a), find(b)
        if ra != rb:
            parent[max(ra, rb)] = min(ra, rb)
    return [find(v) for v in range(n)]


def segment_defect(n, cells, labels):
    """Literal reading of 'segments derived from part labels join consecutive vertices of the
    same part only' (+ each such pair is joined, once).  Orientation / order are not compared."""
    for a, b in cells:
        if not (0 <= a < n and 0 <= b < n):
            return "segment references a vertex that does not exist", [a, b]
    got = sorted(tuple(sorted(c)) for c in cells)
    want = sorted(expected_segments(labels))
    for a, b in got:
        if labels[a] != labels[b]:
            return "segment joins vertices of different parts", [a, b]
    for a, b in got:
        if (a, b) not in want:
            return "segment joins non-consecutive vertices of a part", [a, b]
    if len(set(got)) != len(got):
        return "segment listed twice", got
    if got != want:
        return "consecutive vertices of a part are not joined", [list(s) for s in want if s not in got][0]
    return None


def parts_defects(n, cells, parts):
    """Literal reading of 'part labels derived from segments agree with connectivity':
    same label <=> same connected component of the segment graph."""
    out = []
    if len(parts) != n:
        return [("one label per vertex is missing", {"n_vertices": n, "n_labels": len(parts)})]
    comp = components(n, cells)
    touched = sorted({v for c in cells for v in c})
    for a, b in cells:
        if parts[a] != parts[b]:
            out.append(("vertices joined by a segment carry different labels", [a, b]))
            break
    for a, b in itertools.combinations(touched, 2):
        if comp[a] != comp[b] and parts[a] == parts[b]:
            out.append(("vertices of unconnected chains share a label", [a, b]))
            break
    for v in range(n):
        if v in touched:
            continue
        same = [w for w in range(n) if w != v and parts[w] == parts[v]]
        if same:
            out.append(("isolated vertex (single-vertex part) shares its label with another vertex", [v, same[0]]))
            break
    return out


def ordered_chain_cell_lists(n, allow_isolated):
    """Every cell list made of vertex-disjoint chains written head-to-tail, chains listed one after
    the other, over all vertex orders, all splits into chains and open/closed variants."""
    seen, out = set(), []
    for perm in itertools.permutations(range(n)):
        for cuts in itertools.product((0, 1), repeat=n - 1):
            chains, cur = [], [perm[0]]
            for v, cut in zip(perm[1:], cuts):
                if cut:
                    chains.append(cur)
                    cur = [v]
                else:
                    cur.append(v)
            chains.append(cur)
            if not allow_isolated and any(len(c) == 1 for c in chains):
                continue
            closable = [i for i, c in enumerate(chains) if len(c) >= 3]
            for flags in itertools.product((0, 1), repeat=len(closable)):
                cells = []
                for ci, c in enumerate(chains):
                    cells += [[a, b] for a, b in zip(c[:-1], c[1:])]
                    if ci in closable and flags[closable.index(ci)]:
                        cells.append([c[-1], c[0]])
                key = tuple(map(tuple, cells))
                if cells and key not in seen:
                    seen.add(key)
                    out.append(cells)
    return out
