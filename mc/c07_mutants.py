"""Mutants used for the C07 detection demonstration: name -> (file under the repo root, old text, new text).

Apply one to a scratch copy (`cp -r /repo /tmp/x`, replace the single occurrence of `old` by `new`),
run `VERIF_REPO=/tmp/x ./check C07 --tier quick`, expect a VIOLATION, remove the copy.

Results on 2026-10-04 (repository's own 377 tests / first clause that fired in the quick tier):
  M1  renumber with cumsum (off by one)            1 test fails   cells-reference-existing-vertices, cells-connect-same-coordinates, keeps-its-value
  M1b same in CellObject.copy                      1 test fails   cells-reference-existing-vertices ... the copy, keeps-its-value ... the copy
  M2  vertex removal edits CELL children           377 pass       one-entry-per-element float/VERTEX, keeps-its-value integer/CELL
  M3  format_length pads with 0                    2 tests fail   shorter-padded float/VERTEX, integer/CELL "wrong padding"
  M4  masked Data.copy takes the prefix            6 tests fail   keeps-its-value ... the copy (Points and CellObject)
  M5  renumber cells before dropping them          2 tests fail   cells-connect-same-coordinates, cells-reference-existing-vertices, keeps-its-value
  M6  Surface.cells setter does not persist        3 tests fail   after re-open: one-entry-per-element / cells-connect-same-coordinates
  M7  uncached values fetched through .values      1 test fails   failed-operation-leaves-consistent Points.remove_vertices / CellObject.remove_cells raised ValueError
  M8  copy keeps cells with ANY vertex in mask     3 tests fail   cells-reference-existing-vertices ... the copy, cells-connect-same-coordinates
  M9  multi-index remove_cells drops one index     377 pass       failed-operation-leaves-consistent CellObject.remove_cells raised ValueError
      less for the data
"""
MUTANTS = {
 "M1-renumber-cumsum": ("geoh5py/objects/cell_object.py",
   "        new_index = np.ones_like(vert_index, dtype=int)\n        new_index[vert_index] = np.arange(self.vertices.shape[0])\n",
   "        new_index = np.cumsum(vert_index)\n"),
 "M1b-copy-renumber-cumsum": ("geoh5py/objects/cell_object.py",
   "            new_id = np.ones_like(mask, dtype=int)\n            new_id[mask] = np.arange(np.sum(mask))\n",
   "            new_id = np.cumsum(mask)\n"),
 "M2-vertex-removal-filters-CELL": ("geoh5py/objects/cell_object.py",
   '        self.remove_children_values(indices, "VERTEX", clear_cache=clear_cache)\n\n        new_index',
   '        self.remove_children_values(indices, "CELL", clear_cache=clear_cache)\n\n        new_index'),
 "M3-pad-with-zero": ("geoh5py/data/numeric_data.py",
   "            full_vector = np.ones(self.n_values, dtype=values.dtype) * self.nan_value\n",
   "            full_vector = np.zeros(self.n_values, dtype=values.dtype)\n"),
 "M4-masked-copy-takes-prefix": ("geoh5py/data/data.py",
   '                kwargs.update({"values": self.values[mask]})\n',
   '                kwargs.update({"values": self.values[: int(np.sum(mask))]})\n'),
 "M5-renumber-before-cell-removal": ("geoh5py/objects/cell_object.py",
   "        self.remove_cells(np.where(~np.all(vert_index[self.cells], axis=1)))\n        self.cells = new_index[self.cells]\n",
   "        self.cells = new_index[self.cells]\n        self.remove_cells(np.where(~np.all(vert_index[self.cells], axis=1)))\n"),
 "M6-surface-cells-not-persisted": ("geoh5py/objects/surface.py",
   '        self._cells = indices.astype(np.int32)\n        self.workspace.update_attribute(self, "cells")\n',
   '        self._cells = indices.astype(np.int32)\n'),
 "M7-uncached-values-through-property": ("geoh5py/objects/object_base.py",
   "                    values = child.workspace.fetch_values(child)\n",
   "                    values = child.values\n"),
 "M8-copy-cell-mask-any": ("geoh5py/objects/cell_object.py",
   "                cell_mask = np.all(mask[self.cells], axis=1)\n",
   "                cell_mask = np.any(mask[self.cells], axis=1)\n"),
 "M9-remove-cells-sorted-unique-for-data": ("geoh5py/objects/cell_object.py",
   '        self.remove_children_values(indices, "CELL", clear_cache=clear_cache)\n\n    def remove_vertices',
   '        self.remove_children_values(indices[:-1] if len(indices) > 1 else indices, "CELL", clear_cache=clear_cache)\n\n    def remove_vertices'),
}
