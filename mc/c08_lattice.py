"""C08 - value lattices and case enumeration (pure: no geoh5py import).

A *value* is a JSON-able description that `decode()` turns into a fresh python / numpy
object (fresh, because the library mutates caller arrays in place).  A *case* is

    {"fam": ..., "kind": ..., "path": "node"|"concat", "steps": [step, ...]}

with steps  ["create", value|None]   create the data entity with these values
            ["set", value]           assign on the (stored) entity
            ["reopen"]               close, re-open the bytes read-write, fetch the entity again

Every case is finished by close + raw read (h5py only) + read-only re-open by the executor.

The numeric lattice is the set of representability boundaries of every stored type
(DESIGN 2.5): for each NumPy numeric dtype, every candidate that the dtype can hold, de-
duplicated on the bit pattern.
"""

from __future__ import annotations

import math
import uuid

import numpy as np

FLOAT_NDV = 1.17549435e-38  # the format's float no-data code (written from the spec, not imported)
INTEGER_NDV = -2147483648
F32_NDV = float(np.float32(FLOAT_NDV))  # the same code in a 32-bit dataset (2**-126)

N_GEOM = 2  # vertices of the Points object / depths of the drillhole table

INT_DTYPES = ["int8", "int16", "int32", "int64", "uint8", "uint16", "uint32", "uint64"]
FLOAT_DTYPES = ["float16", "float32", "float64"]
COMPLEX_DTYPES = ["complex64", "complex128"]

INT_CAND = [
    0, 1, -1, 2, 127, -128, 255, 32767, 65535, 65537,
    2**31 - 1, -(2**31), 2**31, -(2**31) - 1, 2**32 - 1, 2**32, 2**32 + 1,
    2**63 - 1, -(2**63), 2**64 - 1,
]  # fmt: skip

_F32MAX = float(np.finfo(np.float32).max)
_F64MAX = float(np.finfo(np.float64).max)
FLOAT_CAND = [
    0.0, -0.0, 1.0, -1.0, 0.5, -0.5, 1.5, 2.0, 255.0,
    2147483647.0, 2147483648.0, -2147483648.0, -2147483649.0, 2147483647.5, 4294967297.0,
    float(2**53), 9.223372036854775807e18, 1.8446744073709552e19,
    _F32MAX, 1e39, -1e39, 1e300, _F64MAX,
    5e-324, 1.401298464324817e-45, 5.960464477539063e-08, 2.2250738585072014e-308,
    math.inf, -math.inf, math.nan,
    FLOAT_NDV, -FLOAT_NDV, F32_NDV,
    float(np.nextafter(np.float64(FLOAT_NDV), np.float64(0))),
    float(np.nextafter(np.float64(FLOAT_NDV), np.float64(1))),
    float(np.nextafter(np.float32(FLOAT_NDV), np.float32(0))),
    float(np.nextafter(np.float32(FLOAT_NDV), np.float32(1))),
    float(np.nextafter(np.float64(F32_NDV), np.float64(0))),
    float(np.nextafter(np.float64(F32_NDV), np.float64(1))),
]  # fmt: skip


def _nd(arr: np.ndarray) -> dict:
    arr = np.ascontiguousarray(arr)
    return {"t": "nd", "dtype": str(arr.dtype), "hex": arr.tobytes().hex(), "shape": list(arr.shape), "show": show(arr)}


def show(arr) -> list:
    out = []
    for x in np.ravel(arr).tolist():
        out.append(repr(x))
    return out


def scalars(dtype: str) -> list:
    """All lattice scalars the dtype can hold, as 0-d numpy values, de-duplicated bitwise."""
    dt = np.dtype(dtype)
    seen, out = set(), []

    def add(v):
        key = np.asarray(v, dtype=dt).tobytes()
        if key not in seen:
            seen.add(key)
            out.append(np.asarray(v, dtype=dt)[()])

    if dt.kind == "b":
        add(False)
        add(True)
    elif dt.kind in "iu":
        info = np.iinfo(dt)
        for c in INT_CAND:
            if info.min <= c <= info.max:
                add(c)
    elif dt.kind == "f":
        with np.errstate(all="ignore"):
            for c in FLOAT_CAND:
                add(dt.type(c))
            for c in INT_CAND:
                add(dt.type(c))
    elif dt.kind == "c":
        add(complex(1, 0))
        add(complex(1, 2))
        add(complex(0.5, 0))
    return out


def numeric_arrays(tier: str) -> list:
    """Value descriptors of the numeric lattice: for every dtype x scalar x the shapes
    [x] (short: must be padded with the gap code), [x,1], [1,x] (position independence),
    [x,1,0] (more entries than the geometry: must be refused); thorough adds [x,x]."""
    vals = []
    one = {"b": True}
    for dtype in ["bool"] + INT_DTYPES + FLOAT_DTYPES + COMPLEX_DTYPES:
        dt = np.dtype(dtype)
        u = one.get(dt.kind, 1)
        z = False if dt.kind == "b" else 0
        for x in scalars(dtype):
            shapes = [[x], [x, u], [u, x], [x, u, z]]
            if tier == "thorough":
                shapes.append([x, x])
            for s in shapes:
                vals.append(_nd(np.array(s, dtype=dt)))
    # shapes / containers the setters treat specially
    vals.append(_nd(np.array([], dtype="float64")))
    vals.append(_nd(np.array([], dtype="int32")))
    vals.append(_nd(np.array([[1.0], [2.0]], dtype="float64")))  # 2-D: ravelled with a warning
    vals.append(_nd(np.array([[1, 0]], dtype="int32")))
    vals.append(_nd(np.array([[1.5, 2.5, 3.5]], dtype="float64")))  # 2-D and too long
    for what in ("list", "scalar", "strarr", "objarr", "numobj", "datetime", "strided", "bigendian", "str"):
        vals.append({"t": "py", "what": what})
    return dedupe(vals)


def dedupe(vals: list) -> list:
    seen, out = set(), []
    for v in vals:
        k = repr(sorted((a, repr(b)) for a, b in v.items() if a != "show"))
        if k not in seen:
            seen.add(k)
            out.append(v)
    return out


def decode(val):
    """Fresh python object for a value descriptor."""
    if val is None:
        return None
    t = val["t"]
    if t == "nd":
        return np.frombuffer(bytes.fromhex(val["hex"]), dtype=np.dtype(val["dtype"])).reshape(val["shape"]).copy()
    if t == "py":
        w = val["what"]
        return {
            "list": lambda: [1.0, 0.0],
            "scalar": lambda: 1.0,
            "strarr": lambda: np.array(["1", "0"]),
            "objarr": lambda: np.array(["a", None], dtype=object),
            "numobj": lambda: np.array([1, 0], dtype=object),
            "datetime": lambda: np.array(["2020-01-01", "2020-01-02"], dtype="datetime64[D]"),
            "strided": lambda: np.array([1.0, 9.0, 0.0, 9.0])[::2],
            "bigendian": lambda: np.array([1.0, 0.0], dtype=">f8"),
            "str": lambda: "text",
            "int": lambda: 5,
            "float": lambda: 1.5,
            "strlist": lambda: ["a", "b"],
            "numarr": lambda: np.array([1.0, 2.0]),
            "bytearray": lambda: bytearray(b"ab"),
            "u8arr": lambda: np.frombuffer(b"ab", dtype="uint8").copy(),
            "dict": lambda: {"Author": "a", "Date": "d", "Text": "t"},
            "none": lambda: None,
        }[w]()
    if t == "str":
        return val["s"]
    if t == "bytes":
        return bytes.fromhex(val["hex"])
    if t == "U":
        return np.array(list(val["items"]), dtype=str) if val["items"] else np.array([], dtype="U1")
    if t == "O":
        return np.array(list(val["items"]), dtype=object)
    if t == "S":
        return np.array([bytes.fromhex(h) for h in val["hex"]], dtype="S")
    if t == "json":
        return _untag(val["v"])
    if t == "blob":
        return bytes.fromhex(val["hex"])
    if t == "vm":
        return {_key(k): _label(lbl) for k, lbl in val["items"]}
    raise ValueError(f"unknown value descriptor {val!r}")


def _key(k):
    if "i" in k:
        return int(k["i"])
    if "npi" in k:
        return np.dtype(k.get("dtype", "int64")).type(k["npi"])
    if "f" in k:
        return float(k["f"])
    if "s" in k:
        return k["s"]
    raise ValueError(k)


def _label(lbl):
    if isinstance(lbl, dict):
        if "i" in lbl:
            return int(lbl["i"])
        if "hex" in lbl:
            return bytes.fromhex(lbl["hex"])
        if "none" in lbl:
            return None
    return lbl


def _untag(v):
    """JSON description -> python value (tags for the things JSON cannot say)."""
    if isinstance(v, dict):
        if set(v) == {"__uuid__"}:
            return uuid.UUID(v["__uuid__"])
        if set(v) == {"__bytes__"}:
            return bytes.fromhex(v["__bytes__"])
        if set(v) == {"__nd__"}:
            return np.array(v["__nd__"])
        if set(v) == {"__set__"}:
            return set(v["__set__"])
        if set(v) == {"__npi__"}:
            return np.int64(v["__npi__"])
        if set(v) == {"__npf__"}:
            return np.float64(v["__npf__"])
        if set(v) == {"__float__"}:
            return float(v["__float__"])
        if set(v) == {"__tuple__"}:
            return tuple(_untag(x) for x in v["__tuple__"])
        return {k: _untag(x) for k, x in v.items()}
    if isinstance(v, list):
        return [_untag(x) for x in v]
    return v


# ---------------------------------------------------------------------------
# text
# ---------------------------------------------------------------------------
UID_STR = "{00000000-0000-0000-0000-000000000000}"
STRINGS_Q = ["", "a", "é", "日本", "⁄", "/", UID_STR, "x" * 300, "a\x00b", "😀", "é", " a ", "l1\nl2", "nan"]
STRINGS_T = STRINGS_Q + ["\ud800", "\x7f\x80\xff", "\ufeffbom", "1.5", "{\"Comments\": []}", "\\", "'\"", "\u202e"]


def text_values(tier: str) -> list:
    strings = STRINGS_Q if tier == "quick" else STRINGS_T
    vals = []
    for s in strings:
        vals.append({"t": "str", "s": s})
        try:
            raw = s.encode("utf-8")
        except UnicodeEncodeError:
            raw = None
        if raw is not None:
            vals.append({"t": "bytes", "hex": raw.hex()})
        for items in ([s], [s, "b"], ["b", s], [s, "b", "c"]):
            if s.endswith("\x00"):
                continue
            vals.append({"t": "U", "items": items})
            if tier == "thorough" or items == [s, "b"]:
                vals.append({"t": "O", "items": items})
            if raw is not None and "\x00" not in s and (tier == "thorough" or items == [s, "b"]):
                vals.append({"t": "S", "hex": [x.encode("utf-8").hex() for x in items]})
    # byte strings that are not UTF-8, alone and inside arrays
    for raw in (b"\xff", b"\xc3", b"\xe9t\xe9"):
        vals.append({"t": "bytes", "hex": raw.hex()})
        vals.append({"t": "S", "hex": [raw.hex(), b"b".hex()]})
        vals.append({"t": "S", "hex": [b"b".hex(), raw.hex()]})
    for what in ("int", "float", "strlist", "numarr", "dict"):
        vals.append({"t": "py", "what": what})
    return dedupe(vals)


# ---------------------------------------------------------------------------
# comments, blobs, metadata, value maps
# ---------------------------------------------------------------------------
def _c(author, text, date="2020-05-21T10:12:15"):
    return {"Author": author, "Date": date, "Text": text}


def comment_values(tier: str) -> list:
    good = [
        [_c("me", "a")],
        [_c("é", "日本")],
        [_c("me", "a"), _c("Zoë", "l1\nl2 ⁄ / \\ \" '")],
        [_c("", "")],
        [_c("me", "x" * 300)],
        [_c("me", UID_STR)],
        [_c("me", "😀")],
        [],
    ]
    bad = [
        [{"Author": "me", "Text": "no date"}],
        [{"Date": "d", "Author": "me", "Text": "order"}],
        [{"Author": "me", "Date": "d", "Text": "t", "Extra": 1}],
        ["not a dict"],
        [_c("me", "a"), "second not a dict"],
        [_c("me", {"__bytes__": "ff"})],
        [_c("me", {"__nd__": [1, 2]})],
    ]
    if tier == "thorough":
        good += [[_c("me", 5)], [_c("me", None)], [_c("me", "a\x00b")], [_c("me", "\ud800")], [_c("me", {"__float__": "nan"})]]
        bad += [[_c({"__set__": [1]}, "a")], [_c("me", {"__uuid__": str(uuid.UUID(int=7))})]]
    vals = [{"t": "json", "v": v} for v in good + bad]
    vals += [{"t": "py", "what": w} for w in ("str", "dict", "int")]
    return vals


def blob_values(tier: str) -> list:
    blobs = [b"", b"\x00", b"a", b"ab\x00\x00", b"\x00\x00ab", bytes(range(256)) * 4, "é".encode("utf-8"), b"\xff\xfe"]
    if tier == "thorough":
        blobs += [b"\x00" * 1000, bytes(range(256)) * 64, b"\n", b"%PDF-1.4\n\x00\xff"]
    vals = [{"t": "blob", "hex": b.hex()} for b in blobs]
    vals += [{"t": "py", "what": w} for w in ("str", "bytearray", "u8arr", "none")]
    return vals


U5 = {"__uuid__": str(uuid.UUID(int=5))}


def metadata_values(tier: str) -> list:
    good = [
        {"a": "é"},
        {"日本": "⁄/"},
        {"a": 1, "b": 1.5, "c": True, "d": None, "e": [1, 2.5, None, "x"]},
        {"u": U5},
        {"n": {"u": U5, "s": "x"}},
        {"n": {"m": {"k": "deep", "l": [1, {"z": 2}]}}},
        {"big": 2**63, "neg": -(2**31) - 1, "f": 1e300, "tiny": 5e-324, "ndv": FLOAT_NDV},
        {"f": {"__float__": "nan"}},
        {"f": {"__float__": "inf"}},
        {"s": "x" * 300, "e": ""},
        {"npf": {"__npf__": 0.1}},
        {},
    ]
    bad = [
        {"x": {"__nd__": [0, 1]}},
        {"b": {"__bytes__": "78"}},
        {"n": {"s": {"__set__": [1]}}},
        {"i": {"__npi__": 3}},
    ]
    if tier == "thorough":
        good += [
            {"n": {"m": {"u": U5}}},
            {"l": [U5]},
            {"s": "{00000000-0000-0000-0000-000000000005}"},
            {"Coordinate Reference System": {"Current": {"Code": "EPSG:4326", "Name": "WGS 84"}}},
            {"t": {"__tuple__": [1, 2]}},
            {"k": "a\x00b"},
            {"k": "\ud800"},
        ]
    vals = [{"t": "json", "v": v} for v in good + bad]
    vals += [{"t": "py", "what": w} for w in ("str", "strlist", "int")]
    return vals


def vmap_values(tier: str) -> list:
    def vm(*items):
        return {"t": "vm", "items": [[k, lbl] for k, lbl in items]}

    i = lambda n: {"i": n}  # noqa: E731
    vals = [
        vm(),
        vm((i(1), "a")),
        vm((i(0), "Unknown"), (i(1), "é")),
        vm((i(1), "a"), (i(2), "日本"), (i(3), "")),
        vm((i(0), "zero")),
        vm((i(0), "unknown")),
        vm((i(-1), "neg")),
        vm((i(1), {"i": 2})),
        vm((i(1), {"hex": "61"})),
        vm(({"s": "1"}, "a")),
        vm(({"f": 1.0}, "a")),
        vm(({"f": 1.5}, "a")),
        vm(({"npi": 3}, "c")),
        vm((i(255), "u8max"), (i(256), "u8+1")),
        vm((i(65535), "u16max"), (i(65536), "u16+1"), (i(65537), "u16+2")),
        vm((i(2**31 - 1), "i32max"), (i(2**31), "i32+1")),
        vm((i(2**32 - 1), "u32max")),
        vm((i(2**32), "u32+1")),
        vm((i(2**32 + 1), "u32+2")),
        vm((i(1), "a"), (i(2**32 + 1), "alias of 1")),
        vm((i(2**64), "u64+1")),
        vm((i(1), "x" * 300), (i(2), UID_STR)),
        vm((i(0), "False"), (i(1), "True")),
        vm((i(1), "a\x00b")),
    ]
    if tier == "thorough":
        vals += [
            vm((i(1), "\ud800")),
            vm((i(0), "Unknown")),
            vm((i(1), "True"), (i(0), "Unknown")),
            vm(({"npi": 2**32 + 2, "dtype": "int64"}, "np wide")),
            vm(({"npi": 200, "dtype": "uint8"}, "np u8")),
            vm((i(1), {"none": 1})),
            vm((i(1), " a "), (i(2), "l1\nl2"), (i(3), "😀")),
        ]
    vals += [{"t": "py", "what": w} for w in ("strlist", "str", "int")]
    return vals


# ---------------------------------------------------------------------------
# canonical first values (the stored state a second write starts from)
# ---------------------------------------------------------------------------
def canon(fam: str, kind: str, which: str = "full", path: str = "node"):
    """A representable value of the canonical input type of the kind.  which: full | short |
    gap | alt (another dtype / length than `full`)."""
    if fam == "num":
        if kind == "float":
            arr = {"full": [1.5, 2.5], "short": [3.5], "gap": [math.nan, 4.5], "alt": [7.0, 8.0]}[which]
            return _nd(np.array(arr, dtype="float32" if which == "alt" else "float64"))
        if kind in ("int", "ref"):
            arr = {"full": [1, 2], "short": [2], "gap": [INTEGER_NDV, 1], "alt": [2, 1]}[which]
            return _nd(np.array(arr, dtype="int64" if which == "alt" else "int32"))
        if kind == "bool":
            arr = {"full": [True, False], "short": [True], "gap": [False, False], "alt": [0, 1]}[which]
            return _nd(np.array(arr, dtype="int8" if which == "alt" else "bool"))
    if fam == "text":
        return {
            "full": {"t": "U", "items": ["p", "q"]},
            "short": {"t": "str", "s": "old"} if path != "concat" else {"t": "U", "items": ["old"]},
            "gap": {"t": "U", "items": ["", "q"]},
            "alt": {"t": "U", "items": ["é", "日本", "r"]},
        }[which]
    if fam == "comment":
        return {"t": "json", "v": [_c("old", "old text")]} if which != "alt" else {"t": "json", "v": [_c("o1", "é"), _c("o2", "t2")]}
    if fam == "blob":
        return {"t": "blob", "hex": (b"old\x00blob" if which != "alt" else b"O").hex()}
    if fam == "meta":
        return {"t": "json", "v": {"old": "kept", "a": "old a"}} if which != "alt" else {"t": "json", "v": {"old": {"u": U5}}}
    if fam == "vmap":
        return {"t": "vm", "items": [[{"i": 1}, "old1"], [{"i": 2}, "old2"]]} if which != "alt" else {"t": "vm", "items": [[{"i": 7}, "é"]]}
    raise ValueError((fam, kind, which))


# ---------------------------------------------------------------------------
# cases
# ---------------------------------------------------------------------------
def _modes(fam, kind, v, tier, allow_none=True, path="node"):
    """Step templates around one lattice value v (depth 1 and depth 2 with one canonical side)."""
    c = canon(fam, kind, "full", path)
    out = [
        [["create", v]],
        [["create", c], ["set", v]],
        [["create", c], ["reopen"], ["set", v]],
    ]
    if tier == "thorough":
        for which in ("short", "gap", "alt"):
            cw = canon(fam, kind, which, path)
            if cw != c:
                out.append([["create", cw], ["set", v]])
                out.append([["create", cw], ["reopen"], ["set", v]])
        if allow_none:
            out.append([["create", None], ["set", v]])
            out.append([["create", None], ["reopen"], ["set", v]])
        # the lattice value as the *old* state, a canonical value written over it
        out.append([["create", v], ["set", c]])
        out.append([["create", v], ["reopen"], ["set", c]])
        out.append([["create", v], ["reopen"]])
    return out


def cases(tier: str) -> list:
    out = []
    nums = numeric_arrays(tier)
    for kind in ("float", "int", "bool", "ref"):
        for v in nums:
            for steps in _modes("num", kind, v, tier):
                out.append({"fam": "num", "kind": kind, "path": "node", "steps": steps})
    # concatenated drillhole storage (float32 on file): full float lattice, boundary subset for the others
    for kind in ("float", "int", "bool", "ref"):
        for v in nums:
            if v["t"] == "nd":
                if kind != "float" and tier == "quick" and not (len(v["shape"]) == 1 and v["shape"][0] in (1, 2) and v["dtype"] in ("int64", "float64", "bool", "int32", "uint8")):
                    continue
                if kind == "float" and tier == "quick" and v["dtype"] not in ("float64", "float32", "int64"):
                    continue
            elif tier == "quick":
                continue
            modes = _modes("num", kind, v, tier, allow_none=False, path="concat")
            if tier == "quick":
                modes = modes[:2]
            for steps in modes:
                out.append({"fam": "num", "kind": kind, "path": "concat", "steps": steps})
    for v in text_values(tier):
        for steps in _modes("text", "text", v, tier):
            out.append({"fam": "text", "kind": "text", "path": "node", "steps": steps})
        if v["t"] in ("U", "S", "O") and (tier == "thorough" or len(v.get("items", v.get("hex"))) == 2):
            for steps in _modes("text", "text", v, tier, allow_none=False, path="concat")[: (2 if tier == "quick" else None)]:
                out.append({"fam": "text", "kind": "text", "path": "concat", "steps": steps})
    for fam, gen in (("comment", comment_values), ("blob", blob_values), ("meta", metadata_values), ("vmap", vmap_values)):
        for v in gen(tier):
            for steps in _modes(fam, fam, v, tier, allow_none=fam in ("meta", "vmap", "comment")):
                out.append({"fam": fam, "kind": fam, "path": "node", "steps": steps})
    # value maps edited in place (the object handed out by the library) and assigned back
    c = canon("vmap", "vmap", "full", "node")
    for v in vmap_values(tier):
        out.append({"fam": "vmap", "kind": "vmap", "path": "node", "steps": [["create", c], ["edit", v]]})
        out.append({"fam": "vmap", "kind": "vmap", "path": "node", "steps": [["create", c], ["reopen"], ["edit", v]]})
        if tier == "thorough":
            out.append({"fam": "vmap", "kind": "vmap", "path": "node", "steps": [["create", c], ["edit", v], ["reopen"], ["edit", c]]})
    out.append({"fam": "comment", "kind": "comment", "path": "add_comment", "steps": [["create", {"t": "json", "v": [_c("é", "日本", None)]}], ["set", {"t": "json", "v": [_c("Zoë", "2nd ⁄", None)]}]]})
    out.append({"fam": "comment", "kind": "comment", "path": "add_comment-group", "steps": [["create", {"t": "json", "v": [_c("é", "日本", None)]}], ["reopen"], ["set", {"t": "json", "v": [_c("Zoë", "2nd ⁄", None)]}]]})
    out += foreign_cases(tier)
    return out


def foreign_cases(tier: str) -> list:
    """Files whose 'Data' dataset was written by another producer (ANALYST writes 32-bit
    floats): the reader must map the no-data code of the dataset's own width to NaN."""
    out = []
    for dtype in ("float32", "float64"):
        for x in scalars(dtype):
            for arr in ([x, 1], [1, x]):
                out.append({"fam": "foreign", "kind": "float", "path": "node", "steps": [["raw", _nd(np.array(arr, dtype=dtype))]]})
    for arr, dtype in (([1, INTEGER_NDV], "int32"), ([INTEGER_NDV, 2**31 - 1], "int32")):
        out.append({"fam": "foreign", "kind": "int", "path": "node", "steps": [["raw", _nd(np.array(arr, dtype=dtype))]]})
    return out
