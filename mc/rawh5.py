"""Independent reader of geoh5 files, written from docs/content/geoh5_format (never
imports geoh5py).  Three services on the bytes of a *closed* file:

validate(b)   structural validity, one clause per sentence of property C02
tree(b)       semantic content of every stored entity / type (for C01, C03, C05 ...)
digests(b)    per-node hashes of attributes / datasets / link names (C09, C10, C12)
"""

from __future__ import annotations

import hashlib
import io
import json
import re

import h5py
import numpy as np

KINDS = ("Data", "Groups", "Objects")
TYPE_KINDS = {"Data": "Data types", "Groups": "Group types", "Objects": "Object types"}
UID_RE = re.compile(r"^\{[0-9a-fA-F]{8}-[0-9a-fA-F]{4}-[0-9a-fA-F]{4}-[0-9a-fA-F]{4}-[0-9a-fA-F]{12}\}$")


def open_bytes(b):
    if isinstance(b, (bytes, bytearray, memoryview)):
        return h5py.File(io.BytesIO(bytes(b)), "r")
    return h5py.File(str(b), "r")


def addr(obj) -> int:
    return h5py.h5o.get_info(obj.id).addr


def _s(v):
    if isinstance(v, bytes):
        return v.decode("utf-8")
    if isinstance(v, np.ndarray) and v.dtype == object:
        return [_s(x) for x in v.tolist()]
    if isinstance(v, np.ndarray):
        return v.tolist()
    if isinstance(v, np.generic):
        return v.item()
    return v


def norm_uid(s) -> str:
    s = _s(s)
    return str(s).strip("{}").lower()


# ---------------------------------------------------------------------------
def validate(b) -> list:
    """Return a list of (clause, witness, detail) for every broken sentence of C02."""
    out = []
    with open_bytes(b) as f:
        tops = list(f)
        if len(tops) != 1 or not isinstance(f[tops[0]], h5py.Group):
            return [("skeleton", "project-group", {"top": tops})]
        proj = f[tops[0]]
        for k in KINDS + ("Types",):
            if k not in proj or not isinstance(proj[k], h5py.Group):
                out.append(("skeleton", f"missing:{k}", {}))
        if out:
            return out
        # Root link
        root_addr = None
        lnk = proj.get("Root", getlink=True)
        if lnk is None:
            out.append(("root-link", "absent", {}))
        elif not isinstance(lnk, h5py.HardLink):
            out.append(("root-link", "not-hard", {"link": type(lnk).__name__}))
        else:
            root_addr = addr(proj["Root"])
            if root_addr not in {addr(n) for n in proj["Groups"].values()}:
                out.append(("root-link", "not-in-Groups", {}))

        flat = {}  # (kind, key) -> addr
        by_addr = {}
        uids_seen = {}
        type_nodes = {}  # (typekind, uid) -> addr
        for tk in TYPE_KINDS.values():
            if tk in proj["Types"]:
                for key, node in proj["Types"][tk].items():
                    type_nodes[(tk, norm_uid(key))] = addr(node)
                    if not UID_RE.match(key):
                        out.append(("id-key", f"type-key:{tk}", {"key": key}))
                    elif "ID" not in node.attrs or norm_uid(node.attrs["ID"]) != norm_uid(key):
                        out.append(("id-key", f"type-ID-attr:{tk}", {"key": key, "ID": _s(node.attrs.get("ID"))}))
        tuids = {}
        for (tk, u) in type_nodes:
            tuids.setdefault(u, []).append(tk)
        for u, tks in tuids.items():
            if len(tks) > 1:
                out.append(("unique-id", "type-twice", {"uid": u, "in": tks}))

        for kind in KINDS:
            for key, node in proj[kind].items():
                if not isinstance(node, h5py.Group):
                    out.append(("id-key", f"not-a-group:{kind}", {"key": key}))
                    continue
                a = addr(node)
                flat[(kind, key)] = a
                by_addr[a] = (kind, key)
                if not UID_RE.match(key):
                    out.append(("id-key", f"key:{kind}", {"key": key}))
                    continue
                if "ID" not in node.attrs:
                    out.append(("id-key", f"ID-missing:{kind}", {"key": key}))
                elif norm_uid(node.attrs["ID"]) != norm_uid(key):
                    out.append(("id-key", f"ID-mismatch:{kind}", {"key": key, "ID": _s(node.attrs["ID"])}))
                uids_seen.setdefault(norm_uid(key), []).append(kind)
                # Type link
                tl = node.get("Type", getlink=True)
                if tl is None:
                    out.append(("type-link", f"absent:{kind}", {"key": key}))
                elif not isinstance(tl, h5py.HardLink):
                    out.append(("type-link", f"not-hard:{kind}", {"key": key}))
                else:
                    tnode = node["Type"]
                    tid = norm_uid(tnode.attrs["ID"]) if "ID" in tnode.attrs else None
                    want = type_nodes.get((TYPE_KINDS[kind], tid))
                    if want is None:
                        out.append(("type-link", f"type-not-in-Types:{kind}", {"key": key, "type": tid}))
                    elif want != addr(tnode):
                        out.append(("type-link", f"copy-not-shared:{kind}", {"key": key, "type": tid}))
        for u, ks in uids_seen.items():
            if len(ks) > 1:
                out.append(("unique-id", "uid-twice", {"uid": u, "in": ks}))

        # parent -> child entries
        indeg = {k: 0 for k in flat}
        edges = {}
        for (kind, key), a in flat.items():
            node = proj[kind][key]
            for sub in KINDS:
                if kind == "Data" or sub not in node:
                    continue  # a Data node holds its values in a dataset called "Data"
                cont = node[sub]
                if not isinstance(cont, h5py.Group):
                    out.append(("child-hardlink", f"container-not-group:{kind}/{sub}", {"key": key}))
                    continue
                for ckey in cont:
                    cl = cont.get(ckey, getlink=True)
                    if not isinstance(cl, h5py.HardLink):
                        out.append(("child-hardlink", f"not-hard:{kind}/{sub}", {"parent": key, "child": ckey}))
                        continue
                    if (sub, ckey) not in flat:
                        out.append(("child-hardlink", f"dangling:{kind}/{sub}", {"parent": key, "child": ckey}))
                        continue
                    if addr(cont[ckey]) != flat[(sub, ckey)]:
                        out.append(("child-hardlink", f"not-same-object:{kind}/{sub}", {"parent": key, "child": ckey}))
                        continue
                    indeg[(sub, ckey)] += 1
                    edges.setdefault((kind, key), []).append((sub, ckey))
        root_key = by_addr.get(root_addr)
        for k, n in indeg.items():
            if k == root_key:
                if n != 0:
                    out.append(("one-parent", "root-has-parent", {"node": k}))
                continue
            if n == 0:
                out.append(("one-parent", f"orphan:{k[0]}", {"node": k}))
            elif n > 1:
                out.append(("one-parent", f"multi-parent:{k[0]}", {"node": k, "n": n}))
        if root_key is not None:
            seen = {root_key}
            stack = [root_key]
            while stack:
                cur = stack.pop()
                for ch in edges.get(cur, []):
                    if ch not in seen:
                        seen.add(ch)
                        stack.append(ch)
            for k in flat:
                if k not in seen and indeg[k] > 0:
                    out.append(("one-parent", f"unreachable:{k[0]}", {"node": k}))
        # property groups
        for key, node in proj["Objects"].items():
            if "PropertyGroups" not in node:
                continue
            kids = {norm_uid(k) for k in node["Data"]} if "Data" in node else set()
            for pgk, pg in node["PropertyGroups"].items():
                if "ID" in pg.attrs and norm_uid(pg.attrs["ID"]) != norm_uid(pgk):
                    out.append(("id-key", "pg-ID-mismatch", {"object": key, "pg": pgk}))
                props = pg.attrs.get("Properties")
                if props is None:
                    continue
                props = np.atleast_1d(props)
                for p in props.tolist():
                    if norm_uid(p) not in kids:
                        out.append(("pg-members", "not-a-child", {"object": key, "pg": pgk, "member": norm_uid(p)}))
    return out


# ---------------------------------------------------------------------------
def _arr(v):
    """Canonical, JSON-able value of an array / scalar / attribute (by value)."""
    if isinstance(v, np.ndarray):
        if v.dtype.names:
            return {"fields": list(v.dtype.names), "rows": [[_arr(x) for x in row] for row in v.tolist()]}
        if v.dtype == object:
            return [_s(x) for x in v.ravel().tolist()]
        if v.dtype.kind == "V":
            return {"void": v.tobytes().hex()}
        if v.dtype.kind == "f":
            return [None if x != x else (x if abs(x) != float("inf") else repr(x)) for x in v.astype(float).ravel().tolist()]
        return v.ravel().tolist()
    if isinstance(v, np.void):
        return {"void": v.tobytes().hex()}
    if isinstance(v, bytes):
        try:
            return v.decode("utf-8")
        except UnicodeDecodeError:
            return {"bytes": v.hex()}
    if isinstance(v, np.generic):
        v = v.item()
    if isinstance(v, float):
        if v != v:
            return None
        if abs(v) == float("inf"):
            return repr(v)
    if isinstance(v, (list, tuple)):
        return [_arr(x) for x in v]
    return v


def _attrs(node) -> dict:
    return {k: _arr(node.attrs[k]) for k in sorted(node.attrs)}


def _dsets(node) -> dict:
    out = {}
    for k, v in node.items():
        if isinstance(v, h5py.Dataset):
            val = v[()]
            out[k] = {"dtype": str(v.dtype), "shape": list(v.shape), "v": _arr(val)}
            if len(v.attrs):
                out[k]["attrs"] = _attrs(v)
    return out


def _h(obj) -> str:
    return hashlib.sha256(json.dumps(obj, sort_keys=True, default=repr).encode()).hexdigest()[:16]


def tree(b, light=False) -> dict:
    """Semantic dump: {'project': attrs, 'nodes': {(kind, uid): {...}}, 'types': {...}, 'root': uid}.
    light=True skips attribute and dataset contents (structure and property groups only)."""
    res = {"project": {}, "nodes": {}, "types": {}, "root": None, "name": None}
    with open_bytes(b) as f:
        tops = list(f)
        proj = f[tops[0]]
        res["name"] = tops[0]
        res["project"] = _attrs(proj)
        if "Root" in proj:
            ra = addr(proj["Root"])
        else:
            ra = None
        if "Types" in proj:
            for tk in TYPE_KINDS.values():
                if tk in proj["Types"]:
                    for key, node in proj["Types"][tk].items():
                        res["types"][(tk, norm_uid(key))] = {"attrs": {} if light else _attrs(node), "dsets": {} if light else _dsets(node)}
        for kind in KINDS:
            if kind not in proj:
                continue
            for key, node in proj[kind].items():
                if not isinstance(node, h5py.Group):
                    continue
                ent = {"attrs": {} if light else _attrs(node), "dsets": {} if light else _dsets(node), "children": {}, "type": None, "pgs": {}, "concat": None}
                if ra is not None and addr(node) == ra:
                    res["root"] = norm_uid(key)
                for sub in KINDS:
                    if kind != "Data" and sub in node and isinstance(node[sub], h5py.Group):
                        ent["children"][sub] = sorted(norm_uid(k) for k in node[sub])
                if "Type" in node and isinstance(node["Type"], h5py.Group) and "ID" in node["Type"].attrs:
                    ent["type"] = norm_uid(node["Type"].attrs["ID"])
                if "PropertyGroups" in node:
                    for pgk, pg in node["PropertyGroups"].items():
                        ent["pgs"][norm_uid(pgk)] = _attrs(pg)
                if "Concatenated Data" in node and not light:
                    ent["concat"] = _concat(node["Concatenated Data"])
                res["nodes"][(kind, norm_uid(key))] = ent
    return res


def _concat(cg) -> dict:
    out = {"index": {}, "data": {}, "other": {}, "attributes": None}
    for k, v in cg.items():
        if k == "Index" and isinstance(v, h5py.Group):
            for lab, ds in v.items():
                rows = ds[()]
                out["index"][lab] = [
                    (int(r[0]), int(r[1]), norm_uid(r[2]), norm_uid(r[3])) for r in rows.tolist()
                ]
        elif k == "Data" and isinstance(v, h5py.Group):
            for lab, ds in v.items():
                out["data"][lab] = ds[()]
        elif isinstance(v, h5py.Dataset):
            val = v[()]
            if k in ("Attributes", "Attributes Jsons"):
                if k == "Attributes":
                    txt = val[0] if isinstance(val, np.ndarray) else val
                    out["attributes"] = json.loads(_s(txt))["Attributes"]
                else:
                    out["attributes"] = [json.loads(_s(x)) for x in np.atleast_1d(val).tolist()]
                out["attr_key"] = k
            else:
                out["other"][k] = val
    return out


def digests(b) -> dict:
    """node key -> {'attrs','dsets','links','type','pgs'} hashes; plus project header and
    types.  Concatenated groups get one entry per record and per (label, object, data)
    slice *content* (offsets excluded), so index shifts are not collateral damage."""
    t = tree(b)
    d = {("project",): {"attrs": _h(t["project"])}}
    for k, v in t["types"].items():
        d[("type",) + k] = {"attrs": _h(v["attrs"]), "dsets": _h(v["dsets"])}
    for k, v in t["nodes"].items():
        dsets = v["dsets"]
        d[("node",) + k] = {
            "attrs": _h(v["attrs"]),
            "dsets": _h(dsets),
            "links": _h(v["children"]),
            "type": v["type"],
            "pgs": _h(v["pgs"]),
        }
        c = v["concat"]
        if c is not None:
            for rec in c["attributes"] or []:
                rid = norm_uid(rec.get("ID", "?"))
                d[("concat-record", k[1], rid)] = {"attrs": _h(rec)}
            for lab, rows in c["index"].items():
                arr = c["data"].get(lab)
                if arr is None:
                    arr = c["other"].get(lab)
                for (start, size, oid, did) in rows:
                    sl = None if arr is None else _arr(arr[start : start + size])
                    d[("concat-slice", k[1], lab, oid, did)] = {"dsets": _h(sl)}
    return d


def diff_digests(before: dict, after: dict) -> dict:
    """{node key: set(components that differ)}; created / deleted nodes get {'created'}/{'deleted'}."""
    out = {}
    for k in set(before) | set(after):
        if k not in before:
            out[k] = {"created"}
        elif k not in after:
            out[k] = {"deleted"}
        else:
            comp = {c for c in set(before[k]) | set(after[k]) if before[k].get(c) != after[k].get(c)}
            if comp:
                out[k] = comp
    return out
