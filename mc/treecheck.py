"""Shared execution + oracle clauses for the tree properties (C01, C02, C05, C06, C09, C11)."""

from __future__ import annotations

import io

from . import core, observe, rawh5, treeops, world

C01_FIELDS = (
    "uid",
    "cls",
    "parent",
    "name",
    "children",
    "association",
    "values",
    "metadata",
    "pgs",
) + treeops.FLAGS + observe.ARRAY_ATTRS + ("modifiable",)


def _run(ex, history, want):
    """`want` is either a tuple of observer names for the standard protocol, or a protocol
    object with optional `before_last(ex, history)` and mandatory `observe(ex, history)`."""
    ops = history["ops"]
    proto = None if isinstance(want, (tuple, list)) else want
    ex.run(ops[:-1])
    ex.before = proto.before_last(ex, history) if (proto is not None and ops and hasattr(proto, "before_last")) else None
    ex.gc_armed = True
    ex.run(ops[-1:])
    ex.gc_armed = False
    key = canon_key(ex)  # before the final observation, which itself loads lazy fields
    mkey = model_key(ex)
    obs = proto.observe(ex, history) if proto is not None else ex.finish(want)
    obs["key"] = key
    obs["model_key"] = mkey
    return obs


def _template(history):
    ex = treeops.TreeExec(history.get("cfg"))
    scene = treeops.SCENES[history.get("scene", "S0")]
    ex.run(scene)
    ex.n_scene = len(scene)
    return ex


def execute(history, want=("live", "reopen")):
    """Plain in-process run of scene + ops on a fresh workspace: (executor, observations).
    This is what replay files use - no explorer, no fork."""
    ex = _template(history)
    obs = _run(ex, history, want)
    return ex, obs


_TEMPLATES: dict = {}


def execute_forked(history, body, want=("live", "reopen")):
    """Same as `body(*execute(history))`, but the scene is built once per worker and every
    history runs in a forked copy of that live state (copy-on-write clone of the Python
    objects *and* of the in-memory HDF5 file).  body must return something picklable."""
    import os
    import pickle

    tkey = core.jdump([history.get("scene", "S0"), history.get("cfg")])
    if tkey not in _TEMPLATES:
        if len(_TEMPLATES) > 8:
            _TEMPLATES.clear()
        _TEMPLATES[tkey] = (_template(history), world.uid_counter())
    ex, uid_n = _TEMPLATES[tkey]
    rfd, wfd = os.pipe()
    pid = os.fork()
    if pid == 0:
        code = 0
        try:
            os.close(rfd)
            world._STATE["n"] = uid_n  # pylint: disable=protected-access
            world._STATE["order"] = ex.cfg["uid_order"]  # pylint: disable=protected-access
            obs = _run(ex, history, want)
            out = pickle.dumps(("ok", body(ex, obs)))
        except BaseException:  # pylint: disable=broad-except
            import traceback

            out = pickle.dumps(("err", traceback.format_exc()))
            code = 1
        try:
            with os.fdopen(wfd, "wb") as fh:
                fh.write(out)
        finally:
            os._exit(code)
    os.close(wfd)
    with os.fdopen(rfd, "rb") as fh:
        data = fh.read()
    os.waitpid(pid, 0)
    status, payload = pickle.loads(data)
    if status != "ok":
        raise core.HarnessError(f"forked execution failed for {history!r}:\n{payload}")
    return payload


def _proj_c01(tree: dict) -> dict:
    out = {}
    for uid, rec in tree.items():
        out[uid] = {k: v for k, v in rec.items() if k in C01_FIELDS}
        if "association" in rec and isinstance(rec.get("type"), dict):
            out[uid]["type_uid"] = rec["type"].get("uid")  # a re-assigned data type is something the user did
    return out


def clauses_c01(ex, obs) -> list:
    """(a) re-open == live; (b) live == model ("nothing lost, duplicated or resurrected")."""
    out = []
    if obs.get("reopen_error"):
        return [("file-opens-again", obs["reopen_error"], {"results": ex.results[-6:]})]
    for tag, live, reo, rootname in (("", obs["live"], obs["reopen"], "root"), ("ws2:", obs["live2"], obs["reopen2"], "root2")):
        if live is None:
            continue
        wsn = 1 if rootname == "root" else 2
        if live["dup"] or reo["dup"]:
            out.append(("no-duplicates", f"{tag}dup-in-tree", {"live": live["dup"], "reopen": reo["dup"]}))
        a, b = _proj_c01(live["tree"]), _proj_c01(reo["tree"])
        d = observe.diff(a, b)
        if d:
            out.append(("reopen-equals-live", tag + _witness(ex, d, live["tree"], reo["tree"]), {"diff": d[:12], "ops": ex_ops(ex)}))
        exp = ex.expected(wsn)
        got = treeops.project(live["tree"], treeops.root_uid_of(live), rootname)
        d = observe.diff(exp, got)
        if d:
            out.append(("live-equals-model", tag + _witness(ex, d, exp, got), {"diff": d[:12], "ops": ex_ops(ex)}))
        # listings of a freshly opened workspace show exactly the tree
        rl = reo["listed"]
        tree_uids = sorted(u for u in reo["tree"] if u != treeops.root_uid_of(reo))
        listed = sorted(set(rl["groups"] + rl["objects"] + rl["data"]) - {treeops.root_uid_of(reo)})
        if listed != tree_uids:
            out.append(("reopen-listing-equals-tree", tag + "listing", {"listed": listed, "tree": tree_uids}))
    return out


def ex_all_ops(ex):
    return getattr(ex, "all_ops", [])


def ex_ops(ex):
    return ex.results[-6:]


def _witness(ex, difflines, left, right) -> str:
    """Stable, specific description of *what* differs: entity kind + field of the first
    difference (sorted), never the uid."""
    idx_of = {str(u): i for i, u in ex.uid.items()}
    items = set()
    for ln in difflines:
        path = ln.split(":")[0]
        parts = [p for p in path.split("/") if p]
        uid = parts[0] if parts else "?"
        field = parts[1].split("[")[0] if len(parts) > 1 else "entity"
        rec = left.get(uid) or right.get(uid) or {}
        kind = rec.get("kind") or ("data" if "association" in rec else "object" if "vertices" in rec else "group")
        how = ""
        if len(parts) == 1:
            how = "-missing-right" if "missing on right" in ln else "-missing-left" if "missing on left" in ln else ""
            i = idx_of.get(uid)
            if i is not None and i in ex.model.removed:
                how += f"(removed-via-{ex.model.removed[i]})"
        items.add(f"{kind}.{field}{how}")
    return ",".join(sorted(items)[:3])


def fate(ex, wsn, uid_str) -> str:
    """What the history did to the entity stored under this uid (for witnesses)."""
    for i, u in ex.uid.items():
        if str(u) == uid_str and ex.model.ws_of.get(i) == wsn:
            if i in ex.model.removed:
                how = ex.model.removed[i]
                return "removed-through-" + how.split(":")[-1]
            return "live-entity"
    return "untracked"


def fate_any_removed_through_parent(ex, wsn, uid_str) -> bool:
    for i, u in ex.uid.items():
        if str(u) == uid_str and ex.model.ws_of.get(i) == wsn and i in ex.model.removed:
            if ex.model.removed[i].split(":")[-1] == "parent":
                return True
    return False


def clauses_c02(ex, obs) -> list:
    """Structural validity of the bytes after EVERY close along the way."""
    out = []
    seen = set()
    for (pos, b1, b2) in ex.closed_bytes:
        for tag, b, wsn in (("", b1, 1), ("ws2:", b2, 2)):
            if b is None:
                continue
            for clause, wit, detail in rawh5.validate(b):
                node = detail.get("node") if isinstance(detail, dict) else None
                if node is None and isinstance(detail, dict) and "key" in detail:
                    node = ("?", detail["key"])
                if node is not None:
                    f = fate(ex, wsn, rawh5.norm_uid(node[1]))
                    if f.startswith("removed-through-"):
                        # the node should not exist at all: whatever is wrong with it
                        # (orphan, unreachable, dangling type) is one and the same defect
                        clause, wit = "one-parent", f"left-on-file:{f}"
                    else:
                        wit += f"({f})"
                if (clause, tag + wit) in seen:
                    continue
                seen.add((clause, tag + wit))
                out.append((clause, wit, {"ws": wsn, "detail": detail, "at_close_after_op": pos, "results": ex.results[-6:]}))
    return out


# ---------------------------------------------------------------------------
def canon_key(ex, obs=None) -> str:
    """Canonical key of a state: the model tree with creation indices forgotten (sibling
    creation order kept), plus implementation-only hidden state that later operations can
    depend on: which lazily loaded fields are in memory, policy, dead/alive registry sizes,
    orphan nodes left in the file."""
    m = ex.model

    # canonical position of every node: ranks among siblings (by creation) from its root
    paths = {}

    def walk_paths(handle, prefix):
        for rank, c in enumerate(sorted(m.kids(handle))):
            paths[c] = prefix + (rank,)
            walk_paths(c, paths[c])

    for r in m.roots:
        walk_paths(r, (r,))
    by_uid = {}
    for i in m.nodes:
        by_uid.setdefault(str(ex.uid[i]), []).append(i)

    def twin(idx):
        """position of the entity of the OTHER workspace that carries the same identifier
        (a cross-workspace copy keeps the uid: later operations can tell the pair apart)"""
        others = [j for j in by_uid.get(str(ex.uid[idx]), []) if j != idx]
        return sorted(paths[j] for j in others) or None

    def node_canon(idx):
        nd = m.nodes[idx]
        par = m.nodes.get(nd.parent)
        pg_in = sorted(name for name, mem in (par.pgs.items() if par is not None else []) if idx in mem)
        return [
            nd.kind,
            nd.cls,
            nd.name.count("'"),
            [nd.flags[f] for f in treeops.FLAGS],
            nd.dkind,
            None if nd.vsrc is None else [nd.vsrc[0] == idx, nd.vsrc[1]],
            None if nd.gsrc is None else [nd.gsrc[0] == idx, nd.gsrc[1]],
            [nd.msrc[0] == idx, nd.msrc[1]],
            nd.pver,
            None if nd.tsrc is None else paths.get(nd.tsrc, "gone"),
            pg_in,
            sorted(nd.pgs),
            twin(idx),
            [node_canon(c) for c in sorted(nd.children)],
        ]

    model_part = {r: [node_canon(c) for c in sorted(m.roots[r])] for r in m.roots}
    hidden = []
    for ws in (ex.ws, ex.ws2):
        if ws is None:
            hidden.append(None)
            continue
        loaded = []
        for i in sorted(ex.uid):
            if i not in m.nodes:
                continue
            ref = None
            for reg in (getattr(ws, "_groups", {}), getattr(ws, "_objects", {}), getattr(ws, "_data", {})):
                r = reg.get(ex.uid[i])
                if r is not None:
                    ref = r()
            if ref is None:
                continue
            loaded.append(
                [
                    getattr(ref, "_values", 0) is None,
                    getattr(ref, "_vertices", 0) is None,
                    getattr(ref, "_metadata", 0) is None,
                    getattr(ref, "_cells", 0) is None,
                ]
            )
        regs = [
            [sum(1 for r in reg.values() if r() is not None), sum(1 for r in reg.values() if r() is None)]
            for reg in (getattr(ws, n, {}) for n in ("_groups", "_objects", "_data", "_types", "_property_groups"))
        ]
        hidden.append([loaded, regs])
    removed = sorted(m.removed.values())
    return core.digest([model_part, hidden, removed, ex.cfg, len(ex.held) > 0])


def model_key(ex) -> str:
    m = ex.model
    return core.digest(
        sorted(
            (nd.idx, nd.kind, nd.name, nd.parent, tuple(sorted(nd.flags.items())), nd.vsrc, nd.gsrc, nd.msrc, tuple(sorted((k, tuple(v)) for k, v in nd.pgs.items())))
            for nd in m.nodes.values()
        )
    )


def outcome(ex, obs) -> str:
    if obs.get("reopen") is not None:
        seen = sorted(obs["reopen"]["tree"])
    elif obs.get("reopen_error"):
        seen = obs["reopen_error"]
    else:
        seen = sorted(str(u) for i, u in ex.uid.items() if i in ex.model.nodes)
    return core.digest([ex.results, seen, len(obs["bytes"]) // 512])


# ---------------------------------------------------------------------------
# C05 - deletion
class C05Protocol:
    """Observation order: image of the file right after the last operation (before any
    harness-induced GC), live snapshot without listings, [drop policy: GC, then lookups and
    listings], close, fresh read-only open."""

    @staticmethod
    def before_last(ex, history):
        op = history["ops"][-1]
        if op[0] == "rm_ws":
            return {"digests": rawh5.digests(ex.image(1)), "live": observe.snapshot(ex.ws, listings=False)}
        return None

    @staticmethod
    def observe(ex, history):
        obs = {"results": list(ex.results)}
        obs["image"] = ex.image(1)
        obs["image2"] = ex.image(2)
        obs["live"] = observe.snapshot(ex.ws, listings=False)
        obs["live2"] = observe.snapshot(ex.ws2, listings=False) if ex.ws2 is not None else None
        obs["lookups"] = None
        if not ex.hold:
            ex.held = []
            # lookups of entities removed THROUGH THE WORKSPACE, before any collection: the
            # harness holds no reference any more, and the library is expected to have taken
            # the removed subtree apart (no cycle keeps it registered until the collector runs)
            pre = {}
            for how, idxs in removed_sets(ex):
                if how != "ws":
                    continue
                i = idxs[0]
                ws = ex.ws if ex.model.ws_of[i] == 1 else ex.ws2
                pre[i] = [None if g is None else str(g.uid) for g in ws.get_entity(ex.uid[i])]
            obs["lookups_pre_gc"] = pre
            world.full_collect()
            look = {}
            for how, idxs in removed_sets(ex):
                for i in idxs:
                    ws = ex.ws if ex.model.ws_of[i] == 1 else ex.ws2
                    got = ws.get_entity(ex.uid[i])
                    look[i] = [None if g is None else str(g.uid) for g in got]
            names = {}
            for wsn, ws in ((1, ex.ws), (2, ex.ws2)):
                if ws is None:
                    continue
                for nm in sorted(set(ws.list_entities_name.values())):
                    names[(wsn, nm)] = [None if g is None else str(g.uid) for g in ws.get_entity(nm)]
            obs["lookups"] = {"by_uid": look, "by_name": names}
            obs["pg_listing_error"] = None
            for ws in (ex.ws, ex.ws2):
                if ws is not None:
                    try:
                        _ = ws.property_groups
                    except Exception as err:  # pylint: disable=broad-except
                        obs["pg_listing_error"] = type(err).__name__
            obs["listed"] = {
                1: sorted(str(e.uid) for e in ex.ws.groups + ex.ws.objects + ex.ws.data),
                2: sorted(str(e.uid) for e in ex.ws2.groups + ex.ws2.objects + ex.ws2.data) if ex.ws2 is not None else [],
            }
        ex._close_all()  # pylint: disable=protected-access
        _, b1, b2 = ex.closed_bytes[-1]
        obs["bytes"], obs["bytes2"] = b1, b2
        obs["reopen"], obs["reopen_error"] = ex.reopen_snapshot(b1)
        obs["reopen2"] = None
        if b2 is not None:
            obs["reopen2"], err2 = ex.reopen_snapshot(b2)
            obs["reopen_error"] = obs["reopen_error"] or err2
        return obs


def removed_sets(ex):
    return [(ev[1], ev[2]) for ev in ex.events if ev[0] == "removed"]


def _file_mentions(tree, uid_norm, removed_uids):
    """Where a uid is still mentioned in a raw file tree.  'node-left': the node itself (flat
    container) or an entry in the child list of a node that was removed with it;
    'in-survivor-child-list' / 'pg-members': a reference held by a surviving entity."""
    where = []
    for (kind, u), ent in tree["nodes"].items():
        if u == uid_norm:
            where.append("node-left")
        for sub, kids in ent["children"].items():
            if uid_norm in kids:
                where.append("node-left" if u in removed_uids else "in-survivor-child-list")
        for pg in ent["pgs"].values():
            props = pg.get("Properties") or []
            if isinstance(props, str):
                props = [props]
            if uid_norm in [rawh5.norm_uid(p) for p in props]:
                where.append("node-left" if u in removed_uids else "pg-members")
    return sorted(set(where))


def clauses_c05(ex, obs) -> list:
    out = []
    m = ex.model
    kind_of = {}
    for ev in ex.events:
        if ev[0] == "removed":
            pass
    if not removed_sets(ex) and ex.before is None and not ex.unexpected and not any(o[0] in ("pg_rm", "pg_del") for o in ex_all_ops(ex)):
        return []
    trees = {1: rawh5.tree(obs["image"], light=True), 2: rawh5.tree(obs["image2"], light=True) if obs["image2"] is not None else None}
    closed = {1: rawh5.tree(obs["bytes"], light=True), 2: rawh5.tree(obs["bytes2"], light=True) if obs["bytes2"] is not None else None}
    removed_uids = {wsn: {str(ex.uid[i]) for _, idxs in removed_sets(ex) for i in idxs if m.ws_of[i] == wsn} for wsn in (1, 2)}
    live = {1: obs["live"], 2: obs["live2"]}
    reo = {1: obs["reopen"], 2: obs["reopen2"]}
    if obs.get("reopen_error"):
        out.append(("file-opens-again", obs["reopen_error"], {"results": ex.results[-6:]}))
    for how, idxs in removed_sets(ex):
        for pos, i in enumerate(idxs):
            wsn = m.ws_of[i]
            uid = str(ex.uid[i])
            role = "entity" if pos == 0 else "descendant"
            # (1) the file: right after the history and after close
            for label, tr in (("after-op", trees[wsn]), ("after-close", closed[wsn])):
                if tr is None:
                    continue
                wh = _file_mentions(tr, uid, removed_uids[wsn])
                for place in wh:
                    # one signature per kind of leftover; entity / descendant merged for the
                    # node itself (one defect: the removal did not reach the file)
                    wit = f"via-{how}:{place}" if place == "node-left" else f"via-{how}:{role}:{place}"
                    out.append(("deleted-from-file", wit, {"uid": uid, "when": label, "where": wh, "results": ex.results[-5:]}))
                if wh:
                    break
            # (2) live tree and re-opened tree: child lists and property groups
            for label, snap in (("live", live[wsn]), ("reopen", reo[wsn])):
                if snap is None:
                    continue
                hits = []
                for u, rec in snap["tree"].items():
                    if u == uid:
                        hits.append("in-tree")
                    if uid in rec.get("children", []):
                        hits.append("child-list")
                    for pg in rec.get("pgs", []) or []:
                        if uid in pg["properties"]:
                            hits.append("pg-members")
                if hits:
                    out.append(("no-reference-left", f"via-{how}:{role}:{label}:{','.join(sorted(set(hits)))}", {"uid": uid, "results": ex.results[-5:]}))
            # (3) lookups once the caller dropped its references (drop policy + GC)
            if obs["lookups"] is not None:
                pre = (obs.get("lookups_pre_gc") or {}).get(i)
                if pre is not None and any(g is not None for g in pre):
                    out.append(("lookup-yields-nothing", f"via-{how}:{role}:by-uid-before-collection", {"uid": uid, "got": pre}))
                got = obs["lookups"]["by_uid"].get(i)
                if got is not None and any(g is not None for g in got):
                    out.append(("lookup-yields-nothing", f"via-{how}:{role}:by-uid", {"uid": uid, "got": got}))
                for (w, nm), found in obs["lookups"]["by_name"].items():
                    if w == wsn and uid in [f for f in found if f]:
                        out.append(("lookup-yields-nothing", f"via-{how}:{role}:by-name", {"uid": uid, "name": nm}))
                if uid in obs["listed"][wsn]:
                    out.append(("gone-from-listings", f"via-{how}:{role}", {"uid": uid}))
    # (0) a removal request that is not about a protected entity is carried out, not refused
    for pos, op, msg in ex.unexpected:
        if op[0] in ("rm_ws", "rm_par", "rm_par_all", "pg_del", "pg_rm"):
            out.append(("removal-is-carried-out", f"{op[0]}:{msg}", {"op": op, "error": msg, "results": ex.results[-5:]}))
    # (4) later operations on the survivors succeed
    first_removal = min((ev[3] for ev in ex.events if ev[0] == "removed"), default=None)
    for pos, op, msg in ex.unexpected:
        if first_removal is not None and pos > first_removal:
            out.append(("survivor-operations-succeed", f"{op[0]}:{msg}", {"op": op, "error": msg, "results": ex.results}))
    if obs.get("pg_listing_error"):
        out.append(("survivor-operations-succeed", f"workspace.property_groups:{obs['pg_listing_error']}", {"results": ex.results[-5:]}))
    # (5) refusal when delete permission is off: refused, and nothing changes
    for ev in ex.events:
        if ev[0] == "deleted-despite-allow_delete-off":
            kind = "?"
            out.append(("refused-when-protected", "deleted-anyway", {"entity": ev[1]}))
    if ex.before is not None and ex.results and ex.results[-1].startswith("refused:expected:allow_delete-off"):
        d = rawh5.diff_digests(ex.before["digests"], rawh5.digests(obs["image"]))
        if d:
            out.append(("refusal-changes-nothing", "file:" + ",".join(sorted({k[0] + ":" + "+".join(sorted(v)) for k, v in d.items()})[:3]), {"diff": {str(k): sorted(v) for k, v in d.items()}}))
        dl = observe.diff(ex.before["live"]["tree"], obs["live"]["tree"])
        if dl:
            out.append(("refusal-changes-nothing", "live:" + _witness(ex, dl, ex.before["live"]["tree"], obs["live"]["tree"]), {"diff": dl[:10]}))
    # survivors equal the model (nothing else was deleted)
    for wsn, rootname in ((1, "root"), (2, "root2")):
        if live[wsn] is None:
            continue
        exp = ex.expected(wsn)
        got = treeops.project(live[wsn]["tree"], treeops.root_uid_of(live[wsn]), rootname)
        d = observe.diff(exp, got)
        if d and removed_sets(ex):
            out.append(("survivors-intact", _witness(ex, d, exp, got), {"diff": d[:10], "results": ex.results[-5:]}))
    # de-duplicate identical (clause, witness)
    seen, res = set(), []
    for c, w, dt in out:
        if (c, w) not in seen:
            seen.add((c, w))
            res.append((c, w, dt))
    return res


# ---------------------------------------------------------------------------
# C06 - identifiers
class C06Protocol:
    @staticmethod
    def before_last(ex, history):
        op = history["ops"][-1]
        if isinstance(op[-1], dict) and "uid_of" in op[-1]:
            return {"digests": rawh5.digests(ex.image(1)), "live": observe.snapshot(ex.ws, listings=False)}
        return None

    @staticmethod
    def observe(ex, history):
        obs = {"results": list(ex.results)}
        obs["image"] = ex.image(1)
        obs["live"] = observe.snapshot(ex.ws, listings=False)
        obs["live2"] = observe.snapshot(ex.ws2, listings=False) if ex.ws2 is not None else None
        look = {}
        for i, nd in ex.model.nodes.items():
            ws = ex.ws if nd.ws == 1 else ex.ws2
            got = ws.get_entity(ex.uid[i])
            look[i] = [None if g is None else [str(g.uid), type(g).__name__, getattr(g, "name", None)] for g in got]
        obs["lookups"] = look
        obs["listed"] = {}
        obs["types"] = {}
        for wsn, ws in ((1, ex.ws), (2, ex.ws2)):
            if ws is None:
                continue
            obs["listed"][wsn] = {
                "groups": [str(e.uid) for e in ws.groups],
                "objects": [str(e.uid) for e in ws.objects],
                "data": [str(e.uid) for e in ws.data],
                "pgs": _pg_uids(ws),
            }
            obs["types"][wsn] = [[str(t.uid), type(t).__name__] for t in ws.types]
        ex._close_all()  # pylint: disable=protected-access
        _, b1, b2 = ex.closed_bytes[-1]
        obs["bytes"], obs["bytes2"] = b1, b2
        obs["reopen2"] = None
        obs["reopen"], obs["reopen_error"] = ex.reopen_snapshot(b1)
        return obs


def _pg_uids(ws):
    try:
        return [str(e.uid) for e in ws.property_groups]
    except Exception:  # pylint: disable=broad-except
        return sorted({str(p.uid) for o in ws.objects for p in (o.property_groups or [])})


def clauses_c06(ex, obs) -> list:
    out = []
    m = ex.model
    # (a) no identifier twice among live entities / among types
    for wsn, listed in obs["listed"].items():
        allu = listed["groups"] + listed["objects"] + listed["data"] + listed["pgs"]
        dup = sorted({u for u in allu if allu.count(u) > 1})
        if dup:
            kinds = sorted(k for k in ("groups", "objects", "data", "pgs") if any(u in listed[k] for u in dup))
            out.append(("unique-live-identifiers", "shared-by:" + "+".join(kinds), {"ws": wsn, "dup": dup, "results": ex.results[-4:]}))
        tu = [t[0] for t in obs["types"][wsn]]
        if len(tu) != len(set(tu)):
            out.append(("unique-type-identifiers", "type-uid-twice", {"ws": wsn}))
    for tag, b in (("", obs["bytes"]), ("ws2:", obs["bytes2"])):
        if b is None:
            continue
        for clause, wit, detail in rawh5.validate(b):
            if clause == "unique-id":
                wsn = 1 if tag == "" else 2
                if isinstance(detail, dict) and fate_any_removed_through_parent(ex, wsn, detail.get("uid")):
                    continue  # a node left behind by parent.remove_children is not a live entity (C02 / C05 finding)
                out.append(("unique-live-identifiers", f"file:{wit}", detail))
    for snap in (obs["live"], obs["live2"], obs["reopen"]):
        if snap is not None and snap["dup"]:
            out.append(("unique-live-identifiers", "uid-twice-in-tree", {"dup": snap["dup"]}))
    # (b) explicit reuse of an identifier in use: refused, without side effects
    for ev in ex.events:
        if ev[0] == "reuse-accepted":
            _, new_kind, other_kind = ev[1]
            out.append(("reuse-refused", f"new-{new_kind}-with-uid-of-live-{other_kind}", {"at": ev[2], "results": ex.results[-4:]}))
    if ex.before is not None and ex.results and ex.results[-1].startswith("refused:expected:uid-"):
        kind = [ev for ev in ex.events if ev[0] == "uid-request-refused"][-1][1]
        d = rawh5.diff_digests(ex.before["digests"], rawh5.digests(obs["image"]))
        if d:
            comps = sorted({k[0] + ":" + "+".join(sorted(v)) for k, v in d.items()})
            out.append(("refusal-without-side-effects", f"file:{kind[0]}:new-{kind[1]}:" + ",".join(comps[:3]), {"diff": {str(k): sorted(v) for k, v in d.items()}}))
        dl = observe.diff(ex.before["live"]["tree"], obs["live"]["tree"])
        if dl:
            out.append(("refusal-without-side-effects", f"live:{kind[0]}:new-{kind[1]}:" + _witness(ex, dl, ex.before["live"]["tree"], obs["live"]["tree"]), {"diff": dl[:8]}))
    # (c) looking an identifier up returns the one entity that owns it
    if not any(ev[0] == "reuse-accepted" for ev in ex.events):
        for i, got in obs["lookups"].items():
            nd = m.nodes[i]
            if fate_any_removed_through_parent(ex, nd.ws, str(ex.uid[i])):
                # the identifier was re-used after parent.remove_children left the old node in
                # the file: what the stale node does to its successor is the C02 / C05 finding
                continue
            if len(got) != 1 or got[0] is None or got[0][0] != str(ex.uid[i]) or got[0][2] != nd.name:
                out.append(("lookup-returns-owner", f"{nd.kind}", {"idx": i, "got": got, "want": [str(ex.uid[i]), nd.name]}))
    # (d) identifiers of copies
    for ev in ex.events:
        if ev[0] != "copy-uids":
            continue
        same_ws, pairs = ev[1], ev[2]
        for kind, a, b, was_taken in pairs:
            if same_ws:
                if a == b:
                    out.append(("same-workspace-copy-fresh-ids", f"{kind}-kept-uid", {"uid": a}))
            else:
                if was_taken and a == b:
                    out.append(("cross-workspace-copy-ids", f"{kind}-reused-taken-uid", {"uid": a}))
                if not was_taken and a != b:
                    out.append(("cross-workspace-copy-ids", f"{kind}-dropped-free-uid", {"src": a, "new": b}))
    # (e) one type per object / group class
    for snap in (obs["live"], obs["live2"], obs["reopen"]):
        if snap is None:
            continue
        by_cls = {}
        for rec in snap["tree"].values():
            if "association" in rec or rec.get("type") is None or rec["parent"] is None:
                continue
            by_cls.setdefault(rec["cls"], set()).add(rec["type"]["uid"])
        for cls, tset in by_cls.items():
            if len(tset) > 1:
                out.append(("one-type-per-class", cls, {"types": sorted(tset)}))
    seen, res = set(), []
    for c, w, dt in out:
        if (c, w) not in seen:
            seen.add((c, w))
            res.append((c, w, dt))
    return res


# ---------------------------------------------------------------------------
# C09 - footprint of one mutation in the file
class C09Protocol:
    @staticmethod
    def before_last(ex, history):
        return {
            "d": {1: rawh5.digests(ex.image(1)), 2: rawh5.digests(ex.image(2)) if ex.ws2 is not None else {}},
            "model": ex.model.clone(),
            "uid": dict(ex.uid),
        }

    @staticmethod
    def observe(ex, history):
        obs = {"results": list(ex.results), "live": None, "live2": None, "reopen": None, "reopen2": None}
        obs["d"] = {1: rawh5.digests(ex.image(1)), 2: rawh5.digests(ex.image(2)) if ex.ws2 is not None else {}}
        ex._close_all()  # pylint: disable=protected-access
        _, b1, b2 = ex.closed_bytes[-1]
        obs["bytes"], obs["bytes2"] = b1, b2
        # opening and closing without any mutation changes nothing
        obs["noop"] = {}
        for wsn, b in ((1, b1), (2, b2)):
            if b is None:
                continue
            before = rawh5.digests(b)
            try:
                w = ex.Workspace(io.BytesIO(b))
                w.close()
                after = rawh5.digests(w.h5file.getvalue())
                obs["noop"][wsn] = rawh5.diff_digests(before, after)
            except Exception as err:  # pylint: disable=broad-except
                obs["noop"][wsn] = {("open-close-raised", type(err).__name__): {"error"}}
        return obs


def _footprint(ex, op, pre, pre_uid):
    """Allowed changes for one operation: {uid: set(components)} per workspace, plus flags."""
    m = ex.model
    allow = {1: {}, 2: {}}

    def add(wsn, idx_or_uid, comps):
        u = str(pre_uid.get(idx_or_uid, ex.uid.get(idx_or_uid))) if isinstance(idx_or_uid, int) else idx_or_uid
        allow[wsn].setdefault(u, set()).update(comps)

    ALL = {"attrs", "dsets", "links", "type", "pgs"}
    name = op[0]
    root_uid = {1: str(ex.ws.root.uid) if ex.ws.root is not None else None, 2: str(ex.ws2.root.uid) if ex.ws2 is not None and ex.ws2.root is not None else None}

    def parent_uid(model, idx):
        par = model.nodes[idx].parent
        wsn = model.ws_of[idx]
        return (wsn, root_uid[wsn]) if par in ("root", "root2") else (wsn, str(pre_uid.get(par, ex.uid.get(par))))

    def handle_uid(h, wsn=None):
        if h == "root":
            return 1, root_uid[1]
        if h == "root2":
            return 2, root_uid[2]
        return m.ws_of[h], str(ex.uid[h])

    # a change of a Data entity may clear the statistics cached under ITS OWN type
    own_type = None
    if len(op) > 1 and isinstance(op[1], int) and op[1] in pre.nodes and pre.nodes[op[1]].kind == "data" and op[1] in m.nodes:
        try:
            own_type = str(ex.ent(op[1]).entity_type.uid)
        except Exception:  # pylint: disable=broad-except
            own_type = None
    allow["own_type"] = own_type
    if name in ("rename", "flag", "values", "vertices", "meta", "parts"):
        add(pre.ws_of[op[1]], op[1], ALL)
    elif name in ("mk_group", "mk_obj"):
        wsn, pu = handle_uid(op[1] if name == "mk_group" else op[2])
        add(wsn, pu, {"links"})
    elif name == "add_data":
        wsn, pu = handle_uid(op[1])
        add(wsn, pu, {"links"})
    elif name in ("pg_add", "pg_rm", "pg_del", "pg_add_foreign"):
        add(pre.ws_of[op[1]], op[1], {"pgs"})
    elif name == "retype":
        add(pre.ws_of[op[1]], op[1], ALL)
    elif name == "rm_par_all":
        wsn, pu = handle_uid(op[1])
        add(wsn, pu, {"links", "pgs"})
    elif name == "move":
        e = op[1]
        wsn = pre.ws_of[e]
        add(wsn, e, ALL)
        w0, old = parent_uid(pre, e)
        add(w0, old, {"links", "pgs"} if pre.nodes[e].kind == "data" else {"links"})
        w1, new = handle_uid(op[2])
        add(w1, new, {"links"})
    elif name == "copy":
        e = op[1]
        tgt = pre.nodes[e].parent if op[2] == "same" else op[2]
        wsn, pu = handle_uid(tgt)
        add(wsn, pu, {"links"})
    elif name in ("rm_ws", "rm_par"):
        e = op[1]
        wsn = pre.ws_of[e]
        w0, old = parent_uid(pre, e)
        add(w0, old, {"links", "pgs"} if pre.nodes[e].kind == "data" else {"links"})
    return allow


def clauses_c09(ex, obs) -> list:
    out = []
    ops = ex_all_ops(ex)
    if ex.before is not None and ops:
        op = ops[-1]
        pre, pre_uid = ex.before["model"], ex.before["uid"]
        refused = ex.results[-1].startswith("refused")
        allow = _footprint(ex, op, pre, pre_uid) if not refused else {1: {}, 2: {}}
        removed_now = set()
        if op[0] in ("rm_ws", "rm_par") and not refused:
            removed_now = {str(pre_uid[i]) for i in [op[1]] + pre.descendants(op[1])}
        if op[0] == "rm_par_all" and not refused:
            for k in pre.kids(op[1]):
                removed_now |= {str(pre_uid[i]) for i in [k] + pre.descendants(k)}
        for wsn in (1, 2):
            if not ex.before["d"][wsn]:
                continue  # the second workspace did not exist before this operation
            d = rawh5.diff_digests(ex.before["d"][wsn], obs["d"][wsn])
            for key, comps in sorted(d.items(), key=str):
                what = None
                if key[0] == "project":
                    what = "project-header"
                elif key[0] == "type":
                    if comps <= {"created", "deleted"}:
                        # types it introduces or stops using - but a type that a stored
                        # entity still links to has not stopped being used
                        users = [
                            k
                            for k, v in obs["d"][wsn].items()
                            if k[0] == "node" and v.get("type") == key[2]
                            # nodes left behind by parent.remove_children are not stored entities
                            # any more (C02 / C05 finding): their dangling type link is part of it
                            and not fate_any_removed_through_parent(ex, wsn, k[2])
                        ]
                        if comps == {"deleted"} and users:
                            out.append(("only-the-footprint-changes", f"{op[0]}:type-deleted-while-still-used:{key[1]}",
                                        {"op": op, "ws": wsn, "type": key[2], "users": [str(u) for u in users][:3], "results": ex.results[-4:]}))
                        continue
                    if comps == {"dsets"} and allow.get("own_type") == key[2]:
                        continue  # statistics cache of the target's own type
                    what = f"type:{key[1]}:" + "+".join(sorted(comps))
                elif key[0] == "node":
                    uid = key[2]
                    if comps == {"created"}:
                        if refused:
                            what = f"refused-op-created:{key[1]}"
                        elif op[0] in ("mk_group", "mk_obj", "add_data", "copy") or (op[0] == "reopen"):
                            continue
                        else:
                            what = f"created:{key[1]}"
                    elif comps == {"deleted"}:
                        if uid in removed_now:
                            continue
                        if fate_any_removed_through_parent(ex, wsn, uid):
                            continue  # late clean-up of a node that should be gone already
                        what = f"deleted:{key[1]}"
                    else:
                        extra = comps - allow[wsn].get(uid, set())
                        if not extra:
                            continue
                        if fate_any_removed_through_parent(ex, wsn, uid):
                            continue
                        role = "target" if (len(op) > 1 and isinstance(op[1], int) and str(pre_uid.get(op[1])) == uid) else "other"
                        what = f"{role}-{key[1]}:" + "+".join(sorted(extra))
                else:
                    what = f"{key[0]}:" + "+".join(sorted(comps))
                if what is not None:
                    out.append(("only-the-footprint-changes", f"{op[0]}:{what}", {"op": op, "ws": wsn, "key": [str(k) for k in key], "components": sorted(comps), "results": ex.results[-4:]}))
    for wsn, d in obs["noop"].items():
        for key, comps in sorted(d.items(), key=str):
            if key[0] == "node" and comps == {"deleted"} and fate_any_removed_through_parent(ex, wsn, key[2]):
                continue
            out.append(("open-close-changes-nothing", f"{key[0]}:{key[1] if len(key) > 1 else ''}:" + "+".join(sorted(comps)), {"ws": wsn, "key": [str(k) for k in key], "results": ex.results[-4:]}))
    seen, res = set(), []
    for c, w, dt in out:
        if (c, w) not in seen:
            seen.add((c, w))
            res.append((c, w, dt))
    return res


# ---------------------------------------------------------------------------
# C11 - closing always leaves a complete file and a released handle
PROBE_ATTRS = ("values", "vertices", "cells", "metadata")


def _h5_count(fid=None):
    import h5py

    types = h5py.h5f.OBJ_FILE | h5py.h5f.OBJ_GROUP | h5py.h5f.OBJ_DATASET | h5py.h5f.OBJ_ATTR
    return h5py.h5f.get_obj_count(h5py.h5f.OBJ_ALL if fid is None else fid, types)


def _probe(entity):
    from geoh5py.shared.exceptions import Geoh5FileClosedError

    res = {}
    for attr in PROBE_ATTRS:
        if not hasattr(type(entity), attr):
            continue
        try:
            res[attr] = ["value", observe.norm(getattr(entity, attr))]
        except Geoh5FileClosedError:
            res[attr] = ["closed-error"]
        except Exception as err:  # pylint: disable=broad-except
            res[attr] = ["other-error", type(err).__name__]
    return res


class C11Protocol:
    @staticmethod
    def observe(ex, history):
        from geoh5py.groups import ContainerGroup
        from geoh5py.shared.exceptions import Geoh5FileClosedError
        from geoh5py.shared.utils import fetch_active_workspace

        mode = ex.cfg.get("exit", "normal")
        obs = {"results": list(ex.results), "exit": mode, "live": None, "live2": None, "reopen2": None}
        probes = []
        seen = set()
        for e in ex.held:
            if id(e) not in seen and hasattr(e, "uid") and e.workspace is ex.ws:
                seen.add(id(e))
                probes.append(e)
        if mode.startswith(("fetch_r+_from_r", "fetch_r_from_closed")):
            probes = []  # entities of the first session belong to a tree that is re-loaded by these modes
        g_before = _h5_count()
        f_before = _h5_count(ex.ws.geoh5.id) + (_h5_count(ex.ws2.geoh5.id) if ex.ws2 is not None else 0)
        escaped = None
        if mode == "normal":
            with ex.ws:
                pass
        elif mode == "close":
            ex.ws.close()
        elif mode == "raise":
            try:
                with ex.ws:
                    raise RuntimeError("boom")
            except RuntimeError:
                escaped = "RuntimeError"
        elif mode == "refusal":
            try:
                with ex.ws:
                    ContainerGroup.create(ex.ws, name="dup", uid=ex.ws.root.uid)
                escaped = "not-refused"
            except Exception as err:  # pylint: disable=broad-except
                escaped = type(err).__name__
        elif mode in ("fetch_r", "fetch_r+"):
            # requested mode already satisfied by the open handle: the helper hands the
            # workspace over as it is and must not close it
            with fetch_active_workspace(ex.ws, mode=mode.split("_")[1]) as w:
                obs["mode_inside"] = w.geoh5.mode
                _ = [c.name for c in w.root.children]
            obs["open_after_same_mode_fetch"] = bool(ex.ws._geoh5)  # pylint: disable=protected-access
            ex.ws.close()
        elif mode == "fetch_r+_from_r":
            # the helper has to close a read-only handle and re-open it writable
            ex.ws.close()
            ex.ws.open(mode="r")
            with fetch_active_workspace(ex.ws, mode="r+") as w:
                obs["mode_inside"] = w.geoh5.mode
                _ = [c.name for c in w.root.children]
        elif mode == "fetch_r_from_closed":
            ex.ws.close()
            with fetch_active_workspace(ex.ws, mode="r") as w:
                obs["mode_inside"] = w.geoh5.mode
                _ = [c.name for c in w.root.children]
        elif mode == "save_as":
            # Workspace.save_as closes, copies the bytes to disk and re-opens there; then close
            import os

            path = world.scratch() / f"c11-saveas-{os.getpid()}.geoh5"
            if path.exists():
                path.unlink()
            ex.ws.save_as(path)
            obs["saved_as"] = str(path)
            ex.ws.close()
        elif mode in ("fetch_r+_from_r_raise", "fetch_r_from_closed_raise"):
            # the helper opened the workspace itself and an exception escapes ITS block
            ex.ws.close()
            if mode.startswith("fetch_r+_from_r"):
                ex.ws.open(mode="r")
            try:
                with fetch_active_workspace(ex.ws, mode="r+" if mode.startswith("fetch_r+") else "r") as w:
                    obs["mode_inside"] = w.geoh5.mode
                    raise RuntimeError("boom")
            except RuntimeError:
                escaped = "RuntimeError"
        obs["escaped"] = escaped
        if ex.ws2 is not None:
            ex.ws2.close()
        obs["handles_left"] = _h5_count() - (g_before - f_before)
        # after closing: the dedicated error, never stale or empty results
        try:
            _ = ex.ws.geoh5
            obs["geoh5_after_close"] = "returned"
        except Geoh5FileClosedError:
            obs["geoh5_after_close"] = "closed-error"
        except Exception as err:  # pylint: disable=broad-except
            obs["geoh5_after_close"] = type(err).__name__
        obs["probes"] = [[str(e.uid), type(e).__name__, _probe(e)] for e in probes]
        if obs.get("saved_as"):
            with open(obs["saved_as"], "rb") as fh:
                b1 = fh.read()
        else:
            b1 = ex.ws.h5file.getvalue()
        b2 = ex.ws2.h5file.getvalue() if ex.ws2 is not None else None
        ex.closed_bytes.append((len(ex.results), b1, b2))
        obs["bytes"], obs["bytes2"] = b1, b2
        obs["handles_left_after_probes"] = _h5_count() - (g_before - f_before)
        # a second Workspace object on the same content
        obs["reopen"], obs["reopen_error"] = ex.reopen_snapshot(b1)
        ref = {}
        if obs["reopen"] is not None:
            for uid, rec in obs["reopen"]["tree"].items():
                ref[uid] = {a: rec.get(a) for a in PROBE_ATTRS if a in rec}
        obs["reference"] = ref
        # re-opening the same Workspace object restores full access to the same content
        try:
            ex.ws.open()
            obs["same_object_reopen"] = observe.snapshot(ex.ws)
            ex.ws.close()
            obs["same_object_error"] = None
        except Exception as err:  # pylint: disable=broad-except
            obs["same_object_reopen"] = None
            obs["same_object_error"] = type(err).__name__
        obs["handles_left_final"] = _h5_count() - (g_before - f_before)
        if obs.get("saved_as"):
            import os

            try:
                os.unlink(obs["saved_as"])
            except OSError:
                pass
        return obs


def clauses_c11(ex, obs) -> list:
    out = []
    mode = obs["exit"]
    res = ex.results[-5:]
    # (a) complete, valid file holding every completed operation
    for clause, wit, detail in clauses_c02(ex, obs):
        out.append(("file-valid-after-close", f"{clause}:{wit}", detail))
    if obs.get("reopen_error"):
        out.append(("can-be-opened-again", f"second-workspace:{obs['reopen_error']}", {"results": res}))
    elif obs["reopen"] is not None:
        exp = ex.expected(1)
        got = treeops.project(obs["reopen"]["tree"], treeops.root_uid_of(obs["reopen"]), "root")
        d = observe.diff(exp, got)
        if d:
            out.append(("completed-operations-are-in-the-file", _witness(ex, d, exp, got), {"diff": d[:10], "exit": mode, "results": res}))
    # (b) no HDF5 handle stays open
    for k in ("handles_left", "handles_left_after_probes", "handles_left_final"):
        if obs[k] != 0:
            out.append(("no-handle-left-open", f"{k}", {"count": obs[k], "exit": mode, "results": res}))
            break
    if mode == "refusal" and obs["escaped"] == "not-refused":
        pass  # nothing to say here: the refusal itself is C06's business
    # (c) after closing: dedicated error, never stale or empty
    if obs["geoh5_after_close"] != "closed-error":
        out.append(("closed-file-error", f"workspace.geoh5:{obs['geoh5_after_close']}", {"exit": mode}))
    removed_uids = {str(ex.uid[i]) for i in ex.model.removed}
    for uid, cls, pr in obs["probes"]:
        if uid in removed_uids or uid not in obs["reference"]:
            continue
        kind = "data" if "values" in pr else "object" if "vertices" in pr else "group"
        for attr, r in pr.items():
            if r[0] == "closed-error":
                continue
            if r[0] == "other-error":
                out.append(("closed-file-error", f"{kind}.{attr}:{r[1]}", {"cls": cls, "exit": mode, "results": res}))
            elif attr in obs["reference"][uid] and r[1] != obs["reference"][uid][attr]:
                out.append(("no-stale-or-empty-results", f"{kind}.{attr}", {"cls": cls, "served": r[1], "in_file": obs["reference"][uid][attr], "exit": mode, "results": res}))
    # (d) re-opening restores full access to the same content
    if obs["same_object_error"]:
        out.append(("can-be-opened-again", f"same-workspace:{obs['same_object_error']}", {"exit": mode, "results": res}))
    elif obs["reopen"] is not None:
        a, b = _proj_c01(obs["same_object_reopen"]["tree"]), _proj_c01(obs["reopen"]["tree"])
        d = observe.diff(a, b)
        if d:
            out.append(("reopen-restores-same-content", _witness(ex, d, a, b), {"diff": d[:10], "exit": mode}))
    want_mode = {"fetch_r+": ("r+",), "fetch_r": ("r", "r+"), "fetch_r+_from_r": ("r+",), "fetch_r_from_closed": ("r",),
                 "fetch_r+_from_r_raise": ("r+",), "fetch_r_from_closed_raise": ("r",)}.get(mode)
    if want_mode and obs.get("mode_inside") not in want_mode:
        out.append(("helper-reopens-in-requested-mode", f"{mode}:{obs.get('mode_inside')}", {}))
    if mode in ("fetch_r", "fetch_r+") and obs.get("open_after_same_mode_fetch") is False:
        out.append(("helper-leaves-a-satisfying-handle-open", mode, {}))
    seen, res2 = set(), []
    for c, w, dt in out:
        if (c, w) not in seen:
            seen.add((c, w))
            res2.append((c, w, dt))
    return res2
