"""Ownership of nondeterminism (DESIGN §1.3).

install()    process-wide, idempotent: counter-based uuid4, GC disabled (collections
             happen only where an explorer asks for them or where the library itself
             calls gc.collect()), h5repack subprocess stubbed, private scratch dir.
reset(...)   per execution: restart the uid stream so replays are byte-identical.
"""

from __future__ import annotations

import atexit
import gc
import hashlib
import os
import shutil
import subprocess
import tempfile
import uuid
import warnings
from pathlib import Path

_INSTALLED = False
_REAL_UUID4 = uuid.uuid4
_STATE = {"n": 0, "order": "asc", "salt": 0}
_SCRATCH: Path | None = None


def _uuid4():
    n = _STATE["n"]
    _STATE["n"] = n + 1
    # high 32 bits decide the lexical order (asc / desc); low bits are salted noise.
    hi = (0x10000000 + n) if _STATE["order"] == "asc" else (0xE0000000 - n)
    lo = int.from_bytes(
        hashlib.sha256(f"{_STATE['salt']}:{n}".encode()).digest()[:12], "big"
    )
    return uuid.UUID(int=(hi << 96) | lo)


def _fake_run(cmd, *args, **kwargs):
    # h5repack is not installed in the sandbox; Workspace.close swallows this error.
    if isinstance(cmd, str) and cmd.startswith("h5repack"):
        raise subprocess.CalledProcessError(127, cmd)
    return _REAL_RUN(cmd, *args, **kwargs)


_REAL_RUN = subprocess.run


def install():
    global _INSTALLED
    if _INSTALLED:
        return
    _INSTALLED = True
    warnings.simplefilter("ignore")
    uuid.uuid4 = _uuid4
    gc.disable()
    import geoh5py.workspace.workspace as wsmod

    class _Sub:  # proxy of the subprocess module for the workspace module only
        DEVNULL = subprocess.DEVNULL
        CalledProcessError = subprocess.CalledProcessError
        run = staticmethod(_fake_run)

    wsmod.subprocess = _Sub
    _STATE["salt"] = int(os.environ.get("VERIF_SEED", "0") or 0)
    scratch()
    atexit.register(cleanup)


def reset(order: str = "asc"):
    _STATE["n"] = 0
    _STATE["order"] = order
    _STATE["salt"] = int(os.environ.get("VERIF_SEED", "0") or 0)


def uid_counter() -> int:
    return _STATE["n"]


def scratch() -> Path:
    """Private directory (RAM-backed when possible); the top-level process owns the base
    and removes it at exit, workers use a per-pid sub-directory."""
    global _SCRATCH
    base = os.environ.get("VERIF_SCRATCH")
    if base is None or not os.path.isdir(base):
        root = "/dev/shm" if os.path.isdir("/dev/shm") and os.access("/dev/shm", os.W_OK) else tempfile.gettempdir()
        base = tempfile.mkdtemp(prefix=f"verif-{os.getpid()}-", dir=root)
        os.environ["VERIF_SCRATCH"] = base
        os.environ["VERIF_SCRATCH_OWNER"] = str(os.getpid())
    sub = Path(base) / f"p{os.getpid()}"
    sub.mkdir(exist_ok=True)
    _SCRATCH = sub
    return sub


def cleanup():
    base = os.environ.get("VERIF_SCRATCH")
    if base and os.environ.get("VERIF_SCRATCH_OWNER") == str(os.getpid()):
        shutil.rmtree(base, ignore_errors=True)
        os.environ.pop("VERIF_SCRATCH", None)


def full_collect():
    gc.collect()
    gc.collect()
