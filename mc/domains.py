"""Value domains of the attributes the API lets a user assign.

Interface (shared by C03, C10, C12, C20 - keep stable)

    settable_attributes(entity) -> sorted list of names of `property` objects with a setter on
                       type(entity) (found reflectively), minus SKIP.  Works for entities, entity
                       types, property groups, colour maps, value maps and the Workspace itself.
    values_for(entity, attribute) -> list of >= 2 VALID new values for that attribute, chosen by
                       attribute name, class and *current value* (same-length replacements for
                       arrays, toggles for flags, members of the accepted set for enumerations ...).
                       Deterministic; fresh objects on every call (safe to assign).  Raises
                       core.HarnessError for a settable attribute that has no domain, so a setter
                       added to the library cannot silently escape.
    check_complete(entities) every settable attribute of every given entity (and its type) has a
                       domain.
    SKIP               {attribute name: reason} - never assigned by the checks (identity, plumbing,
                       links / operations owned by other alphabets).
    IN_MEMORY_ONLY     {attribute name: reason} - settable, has a domain, but the geoh5 format has
                       no slot for it (absent from every attribute map and array field).
    VIEWS              {attribute name: stored field it is a view of} - convenience setters whose
                       value lives inside another stored field (metadata, vertices, cells, values).
    FLAGS              names of boolean attributes.

Numbers are exact binary fractions representable in float32 (surveys are stored in 32 bits).
"""

from __future__ import annotations

import copy
import inspect
import uuid

import numpy as np

from . import core

SKIP = {
    "uid": "identity of the entity (C06)",
    "on_file": "bookkeeping flag of the library, not a user attribute",
    "parent": "a move operation (tree alphabet of C01/C05/C09), not a value assignment",
    "workspace": "cannot be changed once set",
    "h5file": "cannot be changed once set",
    "repack": "file-maintenance switch of the Workspace",
    "visual_parameters": "pointer to a child Data entity, stored as that child",
    "depths": "creates / points to a child Data entity (add_data path, C07)",
    "ab_cell_id": "creates / replaces a child ReferencedData entity (C20)",
    "tx_id_property": "creates / replaces a child ReferencedData entity (C20)",
    "receivers": "link to another survey entity (C20 builds the pairs from fixtures.PAIRS)",
    "transmitters": "link to another survey entity (C20)",
    "base_stations": "link to another survey entity (C20)",
    "current_electrodes": "link to another survey entity (C20)",
    "potential_electrodes": "link to another survey entity (C20)",
    "primitive_type": "structural: must match the class of the Data entities using the type",
    "properties": "membership of a property group is changed through add/remove_properties (tree alphabet)",
    "concatenated_attributes": "internal table of the concatenated storage (C04)",
    "concatenated_object_ids": "internal table of the concatenated storage (C04)",
    "data": "internal cache of the concatenated storage (C04)",
    "index": "internal cache of the concatenated storage (C04)",
}
IN_MEMORY_ONLY = {
    "tag": "TIFF georeferencing tags of a GeoImage: no field in the geoh5 format",
    "default_collocation_distance": "matching tolerance of Drillhole.add_data: no field in the geoh5 format",
    "PropertyGroup.allow_delete": "flag of PropertyGroup absent from its attribute map",
}
VIEWS = {
    "coordinate_reference_system": "metadata",
    "channels": "metadata", "input_type": "metadata", "unit": "metadata", "loop_radius": "metadata",
    "crossline_offset": "metadata", "inline_offset": "metadata", "vertical_offset": "metadata",
    "pitch": "metadata", "roll": "metadata", "yaw": "metadata", "relative_to_bearing": "metadata",
    "timing_mark": "metadata", "waveform": "metadata",
    "parts": "cells", "image": "child FilenameData", "colour": "values",
    "GeoImage.dip": "vertices", "GeoImage.rotation": "vertices",
}
FLAGS = (
    "allow_delete", "allow_move", "allow_rename", "partially_hidden", "public", "visible", "modifiable",
    "hidden", "transparent_no_data", "allow_move_content", "allow_delete_content", "vertical",
)
NAMES = ["n2", "é/名"]
UID_A = uuid.UUID("aaaaaaaa-0000-4000-8000-00000000000a")
UID_B = uuid.UUID("bbbbbbbb-0000-4000-8000-00000000000b")


def settable_attributes(entity) -> list:
    names = []
    for name, prop in inspect.getmembers(type(entity), lambda o: isinstance(o, property)):
        if prop.fset is not None and name not in SKIP:
            names.append(name)
    return sorted(names)


def _mro_names(entity):
    return [c.__name__ for c in type(entity).__mro__]


def _is(entity, *names):
    mro = _mro_names(entity)
    return any(n in mro for n in names)


def _cur(entity, attribute):
    try:
        return getattr(entity, attribute)
    except Exception:  # pylint: disable=broad-except
        return None


def _plain(arr):
    """Structured array -> plain 2-D float array (rows x fields)."""
    arr = np.asarray(arr)
    if arr.dtype.names:
        return np.array([list(r) for r in arr.tolist()], dtype=float)
    return arr


# ---------------------------------------------------------------------------
def values_for(entity, attribute):  # noqa: C901  pylint: disable=too-many-branches,too-many-return-statements,too-many-statements
    cur = _cur(entity, attribute)
    a = attribute

    if a in FLAGS or (a == "allow_delete"):
        return [not bool(cur), bool(cur)]
    if a == "relative_to_bearing":
        return [True, False]

    # ---- names and free text -------------------------------------------------
    if a == "name":
        if _is(entity, "ColorMap"):
            return ["other.TBL", "é.TBL"]
        if _is(entity, "EntityType"):
            return list(NAMES) + [None]
        return list(NAMES)
    if a == "description":
        return ["second description", "é/名", None]
    if a == "last_focus":
        return ["Focus A", "é"]
    if a == "units":
        return ["ft", "é/m³", None]
    if a == "distance_unit":
        return ["feet", "kilometre"]
    if a == "ga_version":
        return ["4.2", "5.0-é"]
    if a == "version":
        return [2.2, 3.0, 3]
    if a == "contributors":
        return [["alice"], ["bob", "é"]]
    if a == "planning":
        return [p for p in ("Planned", "Completed", "Ongoing") if p != cur][:2]
    if a == "property_group_type":
        return [p for p in ("Simple", "3D vector", "Multi-element") if p != cur][:2]
    if a == "mapping":
        return [m for m in ("linear", "logarithmic", "cdf", "equal_area") if m != cur][:3]
    if a == "file_name":
        return ["renamed.dat", "é.bin"]

    # ---- dictionaries ----------------------------------------------------------
    if a == "metadata":
        if _is(entity, "BaseEMSurvey"):
            one, two = copy.deepcopy(cur), copy.deepcopy(cur)
            one["EM Dataset"]["Note"] = "first"
            two["EM Dataset"]["Channels"] = [x + 0.5 for x in two["EM Dataset"].get("Channels", [])] + [64.0]
            return [one, two]
        if _is(entity, "BaseElectrode"):
            one, two = copy.deepcopy(cur), copy.deepcopy(cur)
            one["Note"] = "first"
            two["Extra"] = {"nested": [1, 2.5, "é"]}
            return [one, two]
        return [{"k": 1, "s": "text"}, {"k2": {"nested": [1, 2.5]}, "u": "é"}, None]
    if a == "options":
        return [{"title": "t2", "n": 3}, {"nested": {"a": [1, 2.5, "x"]}, "u": "é"}, None]
    if a == "coordinate_reference_system":
        return [{"Code": "EPSG:26917", "Name": "NAD83 / UTM zone 17N"}, {"Code": "EPSG:4326", "Name": "WGS 84"}]
    if a == "tag":
        return [{256: (3,), 257: (4,)}, {33550: (1.0, 2.0, 0.0)}, None]

    # ---- geometry arrays (same-length replacements) ---------------------------------
    if a == "vertices":
        base = np.array(cur, dtype=float) if cur is not None else np.array([[0.0, 0.0, 0.0], [1.0, 2.0, 3.0]])
        return [base + 1.0, base[::-1] * 2.0 - 0.5]
    if a == "cells":
        base = np.array(cur) if cur is not None else np.array([[0, 1], [1, 2]], dtype="uint32")
        if _is(entity, "Drillhole", "GeoImage"):
            return [base[::-1].astype("uint32"), base[:, ::-1].astype("uint32")]
        return [base[::-1].astype("uint32"), base[:, ::-1].astype("int64")]
    if a == "parts":
        base = np.array(cur, dtype=int) if cur is not None else np.zeros(2, dtype=int)
        _, canon = np.unique(base, return_inverse=True)
        return [canon.astype("int32"), (canon + 5).tolist()]
    if a in ("origin", "collar"):
        return [[5.0, 6.0, 7.0], np.array([-1.5, 0.0, 2.25])]
    if a == "rotation":
        return [45.0, -12.5, 30]
    if a == "dip":
        return [35.0, 62.5, 10]
    if a in ("u_count", "v_count", "w_count"):
        if _is(entity, "Octree"):
            return [int(cur or 1) * 2, int(cur or 1) * 4]
        return [int(cur or 1) + 1, int(cur or 1) + 3]
    if a in ("u_cell_size", "v_cell_size", "w_cell_size"):
        return [float(cur or 1.0) + 1.5, -2.5, np.array([0.75])]
    if a in ("u_cell_delimiters", "v_cell_delimiters", "z_cell_delimiters"):
        base = np.array(cur, dtype=float) if cur is not None else np.array([0.0, 1.0, 3.0])
        return [base * 2.0, -base - 1.0]
    if a == "octree_cells":
        plain = np.array([list(r) for r in np.asarray(cur).tolist()], dtype="int32") if cur is not None else np.array([[0, 0, 0, 1], [1, 0, 0, 1]], dtype="int32")
        struct = np.asarray(np.core.records.fromarrays(np.roll(plain, 1, axis=0).T, names="I, J, K, NCells", formats="<i4, <i4, <i4, <i4"))
        return [plain[::-1].copy(), struct]
    if a == "layers":
        base = _plain(cur) if cur is not None else np.array([[0, 0, -1.0], [0, 1, -2.0], [1, 0, -1.5], [1, 1, -3.0]])
        one, two = base.copy(), base.copy()
        one[:, 2] -= 1.0
        two[:, 2] *= 2.0
        return [one, two]
    if a == "prisms":
        base = _plain(cur) if cur is not None else np.array([[0.0, 0.0, 0.0, 0, 2], [10.0, 0.0, 0.5, 2, 2]])
        one, two = base.copy(), base.copy()
        one[:, 0] += 5.0
        two[:, 2] -= 0.5
        return [one, two]
    if a == "surveys":
        return [np.array([[0.0, 0.0, -90.0]]), np.array([[0.0, 10.0, -85.0], [25.0, 20.0, -80.0], [60.0, 30.0, -70.5]])]
    if a == "cost":
        return [99.5, 7, np.float32(0.25)]
    if a == "end_of_hole":
        return [133.25, 75, None]
    if a == "default_collocation_distance":
        return [0.5, 2.0]
    if a == "current_line_id":
        return [UID_A, str(UID_B)]

    # ---- data values ---------------------------------------------------------------
    if a == "values":
        return _values(entity, cur)
    if a == "association":
        from geoh5py.data import DataAssociationEnum

        if _is(entity, "PropertyGroup"):
            return [v for v in ("CELL", "VERTEX") if v != getattr(cur, "name", None)][:1] + [DataAssociationEnum.OBJECT]
        return [v for v in ("OBJECT", "VERTEX") if v != getattr(cur, "name", None)][:1] + [DataAssociationEnum.GROUP]
    if a == "colour":
        return [[1, 2, 3], [255, 255, 0]]
    if a == "entity_type":
        from geoh5py.data import DataType

        return [DataType(entity.workspace, primitive_type=cur.primitive_type, name=f"alt type {k}", description="alternative") for k in (1, 2)]
    if a == "image":
        return [np.array([[10, 20], [30, 250], [90, 0]], dtype="uint8"), np.arange(24, dtype="uint8").reshape(2, 4, 3) * 10]

    # ---- entity types -----------------------------------------------------------------
    if a == "number_of_bins":
        return [(int(cur) if cur else 8) + 5, np.int32(32), None]
    if a == "color_map":
        from geoh5py.data.color_map import ColorMap

        rows = len(cur) if cur is not None and len(cur) else 3  # rows of the stored colour map
        same = np.array([[0.25 * k, (40 * k) % 256, (200 - 30 * k) % 256, (17 * k) % 256, 255] for k in range(rows)], dtype=float)
        other = np.array([[0.5 * k, (25 * k) % 256, (90 + 20 * k) % 256, (250 - 40 * k) % 256, 128] for k in range(rows + 1)], dtype=float)
        named = ColorMap(values=same[::-1].copy() * np.array([-1.0, 1, 1, 1, 1]))
        named._name = "third.TBL"  # pylint: disable=protected-access  (the public name setter needs a parent)
        return [
            other,  # another number of rows, default name
            {"values": same, "name": "second.TBL"},  # SAME number of rows as the stored map, another name
            {"values": other[::-1].copy() * np.array([-1.0, 1, 1, 1, 1]), "name": "other.TBL"},
            named,  # a ColorMap object, same number of rows, its own name
            None,
        ]
    if a == "value_map":
        from geoh5py.data import ReferenceValueMap

        return [{0: "Unknown", 1: "x", 2: "y", 3: "é"}, ReferenceValueMap({0: "Unknown", 1: "gamma", 2: "delta"}), None]
    if a == "map":
        return [{0: "Unknown", 1: "x", 2: "y"}, {0: "Unknown", 1: "gamma", 2: "delta", 5: "é"}]

    # ---- EM survey conveniences (views of metadata) ---------------------------------------
    if a == "channels":
        base = list(cur or [1.0, 2.0])
        return [[float(x) + 0.5 for x in base], np.array(base, dtype=float) * 2.0]
    if a == "input_type":
        allowed = list(getattr(entity, "default_input_types", None) or ["Rx"])
        return (allowed * 2)[:max(2, len(allowed))]
    if a == "unit":
        try:
            units = list(entity.default_units)
        except AttributeError:  # TipperSurvey.default_units is broken by name mangling (its setter then refuses everything)
            units = ["Hertz (Hz)", "KiloHertz (kHz)", "MegaHertz (MHz)"]
        return [u for u in units if u != cur][:2]
    if a == "loop_radius":
        return [5.5, 0.25, None]
    if a in ("crossline_offset", "inline_offset", "vertical_offset", "pitch", "roll", "yaw"):
        return [2.5, UID_A, None]
    if a == "timing_mark":
        return [2.5, 0.5]
    if a == "waveform":
        return [np.array([[0.0, 0.0], [0.5, 1.0], [1.5, 1.0], [2.0, 0.0]]), np.array([[0.0, 1.0], [4.0, 0.0]])]

    raise core.HarnessError(f"no value domain for settable attribute {type(entity).__name__}.{attribute}")


def _values(entity, cur):
    if _is(entity, "ColorMap"):
        return [np.array([[0.0, 1, 2, 3, 255], [1.0, 4, 5, 6, 255]]), np.array([[0.5, 9, 8, 7, 0], [2.0, 6, 5, 4, 128], [4.0, 3, 2, 1, 255]])]
    if _is(entity, "CommentsData"):
        new = {"Author": "é", "Date": "2024-02-02T10:00:00", "Text": "second"}
        return [list(cur or []) + [new], [new], None]
    if _is(entity, "FilenameData"):
        return [b"new-bytes", b"\x00\x01\x02\xfe"]
    if _is(entity, "VisualParameters"):
        return [
            '<IParameterList Version="1.0"><Colour>4278190335</Colour></IParameterList>',
            '<IParameterList Version="1.0"><Colour>16711680</Colour><Size>2</Size></IParameterList>',
        ]
    if _is(entity, "MultiTextData"):
        return ["alpha;beta", "é", np.array(["x", "y"])]
    n = len(cur) if isinstance(cur, np.ndarray) else 4
    if _is(entity, "TextData"):  # TextData, DatetimeData
        if _is(entity, "DatetimeData"):
            return [np.array(["2025-01-01T00:00:00"] * n), np.array([f"2025-02-{k + 1:02d}T06:00:00" for k in range(n)])]
        return [np.array([("t" * (k + 1)) for k in range(n)]), np.array(["é", ""] * n)[:n], "single text"]
    if _is(entity, "BooleanData"):
        base = np.asarray(cur, dtype=bool) if isinstance(cur, np.ndarray) else np.zeros(n, dtype=bool)
        return [~base, np.ones(n, dtype=bool)]
    if _is(entity, "ReferencedData"):
        base = np.asarray(cur, dtype="int32") if isinstance(cur, np.ndarray) else np.zeros(n, dtype="int32")
        return [base[::-1].copy(), np.ones(n, dtype="int32")]
    if _is(entity, "IntegerData"):
        base = np.asarray(cur, dtype="int32") if isinstance(cur, np.ndarray) else np.zeros(n, dtype="int32")
        return [base + 5, (base[::-1] * 2).astype("int64")]
    if _is(entity, "FloatData", "NumericData"):
        one = np.arange(n, dtype=float) * 1.5 - 2.0
        two = np.arange(n, dtype=float) + 0.25
        two[0] = np.nan
        return [one, two, (np.arange(n) + 7).astype("int32")]
    raise core.HarnessError(f"no value domain for the values of {type(entity).__name__}")


def check_complete(entities) -> int:
    """Every settable attribute of every entity / type / workspace given has a domain with at
    least two values; returns the number of (class, attribute) pairs covered."""
    seen = set()
    for ent in entities:
        for attr in settable_attributes(ent):
            key = (type(ent).__name__, attr)
            if key in seen:
                continue
            seen.add(key)
            vals = values_for(ent, attr)
            if len(vals) < 2:
                raise core.HarnessError(f"domain of {key} has fewer than two values")
    return len(seen)
