"""C15 part N - truth table of the new-style classes (parameters.py, forms.py, enforcers.py,
ui_json.py): type, choice list, well-formed identifier, membership of the workspace / of the
parent object.  One fresh object per execution.  These classes declare no required/optional rule,
so None is not in this table (part B compares None fresh-vs-used only)."""

from __future__ import annotations

import itertools
import os

from . import c15_fix as F
from . import core

PT = F.POINTS_TYPE
_COUNTER = itertools.count()

# (object name, constructor spec, [(symbol, value spec, expected)])
# constructor spec: [class name, positional args before the value..., {kwargs}]
PARAMS = [
    ("StringParameter", ["StringParameter"], [("valid", ["lit", "a"], True), ("wrongtype-int", ["lit", 5], False), ("wrongtype-float", ["lit", 2.5], False)]),
    ("IntegerParameter", ["IntegerParameter"], [("valid", ["lit", 3], True), ("wrongtype-str", ["lit", "a"], False), ("wrongtype-float", ["lit", 2.5], False)]),
    ("FloatParameter", ["FloatParameter"], [("valid", ["lit", 2.5], True), ("wrongtype-str", ["lit", "a"], False), ("wrongtype-int", ["lit", 3], False)]),
    ("NumericParameter", ["NumericParameter"], [("valid-int", ["lit", 3], True), ("valid-float", ["lit", 2.5], True), ("wrongtype-str", ["lit", "a"], False)]),
    ("BoolParameter", ["BoolParameter"], [("valid", ["lit", True], True), ("wrongtype-str", ["lit", "yes"], False), ("wrongtype-int", ["lit", 1], False)]),
    ("StringListParameter", ["StringListParameter"], [("valid-str", ["lit", "a"], True), ("valid-list", ["lit", ["a", "b"]], True), ("wrongtype-int", ["lit", 5], False)]),
    ("WorkspaceParameter", ["WorkspaceParameter"], [("valid", ["ws", 1], True), ("wrongtype-str", ["lit", "x"], False), ("wrongtype-entity", ["ent", "A"], False)]),
    ("PropertyGroupParameter", ["PropertyGroupParameter"], [("valid", ["ent", "pgM"], True), ("wrongtype-entity", ["ent", "a1"], False), ("wrongtype-str", ["lit", "x"], False)]),
    ("ValueRestrictedParameter", ["ValueRestrictedParameter", ["A", "B"]], [("valid", ["lit", "A"], True), ("not-in-choicelist", ["lit", "C"], False), ("wrongtype+not-in-choicelist", ["lit", 5], False)]),
    ("TypeRestrictedParameter", ["TypeRestrictedParameter", ["T:str"]], [("valid", ["lit", "a"], True), ("wrongtype-int", ["lit", 5], False)]),
    ("TypeUIDRestrictedParameter", ["TypeUIDRestrictedParameter", [PT]], [("valid", ["ent", "A"], True), ("wrong-object-type", ["ent", "G1"], False), ("wrongtype-int", ["lit", 5], False)]),
]
FORMS = [
    ("StringFormParameter", ["StringFormParameter", {"label": "l"}], [("valid", ["lit", "a"], True), ("wrongtype-int", ["lit", 5], False)]),
    ("BoolFormParameter", ["BoolFormParameter", {"label": "l"}], [("valid", ["lit", True], True), ("wrongtype-str", ["lit", "x"], False)]),
    ("IntegerFormParameter", ["IntegerFormParameter", {"label": "l"}], [("valid", ["lit", 3], True), ("wrongtype-str", ["lit", "a"], False)]),
    ("FloatFormParameter", ["FloatFormParameter", {"label": "l"}], [("valid", ["lit", 2.5], True), ("wrongtype-str", ["lit", "a"], False)]),
    ("ChoiceStringFormParameter", ["ChoiceStringFormParameter", {"label": "l", "choice_list": ["A", "B"]}],
     [("valid", ["lit", "A"], True), ("not-in-choicelist", ["lit", "C"], False), ("wrongtype+not-in-choicelist", ["lit", 5], False)]),
    ("FileFormParameter", ["FileFormParameter", {"label": "l", "file_type": ["txt"], "file_description": ["t"]}],
     [("valid", ["lit", "a.txt"], True), ("wrongtype-int", ["lit", 5], False)]),
    ("ObjectFormParameter", ["ObjectFormParameter", {"label": "l", "mesh_type": [PT]}],
     [("valid", ["ent", "A"], True), ("wrong-object-type", ["ent", "G1"], False)]),
    ("DataFormParameter", ["DataFormParameter", {"label": "l", "data_type": "Float", "parent": "object", "association": "Vertex"}],
     [("valid", ["ent", "a1"], True), ("wrong-data-type", ["ent", "i1"], False), ("wrongtype-str", ["lit", "x"], False)]),
    ("DataValueFormParameter", ["DataValueFormParameter", {"label": "l", "data_type": "Float", "parent": "object", "association": "Vertex", "is_value": True, "property": None}],
     [("valid-float", ["lit", 2.5], True), ("valid-int", ["lit", 3], True), ("valid-data", ["ent", "a1"], True),
      ("wrong-data-type", ["ent", "i1"], False), ("wrongtype-str", ["lit", "abc"], False)]),
]
# the constructor's `value` is the numeric member of a data-value form; data go to `property`
SETTER_ONLY = {("DataValueFormParameter", "valid-data"), ("DataValueFormParameter", "wrong-data-type"),
               ("DataValueFormParameter", "wrongtype-str")}
# members of a form (type / choice list of the member itself)
MEMBERS = [
    ("label", ["lit", "x"], True), ("label", ["lit", 5], False), ("enabled", ["lit", False], True), ("enabled", ["lit", "no"], False),
    ("optional", ["lit", True], True), ("optional", ["lit", "x"], False), ("group", ["lit", "g"], True), ("group", ["lit", 3], False),
    ("dependency_type", ["lit", "disabled"], True), ("dependency_type", ["lit", "bogus"], False),
    ("dependencyType", ["lit", "enabled"], True), ("dependencyType", ["lit", 7], False),
    ("tooltip", ["lit", "t"], True), ("tooltip", ["lit", 1.5], False),
]
DATA_MEMBERS = [
    ("association", ["lit", "Cell"], True), ("association", ["lit", "Edge"], False),
    ("data_type", ["lit", "Integer"], True), ("data_type", ["lit", "Nope"], False),
    ("dataGroupType", ["lit", "3D vector"], True), ("dataGroupType", ["lit", "Banana"], False),
]
ENFORCERS = [
    ("UUIDEnforcer", ["enf", "UUIDEnforcer", None], [("valid-str", ["str", "A"], True), ("valid-uid", ["uid", "A"], True), ("malformed-uuid", ["lit", "not-a-uuid"], False)]),
    ("TypeEnforcer", ["enf", "TypeEnforcer", ["T:str"]], [("valid", ["lit", "a"], True), ("wrongtype-int", ["lit", 5], False)]),
    ("ValueEnforcer", ["enf", "ValueEnforcer", ["A", "B"]], [("valid", ["lit", "A"], True), ("not-in-choicelist", ["lit", "C"], False)]),
    ("EnforcerPool[type,value]", ["pool", {"type": ["T:str"], "value": ["A", "B"]}],
     [("valid", ["lit", "A"], True), ("not-in-choicelist", ["lit", "C"], False), ("wrongtype+not-in-choicelist", ["lit", 5], False)]),
    ("EnforcerPool[type,uuid]", ["pool", {"type": ["T:str"], "uuid": [None]}],
     [("valid", ["str", "A"], True), ("malformed-uuid", ["lit", "zz"], False), ("wrongtype+malformed", ["lit", 5], False)]),
]
PYDANTIC = [
    ("StringForm", {"label": "l"}, [("valid", ["lit", "a"], True), ("wrongtype-int", ["lit", 5], False)]),
    ("BoolForm", {"label": "l"}, [("valid", ["lit", True], True), ("wrongtype-str", ["lit", "maybe"], False)]),
    ("IntegerForm", {"label": "l"}, [("valid", ["lit", 3], True), ("wrongtype-str", ["lit", "abc"], False), ("wrongtype-float", ["lit", 2.5], False)]),
    ("FloatForm", {"label": "l"}, [("valid", ["lit", 2.5], True), ("wrongtype-str", ["lit", "abc"], False)]),
    ("ChoiceForm", {"label": "l", "choice_list": ["A", "B"]}, [("valid", ["lit", "A"], True), ("not-in-choicelist", ["lit", "C"], False), ("wrongtype+not-in-choicelist", ["lit", 5], False)]),
    ("ObjectForm", {"label": "l", "mesh_type": [PT]}, [("valid-str", ["str", "A"], True), ("valid-uid", ["uid", "A"], True), ("malformed-uuid", ["lit", "not-a-uuid"], False)]),
    ("DataForm", {"label": "l", "parent": "object", "association": "Vertex", "data_type": "Float"},
     [("valid-str", ["str", "a1"], True), ("valid-uid", ["uid", "a1"], True), ("malformed-uuid", ["lit", "not-a-uuid"], False)]),
    ("DataForm.association", {"label": "l", "parent": "object", "data_type": "Float", "value": "", "__member__": "association"},
     [("valid", ["lit", "Cell"], True), ("not-in-choicelist", ["lit", "Edge"], False)]),
    ("DataForm.data_type", {"label": "l", "parent": "object", "association": "Vertex", "value": "", "__member__": "data_type"},
     [("valid", ["lit", "Float"], True), ("not-in-choicelist", ["lit", "Nope"], False)]),
]
# UIJson.validate: (object, data) -> expected
UIJSON = [
    ("member-object+child-data", "A", "a1", True), ("member-object-no-data", "A", None, True), ("nothing-selected", None, None, True),
    ("object-of-other-workspace", "C", None, False), ("data-of-other-parent", "A", "b1", False),
    ("data-of-other-workspace", "A", "c1", False),
]


def _types(x):
    if isinstance(x, list):
        return [_types(v) for v in x]
    if isinstance(x, str) and x.startswith("T:"):
        return {"str": str, "int": int, "float": float}[x[2:]]
    return x


def make(spec, fix, value="__none__"):
    """Build a parameter / form parameter / enforcer from its spec, optionally with a value."""
    from geoh5py.shared.utils import SetDict
    from geoh5py.ui_json import enforcers, forms, parameters

    if spec[0] == "enf":
        cls = getattr(enforcers, spec[1])
        return enforcers.EnforcerPool("p", [cls(None if spec[2] is None else set(_types(spec[2])))])
    if spec[0] == "pool":
        return enforcers.EnforcerPool.from_validations("p", SetDict(**{k: _types(v) for k, v in spec[1].items()}))
    cls = getattr(parameters, spec[0], None) or getattr(forms, spec[0])
    args = [_types(a) for a in spec[1:] if not isinstance(a, dict)]
    kwargs = dict(next((a for a in spec[1:] if isinstance(a, dict)), {}))
    if value != "__none__":
        kwargs["value"] = value
    pos = []
    if "choice_list" in kwargs and spec[0] == "ChoiceStringFormParameter":
        pos.append(kwargs.pop("choice_list"))
    if "mesh_type" in kwargs and spec[0] == "ObjectFormParameter":
        pos.append(kwargs.pop("mesh_type"))
    if "data_type" in kwargs and spec[0] in ("DataFormParameter", "DataValueFormParameter"):
        pos.append(kwargs.pop("data_type"))
    return cls("p", *args, *pos, **kwargs)


def uijson_world():
    """Disk workspaces (UIJson.name needs a file name): w1 {A:[a1], B:[b1]}, w2 {C:[c1]}."""
    import numpy as np
    from geoh5py import Workspace
    from geoh5py.objects import Points

    from . import world

    world.reset("asc")
    d = world.scratch()
    tag = f"{os.getpid()}_{next(_COUNTER)}"
    xyz = np.arange(9.0).reshape(3, 3)
    paths = [d / f"c15_u1_{tag}.geoh5", d / f"c15_u2_{tag}.geoh5"]
    w1 = Workspace.create(paths[0])
    ents = {}
    ents["A"] = Points.create(w1, vertices=xyz, name="A")
    ents["a1"] = ents["A"].add_data({"a1": {"values": np.arange(3.0)}})
    ents["B"] = Points.create(w1, vertices=xyz, name="B")
    ents["b1"] = ents["B"].add_data({"b1": {"values": np.arange(3.0)}})
    w2 = Workspace.create(paths[1])
    ents["C"] = Points.create(w2, vertices=xyz, name="C")
    ents["c1"] = ents["C"].add_data({"c1": {"values": np.arange(3.0)}})
    return w1, w2, ents, paths


def make_uijson(w1, obj, dat):
    from geoh5py.ui_json import forms, parameters
    from geoh5py.ui_json.ui_json import UIJson

    par = {
        "title": parameters.StringParameter("title", "t"),
        "geoh5": parameters.WorkspaceParameter("geoh5", w1),
        "run_command": parameters.StringParameter("run_command"),
        "run_command_boolean": parameters.BoolParameter("run_command_boolean"),
        "monitoring_directory": parameters.StringParameter("monitoring_directory"),
        "conda_environment": parameters.StringParameter("conda_environment"),
        "conda_environment_boolean": parameters.BoolParameter("conda_environment_boolean"),
        "workspace": parameters.WorkspaceParameter("workspace"),
        "object": forms.ObjectFormParameter("object", [PT], label="o", value=obj),
        "data": forms.DataFormParameter("data", "Float", label="d", parent="object", association="Vertex", value=dat),
    }
    return UIJson(par)


def cleanup(w1, w2, paths):
    for w in (w1, w2):
        try:
            w.close()
        except Exception:  # pylint: disable=broad-except
            pass
    for p in paths:
        try:
            os.remove(p)
        except OSError:
            pass


# ---------------------------------------------------------------------------
def run_case(case, fix=None):
    """-> (outcome, expected)"""
    grp, name, entry, sym = case["group"], case["obj"], case["entry"], case["sym"]
    if grp == "uijson":
        _, obj, dat, expected = next(u for u in UIJSON if u[0] == sym)
        w1, w2, ents, paths = uijson_world()
        try:
            if entry == "ctor+validate":
                got = F.outcome(lambda: make_uijson(w1, ents.get(obj), ents.get(dat)).validate())
            else:  # values arrive through update()
                def call():
                    ui = make_uijson(w1, None, None)
                    upd = {}
                    if obj:
                        upd["object"] = ents[obj]
                    if dat:
                        upd["data"] = ents[dat]
                    ui.update(upd)
                    ui.validate()

                got = F.outcome(call)
        finally:
            cleanup(w1, w2, paths)
        return got, expected
    fix = fix or F.Fix()
    if grp == "pydantic":
        from geoh5py.ui_json import forms

        _, kwargs, values = next(p for p in PYDANTIC if p[0] == name)
        _, vspec, expected = next(v for v in values if v[0] == sym)
        kwargs = dict(kwargs)
        member = kwargs.pop("__member__", "value")
        kwargs[member] = fix.value(vspec)
        cls = getattr(forms, name.split(".")[0])
        return F.outcome(lambda: cls(**kwargs)), expected
    if grp == "member":
        spec = next(f for f in FORMS if f[0] == name)[1]
        member, vspec, expected = (MEMBERS + DATA_MEMBERS)[int(sym.split("#")[1])]
        value = fix.value(vspec)
        if entry == "ctor":
            spec2 = [spec[0], dict(spec[1], **{member: value})]
            return F.outcome(lambda: make(spec2, fix)), expected
        return F.outcome(lambda: make(spec, fix).register({member: value})), expected
    table = {"param": PARAMS, "form": FORMS, "enforcer": ENFORCERS}[grp]
    _, spec, values = next(p for p in table if p[0] == name)
    _, vspec, expected = next(v for v in values if v[0] == sym)
    value = fix.value(vspec)
    if entry == "ctor":
        return F.outcome(lambda: make(spec, fix, value)), expected
    if entry == "setter":
        def call():
            obj = make(spec, fix)
            obj.value = value

        return F.outcome(call), expected
    if entry == "enforce":
        return F.outcome(lambda: make(spec, fix).enforce(value)), expected
    raise ValueError(case)


def cases():
    out = []
    for name, _, values in PARAMS:
        for sym, _, _ in values:
            for entry in ("ctor", "setter"):
                out.append({"part": "N", "group": "param", "obj": name, "entry": entry, "sym": sym})
    for name, _, values in FORMS:
        for sym, _, _ in values:
            for entry in ("ctor", "setter"):
                if entry == "ctor" and (name, sym) in SETTER_ONLY:
                    continue
                out.append({"part": "N", "group": "form", "obj": name, "entry": entry, "sym": sym})
    for name in ("StringFormParameter", "DataFormParameter"):
        table = MEMBERS + (DATA_MEMBERS if name == "DataFormParameter" else [])
        for i, (member, vspec, _) in enumerate(table):
            for entry in ("ctor", "register"):
                out.append({"part": "N", "group": "member", "obj": name, "entry": entry,
                            "sym": f"{member}={vspec[1]!r}#{i}"})
    for name, _, values in ENFORCERS:
        for sym, _, _ in values:
            out.append({"part": "N", "group": "enforcer", "obj": name, "entry": "enforce", "sym": sym})
    for name, _, values in PYDANTIC:
        for sym, _, _ in values:
            out.append({"part": "N", "group": "pydantic", "obj": name, "entry": "ctor", "sym": sym})
    for sym, _, _, _ in UIJSON:
        for entry in ("ctor+validate", "update+validate"):
            out.append({"part": "N", "group": "uijson", "obj": "UIJson", "entry": entry, "sym": sym})
    return out


def judge(case, got, expected):
    if (got[0] == "ok") == expected:
        return None
    sym = case["sym"].split("#")[0]
    if expected:
        return ("valid-value-accepted", f"new-style|{case['obj']}|{case['entry']}|{sym}|{got[1]}", {"got": list(got)})
    return ("invalid-value-refused", f"new-style|{case['obj']}|{case['entry']}|{sym}", {"got": list(got)})


_FIX = {}


def work(case):
    if case["group"] != "uijson" and "f" not in _FIX:
        _FIX["f"] = F.Fix()
    got, expected = run_case(case, _FIX.get("f"))
    return got, judge(case, got, expected)


def run_part(ctx):
    cs = cases()
    res = core.pmap(work, cs)
    objs = set()
    for case, (got, bad) in zip(cs, res):
        objs.add((case["group"], case["obj"]))
        ctx.outcomes.add(("N", case["obj"], case["entry"], case["sym"], got[0] if got[0] == "ok" else got[1]))
        if bad:
            ctx.violation(bad[0], bad[1], case, bad[2])
    ctx.sample(dict(cs[0], outcome="see part_new_style"))
    return {"objects": len(objs), "executions": len(cs)}


def replay(case):
    got, expected = run_case(case)
    bad = judge(case, got, expected)
    return [bad] if bad else []
