"""C14 helpers: fixture workspaces, case execution on the real InputFile, snapshots, oracle.

A *case* is a JSON-able dictionary (it is also the replay history):

    {"fx": "small" | "full",          fixture workspace (full = small + a drillhole group)
     "geoh5": "ws" | "str" | "path",  how the workspace is handed to the ui.json
     "forms": [{"name": n, "t": template, "kw": {...}, "m": {...}}, ...],
     "pre":  [[op, name, value], ...],   ops on the InputFile before the first write
     "mid":  [[op, name, value], ...]}   ops on the re-read InputFile before the 2nd write

Values inside "kw" / "m" / ops are encoded (see dec()): {"h": H} uid of fixture handle H,
{"hs": H} its plain string, {"hb": H} its braced string, {"he": H} the live entity,
{"f": "inf"|"-inf"} infinities, {"p": name} path of an auxiliary file in the case directory,
{"u": int} a uuid that is in no workspace; lists are decoded element-wise.

Protocol: build InputFile -> pre ops -> snapshot S0 -> write -> (text check) -> read ->
snapshot S1 -> compare S0/S1 -> mid ops -> snapshot S1' -> write -> read -> S2 -> compare.
"""

from __future__ import annotations

import json
import os
import re
import shutil
import uuid
from copy import deepcopy
from pathlib import Path

import numpy as np

from . import world

TRAP_INF = ("inf", "-inf")
BASE_KEYS = (
    "title",
    "geoh5",
    "run_command",
    "run_command_boolean",
    "monitoring_directory",
    "conda_environment",
    "conda_environment_boolean",
    "workspace",
)

_FX: dict = {}


# ---------------------------------------------------------------------------
# fixtures
# ---------------------------------------------------------------------------
def _build_fixture(path: Path, full: bool) -> dict:
    from geoh5py import Workspace
    from geoh5py.groups import ContainerGroup, DrillholeGroup
    from geoh5py.objects import Drillhole, Points

    world.reset("asc")
    handles = {}
    with Workspace.create(path) as ws:
        p = Points.create(ws, vertices=np.arange(12.0).reshape(4, 3), name="P")
        # forced name collisions: Q and G are also called "P", c is also called "a" (identity must go by uid)
        q = Points.create(ws, vertices=np.arange(12.0).reshape(4, 3) + 1.0, name="P")
        a = p.add_data({"a": {"values": np.arange(4.0)}})
        b = p.add_data({"b": {"values": np.arange(4.0) * 2}})
        c = q.add_data({"a": {"values": np.arange(4.0) * 3}})
        g = ContainerGroup.create(ws, name="P")
        pg = p.add_data_to_group([a, b], "pg")
        pg.property_group_type = "Multi-element"
        handles.update(P=p.uid, Q=q.uid, a=a.uid, b=b.uid, c=c.uid, G=g.uid, pg=pg.uid)
        if full:
            dhg = DrillholeGroup.create(ws, name="DHG")
            dh = Drillhole.create(
                ws,
                parent=dhg,
                name="dh",
                collar=[0.0, 0.0, 0.0],
                surveys=np.c_[[0.0, 10.0], [0.0, 0.0], [-90.0, -90.0]],
            )
            dh.add_data(
                {"assay": {"values": np.arange(3.0), "from-to": np.c_[[0.0, 1.0, 2.0], [1.0, 2.0, 3.0]]}}
            )
            handles.update(DHG=dhg.uid, dh=dh.uid)
    return {k: str(v) for k, v in handles.items()}


def fixture(kind: str):
    """(path, handles) of the per-process fixture workspace; built once, opened read-only."""
    key = (os.getpid(), kind, os.environ.get("VERIF_SEED", "0"))
    if key not in _FX:
        base = world.scratch() / "c14fx"
        base.mkdir(exist_ok=True)
        path = base / f"{kind}.geoh5"
        if path.exists():
            path.unlink()
        handles = _build_fixture(path, kind == "full")
        other = base / "other.geoh5"
        if not other.exists():
            from geoh5py import Workspace

            world.reset("asc")
            Workspace.create(other).close()
        _FX[key] = (path, handles, other)
    return _FX[key]


_COUNTER = [0]


def case_dir() -> Path:
    _COUNTER[0] += 1
    d = world.scratch() / f"c14c{_COUNTER[0]}"
    if d.exists():
        shutil.rmtree(d)
    d.mkdir()
    return d


# ---------------------------------------------------------------------------
# value decoding / tagging
# ---------------------------------------------------------------------------
class Env:
    def __init__(self, handles, ws, cdir, other):
        self.handles = handles
        self.ws = ws
        self.cdir = cdir
        self.other = other
        self.rev = {v: k for k, v in handles.items()}

    def entity(self, handle):
        uid = uuid.UUID(self.handles[handle])
        ent = self.ws.get_entity(uid)[0]
        if ent is None:
            for obj in self.ws.objects:
                for grp in getattr(obj, "property_groups", None) or []:
                    if grp.uid == uid:
                        return grp
            raise KeyError(handle)
        return ent

    def aux(self, name):
        path = self.cdir / name
        if name == ".":
            return str(self.cdir)
        if name == "other.geoh5":
            if not path.exists():
                shutil.copy(self.other, path)
        elif name.endswith(".geoh5"):
            pass  # deliberately missing
        elif not path.exists():
            path.write_text("x")
        return str(path)


def dec(v, env: Env):
    if isinstance(v, dict):
        if "h" in v:
            return uuid.UUID(env.handles[v["h"]])
        if "hs" in v:
            return env.handles[v["hs"]]
        if "hb" in v:
            return "{" + env.handles[v["hb"]] + "}"
        if "he" in v:
            return env.entity(v["he"])
        if "f" in v:
            return float(v["f"])
        if "p" in v:
            return env.aux(v["p"])
        if "pp" in v:
            return ";".join(env.aux(n) for n in v["pp"])
        if "u" in v:
            return uuid.UUID(int=v["u"])
        if "t" in v:
            return tuple(dec(x, env) for x in v["t"])
        raise ValueError(v)
    if isinstance(v, list):
        return [dec(x, env) for x in v]
    return v


def vtag(v) -> str:
    """Stable tag of an encoded value (for witnesses; never a uid)."""
    if isinstance(v, dict):
        k, x = next(iter(v.items()))
        if k in ("pp", "t"):
            return k + ":" + "+".join(vtag(i) if k == "t" else str(i) for i in x)
        return f"{k}:{x}"
    if isinstance(v, list):
        return "[" + ",".join(vtag(x) for x in v) + "]"
    return repr(v)


def str_class(s: str) -> str:
    if s == "":
        return "empty"
    if s in TRAP_INF:
        return "inf-like"
    try:
        uuid.UUID(s)
        return "uuid-like"
    except ValueError:
        pass
    if ";" not in s and s.endswith(".geoh5"):
        return "geoh5-path"
    return "plain"


# ---------------------------------------------------------------------------
# snapshots (JSON-able normal forms) and comparison
# ---------------------------------------------------------------------------
_PATHS: list = []  # [(real prefix, token)] of the running case: snapshots are run-independent


def _npath(text: str) -> str:
    for real, token in _PATHS:
        text = text.replace(real, token)
    return text


def nv(v, rev):
    """Normal form of one parameter value. rev: uid-string -> fixture handle."""
    from geoh5py import Workspace
    from geoh5py.groups import PropertyGroup
    from geoh5py.shared import Entity

    if v is None:
        return {"k": "none"}
    if isinstance(v, (bool, np.bool_)):
        return {"k": "bool", "v": bool(v)}
    if isinstance(v, (int, np.integer)):
        return {"k": "num", "v": str(int(v))}
    if isinstance(v, (float, np.floating)):
        v = float(v)
        if v != v:
            return {"k": "num", "v": "nan"}
        if v in (float("inf"), float("-inf")):
            return {"k": "num", "v": repr(v)}
        if v.is_integer():
            return {"k": "num", "v": str(int(v))}
        return {"k": "num", "v": repr(v)}
    if isinstance(v, str):
        out = {"k": "str", "v": _npath(v)}
        if v.strip("{}") in rev:
            out["h"] = rev[v.strip("{}")]
        return out
    if isinstance(v, uuid.UUID):
        return {"k": "uuid", "v": rev.get(str(v), "?")}
    if isinstance(v, (Entity, PropertyGroup)):
        return {"k": "entity", "cls": type(v).__name__, "v": rev.get(str(v.uid), "?"), "name": v.name}
    if isinstance(v, Workspace):
        h5 = v.h5file
        return {"k": "workspace", "v": _npath(str(Path(h5).resolve())) if isinstance(h5, (str, Path)) else "[in-memory]"}
    if isinstance(v, Path):
        return {"k": "path", "v": _npath(str(v))}
    if isinstance(v, (list, tuple)):
        return {"k": "list", "v": [nv(x, rev) for x in v]}
    if isinstance(v, dict):
        return {"k": "dict", "v": {str(a): nv(b, rev) for a, b in v.items()}}
    return {"k": "other", "v": type(v).__name__}


def ktag(n, cdir=None) -> str:
    """Coarse kind of a normal form: what a witness may mention."""
    k = n["k"]
    if k == "num":
        return "num-inf" if "inf" in n["v"] else ("num-nan" if n["v"] == "nan" else "num")
    if k == "str":
        return "str-" + str_class(n["v"])
    if k == "entity":
        return "entity-" + n["cls"]
    if k == "list":
        inner = sorted({ktag(x) for x in n["v"]})
        return "list[" + ",".join(inner) + "]"
    return k


def snap(ifile, rev) -> dict:
    """The observable the statement speaks about: flat data + enabled member of every form."""
    data = ifile.data
    out = {"data": {}, "enabled": {}}
    for key, val in (data or {}).items():
        out["data"][key] = nv(val, rev)
    for key, form in (ifile.ui_json or {}).items():
        if isinstance(form, dict):
            en = form.get("enabled", True)
            out["enabled"][key] = en if isinstance(en, bool) else repr(en)
    return out


class Refusal(Exception):
    """The library declined the input (outside the property's domain)."""


# ---------------------------------------------------------------------------
# building the ui.json
# ---------------------------------------------------------------------------
def build_form(spec, env):
    from geoh5py.ui_json import templates

    fn = getattr(templates, spec["t"])
    kw = {k: dec(v, env) for k, v in spec.get("kw", {}).items()}
    form = fn(**kw)
    for k, v in spec.get("m", {}).items():
        form[k] = dec(v, env)
    return form


def build_ui_json(case, env, fxpath):
    from geoh5py.ui_json.constants import default_ui_json

    uj = deepcopy(default_ui_json)
    mode = case.get("geoh5", "ws")
    if mode == "ws":
        uj["geoh5"] = env.ws
    elif mode == "str":
        uj["geoh5"] = str(fxpath)
    elif mode == "path":
        uj["geoh5"] = Path(fxpath)
    for k, v in case.get("base", {}).items():
        if k != "nopath":
            uj[k] = dec(v, env)
    for spec in case["forms"]:
        uj[spec["name"]] = build_form(spec, env)
    return uj


VO = {
    None: None,
    "ignore": {"ignore_list": ()},  # valid user options WITHOUT the update_enabled key
    "ue-true": {"update_enabled": True},
    "ue-false": {"update_enabled": False},
}


def cfg_kwargs(case) -> dict:
    """Fresh keyword arguments (InputFile mutates the options dict) of the case's configuration."""
    cfg = case.get("cfg", {})
    kw = {}
    if "validate" in cfg:
        kw["validate"] = cfg["validate"]
    vo = VO[cfg.get("vo")]
    if vo is not None:
        kw["validation_options"] = dict(vo)
    return kw


def _kept(case, ops, snapshot, env, rev, stage, viol):
    """set-value-kept: a value the library accepted through set_data_value / the data setter
    is the parameter value of the input file (it is what must be written and read back)."""
    last = {}
    for op, name, val in ops:
        last[name] = (op, val)
    for name, (op, val) in last.items():
        given = nv(dec(val, env), rev)
        if '"v": "?"' in json.dumps(given) and given["k"] in ("uuid", "list"):
            continue  # identifier of no workspace entity
        have = snapshot["data"].get(name, {"k": "missing"})
        spec = form_of(case, name)
        tmpl = spec["t"] if spec else f"base:{name}"
        if have != given and not equivalent(given, have, tmpl, name):
            ctx = _context(case, name)
            viol.append(
                (
                    "set-value-kept",
                    f"{stage}{'set_data_value' if op == 'set' else 'data setter'}: given {_coarse(given)}, data holds {_coarse(have)} [{ctx}]",
                    {"key": name, "given": given, "data": have, "cfg": case.get("cfg")},
                )
            )


def _coarse(n):
    return "none" if n["k"] == "none" else ("missing" if n["k"] == "missing" else "value")


def apply_ops(ifile, ops, env):
    for op, name, val in ops:
        value = dec(val, env)
        if op == "set":
            ifile.set_data_value(name, value)
        elif op == "data":
            new = dict(ifile.data)
            new[name] = value
            ifile.data = new
        else:
            raise ValueError(op)


def strict_json(text):
    """Parse with a reader that knows only RFC 8259 JSON; returns list of foreign tokens."""
    bad = []

    def const(tok):
        bad.append(tok)
        return None

    json.loads(text, parse_constant=const)
    return bad


def form_of(case, key):
    for spec in case["forms"]:
        if spec["name"] == key:
            return spec
    return None


def mtag(spec) -> str:
    """Member combination of a form, as it matters for the code paths."""
    if spec is None:
        return "base"
    m = dict(spec.get("m", {}))
    kw = spec.get("kw", {})
    parts = []
    opt = kw.get("optional")
    if opt is None and m.get("optional") is True:
        opt = "enabled" if m.get("enabled", True) else "disabled"
    if opt:
        parts.append("opt-" + opt)
    elif "enabled" in m:
        parts.append("enabled-" + str(m["enabled"]).lower())
    elif spec["t"] in ("drillhole_group_data", "range_label_template"):
        parts.append("enabled-" + str(kw.get("enabled", True)).lower())
    if "group" in m:
        if "groupOptional" in m:
            parts.append("grp-leader" if m["groupOptional"] else "grp-leader-false")
        else:
            parts.append("grp-member")
    if "dependency" in m:
        parts.append("dep-" + m.get("dependencyType", "default"))
    return ",".join(parts) or "plain"


# ---------------------------------------------------------------------------
# the case runner
# ---------------------------------------------------------------------------
def execute(case) -> dict:
    """Run one case on the real library. Returns
    {"outcome": tag, "viol": [(clause, witness, detail)], "n_exec": int, "s0": digest-able}"""
    from geoh5py import Workspace
    from geoh5py.shared.utils import fetch_active_workspace
    from geoh5py.ui_json import InputFile

    if not case.get("cfg", {}).get("validate", True):
        for _, name, val in case.get("pre", []) + case.get("mid", []):
            if val is None and _context(case, name) == "required":
                # None is the value kind of DISABLED parameters; a parameter without optional /
                # group / dependency / enabled member cannot be disabled: outside the domain
                # (with validate=True the library itself refuses it)
                return {"outcome": "excluded-none-for-required", "viol": [], "n_exec": 0, "s0": None}
    world.reset("asc")
    fxpath, handles, other = fixture(case.get("fx", "small"))
    cdir = case_dir()
    _PATHS[:] = [
        (str(cdir.resolve()), "<case>"),
        (str(cdir), "<case>"),
        (str(Path(fxpath).parent.resolve()), "<fixture>"),
        (str(Path(fxpath).parent), "<fixture>"),
    ]
    cwd = os.getcwd()
    os.chdir(cdir)
    viol = []
    res = {"outcome": None, "viol": viol, "n_exec": 0, "s0": None}
    rev = {v: k for k, v in handles.items()}
    try:
        # ---- construct + pre ops + first write --------------------------------
        with Workspace(fxpath, mode="r") as ws:
            env = Env(handles, ws, cdir, other)
            try:
                uj = build_ui_json(case, env, fxpath)
                res["n_exec"] += 1
                ifile = InputFile(ui_json=uj, **cfg_kwargs(case))
                _ = ifile.data
            except Exception as err:  # pylint: disable=broad-except
                res["outcome"] = "refused-construct:" + type(err).__name__
                return res
            try:
                res["n_exec"] += len(case.get("pre", []))
                apply_ops(ifile, case.get("pre", []), env)
            except Exception as err:  # pylint: disable=broad-except
                res["outcome"] = "refused-op:" + type(err).__name__
                return res
            s0 = snap(ifile, rev)
            res["s0"] = s0
            _kept(case, case.get("pre", []), s0, env, rev, "", viol)
            if any(_has_nan(v) for v in s0["data"].values()):
                res["outcome"] = "excluded-nan"
                return res
            res["n_exec"] += 1
            try:
                if case.get("base", {}).get("nopath"):
                    path1 = ifile.write_ui_json(name=f"first{_COUNTER[0]}")  # next to the geoh5 file
                else:
                    path1 = ifile.write_ui_json(name="first", path=str(cdir))
            except Exception as err:  # pylint: disable=broad-except
                viol.append(("roundtrip-completes", _wit_fail(case, "write", err, s0), {"error": repr(err)[:300], "before": s0}))
                res["outcome"] = "write-raised"
                return res
        text1 = Path(path1).read_text(encoding="utf-8")
        try:
            bad = strict_json(text1)
        except ValueError as err:
            bad = ["unparsable:" + str(err)[:60]]
        if bad:
            viol.append(("json-text-standard", _wit_forms(case) + " tokens=" + ",".join(sorted(set(bad))), {"tokens": bad}))

        # ---- first read --------------------------------------------------------
        res["n_exec"] += 1
        try:
            r1 = InputFile.read_ui_json(path1, **cfg_kwargs(case))
            _ = r1.data
            s1 = snap(r1, rev)
        except Exception as err:  # pylint: disable=broad-except
            viol.append(("roundtrip-completes", _wit_fail(case, "read", err, s0), {"error": repr(err)[:300], "before": s0, "file": _raw_forms(text1, case)}))
            res["outcome"] = "read-raised"
            return res
        first_ok = _compare(case, s0, s1, "", viol, text1)
        if not case.get("c2", True) and not case.get("mid"):
            res["outcome"] = "roundtrip" if not viol else "violating"
            return res

        # ---- mid ops, second write / read --------------------------------------
        try:
            with fetch_active_workspace(r1.geoh5):
                env2 = Env(handles, r1.geoh5, cdir, other)
                res["n_exec"] += len(case.get("mid", []))
                apply_ops(r1, case.get("mid", []), env2)
        except Exception as err:  # pylint: disable=broad-except
            res["outcome"] = "refused-mid-op:" + type(err).__name__
            return res
        s1b = snap(r1, rev)
        if first_ok and case.get("mid"):
            with fetch_active_workspace(r1.geoh5):
                _kept(case, case.get("mid", []), s1b, env2, rev, "second-cycle ", viol)
        res["n_exec"] += 2
        try:
            path2 = r1.write_ui_json(name="second", path=str(cdir))
            text2 = Path(path2).read_text(encoding="utf-8")
            r2 = InputFile.read_ui_json(path2, **cfg_kwargs(case))
            _ = r2.data
            s2 = snap(r2, rev)
        except Exception as err:  # pylint: disable=broad-except
            if first_ok:
                viol.append(("roundtrip-completes", _wit_fail(case, "second-cycle", err, s1b), {"error": repr(err)[:300], "before": s1b}))
            res["outcome"] = "second-cycle-raised"
            return res
        if first_ok:
            try:
                bad = strict_json(text2)
            except ValueError as err:
                bad = ["unparsable:" + str(err)[:60]]
            if bad:
                viol.append(("json-text-standard", _wit_forms(case) + " second-write tokens=" + ",".join(sorted(set(bad))), {"tokens": bad}))
            _compare(case, s1b, s2, "second-cycle ", viol, text2)
        res["outcome"] = "roundtrip" if not viol else "violating"
        res["s2"] = s2
        return res
    finally:
        os.chdir(cwd)
        shutil.rmtree(cdir, ignore_errors=True)


def _has_nan(n):
    if n["k"] == "num":
        return n["v"] == "nan"
    if n["k"] == "list":
        return any(_has_nan(x) for x in n["v"])
    return False


def _wit_forms(case):
    return "+".join(sorted({s["t"] for s in case["forms"]})) or "base-only"


ENTITY_FORMS = ("object_parameter", "group_parameter", "data_parameter", "data_value_parameter")
WORKSPACE_KEYS = ("geoh5", "workspace")


def _enabled_state(spec):
    m = spec.get("m", {})
    if "enabled" in m:
        return bool(m["enabled"])
    opt = spec.get("kw", {}).get("optional")
    if opt is not None:
        return opt == "enabled"
    return bool(spec.get("kw", {}).get("enabled", True))


def _own(spec):
    m = spec.get("m", {})
    optional = spec.get("kw", {}).get("optional") is not None or m.get("optional") is True
    if optional:
        return "optional-enabled" if _enabled_state(spec) else "optional-disabled"
    return "required" if _enabled_state(spec) else "required-enabled-false"


def _dependency_met(case, spec):
    m = spec.get("m", {})
    drv = form_of(case, m["dependency"])
    if drv is None:
        return None
    if drv.get("kw", {}).get("optional") is not None or drv.get("m", {}).get("optional"):
        on = _enabled_state(drv)
    else:
        on = bool(drv.get("kw", {}).get("value"))
    return on if m.get("dependencyType", "enabled") == "enabled" else not on


def _context(case, key):
    """Semantic member context of parameter `key` (templates, file order and the spelling of
    the members dropped - the member logic does not look at them).  Members of a group that
    has a groupOptional leader are one class per leader state: whatever their own switches
    say, set_enabled() of the leader overwrites them."""
    spec = form_of(case, key)
    if spec is None:
        return "base"
    m = spec.get("m", {})
    if "group" in m:
        leaders = [s for s in case["forms"] if s.get("m", {}).get("group") == m["group"] and s.get("m", {}).get("groupOptional")]
        if leaders and leaders[0]["name"] != key:
            return "group member, leader " + ("on" if _enabled_state(leaders[0]) else "off")
    parts = [_own(spec)]
    if "group" in m:
        parts.append("is-group-leader" if m.get("groupOptional") else "group-without-leader")
    if "dependency" in m:
        met = _dependency_met(case, spec)
        if met is not None:
            parts.append("dependency-met" if met else "dependency-unmet")
    return ",".join(parts)


def _via(case, key, stage, ctx):
    return "" if ctx.startswith("group member") else f" via {_entry(case, key, stage)}"


def _entry(case, key, stage):
    ops = case.get("mid" if stage else "pre", [])
    hit = [op for op, name, _ in ops if name == key]
    return hit[-1] if hit else "uj"


def _offender(case, msg):
    names = [s["name"] for s in case["forms"]] + list(BASE_KEYS)
    for name in sorted(names, key=len, reverse=True):
        if re.search(r"(?:'|: )" + re.escape(name) + r"(?:'|\.|$)", msg):
            return name
    return None


TRAPS = ("str-empty", "str-inf-like", "str-uuid-like", "str-geoh5-path")
STRING_FORMS = (
    "string_parameter",
    "choice_string_parameter",
    "file_parameter",
    "drillhole_group_data",
    "base:title",
    "base:run_command",
    "base:conda_environment",
    "base:monitoring_directory",
)


def _wit_fail(case, stage, err, before):
    msg = str(err.args[0]) if err.args else ""
    key = _offender(case, msg)
    exc = type(err).__name__
    if key is None:
        subj = sorted({s["t"] for s in case["forms"] if s["name"] in ("x", "y")}) or ["base-only"]
        return f"{stage} raises {exc}: " + "+".join(subj)
    spec = form_of(case, key)
    tmpl = spec["t"] if spec else f"base:{key}"
    val = ktag(before["data"].get(key, {"k": "missing"}))
    if exc == "JSONParameterValidationError":
        mem = re.search(r"provided for '(\w+)'", msg)
        return f"reading raises {exc}: {tmpl} member {mem.group(1) if mem else '?'}"
    if tmpl in STRING_FORMS and val in TRAPS:
        return f"reading raises: string-valued parameter holding {val}"
    if val == "none" and spec is not None:
        return f"reading raises, data none before writing [{_context(case, key)}]"
    return f"{stage} raises {exc}: {tmpl} value {val} [{_context(case, key)}]"


def _raw_forms(text, case):
    try:
        raw = json.loads(text)
    except ValueError:
        return None
    out = {}
    for s in case["forms"]:
        form = raw.get(s["name"])
        if isinstance(form, dict):
            form = {k: v for k, v in form.items() if k not in ("meshType", "groupType", "label", "tooltip", "main")}
        out[s["name"]] = form
    return out


def equivalent(b, a, tmpl, key) -> bool:
    """`a` (after reading) is what the statement promises for `b` (before writing)."""
    if a == b:
        return True
    kb, ka = b["k"], a["k"]
    if kb == "list" and ka == "list" and len(b["v"]) == len(a["v"]):
        return all(equivalent(x, y, tmpl, key) for x, y in zip(b["v"], a["v"]))
    # identifiers promoted to the same workspace entities (forms that hold entities)
    if tmpl in ENTITY_FORMS and ka == "entity":
        if kb == "uuid" and b["v"] == a["v"] and a["v"] != "?":
            return True
        if kb == "str" and str_class(b["v"].strip("{}")) == "uuid-like" and b.get("h") == a["v"] and a["v"] != "?":
            return True
    # workspace paths re-opened as workspaces
    if key in WORKSPACE_KEYS and ka == "workspace" and kb in ("str", "path"):
        return b["v"] == a["v"]  # both already resolved + tokenised by nv
    return False


def _transition(b, a, tmpl=None, key=None):
    """(text, is_member_logic): coarse kind transition of a value that did not survive."""
    if b["k"] == "list" and a["k"] == "list" and len(b["v"]) == len(a["v"]):
        for x, y in zip(b["v"], a["v"]):
            if not equivalent(x, y, tmpl, key):
                return _transition(x, y, tmpl, key)
    kb, ka = ktag(b), ktag(a)
    if ka == "none" and kb not in ("none", "str-empty", "missing"):
        return "value -> none", True
    if kb == "none" and ka not in ("none", "missing"):
        return "none -> value", True
    return f"{kb} -> {ka}", False


def _incoherent(case, before, key) -> bool:
    """With update_enabled=False the caller, not the library, keeps `enabled` in line with
    the values: a parameter that holds a value but is flagged disabled (or holds None but is
    flagged enabled) when it is written is outside the domain."""
    if case.get("cfg", {}).get("vo") != "ue-false" or key not in before["enabled"]:
        return False
    spec = form_of(case, key)
    if spec is None or _own(spec) == "required":
        return False
    has_value = before["data"].get(key, {"k": "none"})["k"] != "none"
    return has_value != (before["enabled"][key] is True)


def _compare(case, before, after, stage, viol, text) -> bool:
    ok = True
    for key in before["data"]:
        if _incoherent(case, before, key):
            continue
        b = before["data"][key]
        a = after["data"].get(key, {"k": "missing"})
        spec = form_of(case, key)
        tmpl = spec["t"] if spec else f"base:{key}"
        if not equivalent(b, a, tmpl, key):
            ok = False
            trans, member_logic = _transition(b, a, tmpl, key)
            entry = _entry(case, key, stage)
            if member_logic:
                ctx = _context(case, key)
                wit = f"{stage}{trans} [{ctx}]{_via(case, key, stage, ctx)}"
            elif tmpl in STRING_FORMS and trans.split(" -> ")[0] in TRAPS:
                wit = "string-valued parameter: " + re.sub(r"entity-\w+", "entity", trans)
            else:
                wit = f"{stage}{tmpl} via {entry}: {trans}"
            viol.append(
                (
                    "values-roundtrip",
                    wit,
                    {"key": key, "template": tmpl, "entry": entry, "before": b, "after": a, "file": _raw_forms(text, case), "enabled_before": before["enabled"].get(key), "enabled_after": after["enabled"].get(key)},
                )
            )
    for key in after["data"]:
        if key not in before["data"]:
            ok = False
            viol.append(("values-roundtrip", f"{stage}extra parameter after reading", {"key": key}))
    for key, b in before["enabled"].items():
        a = after["enabled"].get(key, "missing")
        if a != b and not _incoherent(case, before, key):
            val = "none" if before["data"].get(key, {"k": "missing"})["k"] == "none" else "value"
            ctx = _context(case, key)
            if (
                b is True
                and a is False
                and val == "none"
                and after["data"].get(key, {"k": "missing"})["k"] == "none"
                and ctx.startswith("optional-enabled")
            ):
                # documented normalisation (InputFile.validation_options, update_enabled): an
                # optional parameter that holds no value is written as disabled.  The statement
                # itself pairs None with disabled ("None for disabled parameters"): not compared.
                continue
            ok = False
            wit = f"{stage}enabled {b} -> {a} (data {val}) [{ctx}]{_via(case, key, stage, ctx)}"
            viol.append(("enabled-roundtrip", wit, {"key": key, "before": b, "after": a, "file": _raw_forms(text, case), "data_before": before["data"].get(key), "data_after": after["data"].get(key)}))
    return ok


# ---------------------------------------------------------------------------
# promote / demote cases
# ---------------------------------------------------------------------------
def execute_pd(case) -> dict:
    """{"pd": shape, "ids": [handles], "fx": ..} - promote identifiers, demote them again."""
    from geoh5py import Workspace
    from geoh5py.groups import PropertyGroup
    from geoh5py.shared import Entity
    from geoh5py.ui_json import InputFile
    from geoh5py.ui_json.constants import default_ui_json

    world.reset("asc")
    fxpath, handles, other = fixture(case.get("fx", "small"))
    rev = {v: k for k, v in handles.items()}
    viol = []
    res = {"outcome": None, "viol": viol, "n_exec": 2, "s0": None}
    ids = [uuid.UUID(handles[h]) for h in case["ids"]]
    shape = case["pd"]
    if shape == "scalar":
        var = {f"k{i}": u for i, u in enumerate(ids)}
    elif shape == "list":
        var = {"k": list(ids)}
    elif shape == "nested":
        var = {f"k{i}": {"label": "x", "value": u} for i, u in enumerate(ids)}
    elif shape == "nested-list":
        var = {"k": {"label": "x", "value": list(ids)}}
    else:
        raise ValueError(shape)
    original = deepcopy(var)
    with Workspace(fxpath, mode="r") as ws:
        uj = deepcopy(default_ui_json)
        uj["geoh5"] = ws
        ifile = InputFile(ui_json=uj, validate=case.get("validate", True))
        _ = ifile.data
        try:
            promoted = ifile.promote(var)
        except Exception as err:  # pylint: disable=broad-except
            viol.append(("promote-same-entity", f"promote raises {type(err).__name__} for {shape} of " + "+".join(_hcls(h) for h in case["ids"]), {"error": repr(err)[:300]}))
            res["outcome"] = "promote-raised"
            return res

        def leaves(x):
            if isinstance(x, dict):
                for k in x:
                    if k != "label":
                        yield from leaves(x[k])
            elif isinstance(x, list):
                for y in x:
                    yield from leaves(y)
            else:
                yield x

        got = list(leaves(promoted))
        for h, u, e in zip(case["ids"], ids, got):
            if not isinstance(e, (Entity, PropertyGroup)) or e.uid != u or getattr(e, "workspace", getattr(getattr(e, "parent", None), "workspace", None)) is not ws:
                viol.append(("promote-same-entity", f"{shape}: identifier of {_hcls(h)} promoted to {type(e).__name__}", {"handle": h, "got": nv(e, rev)}))
        demoted = InputFile.demote(promoted)
    back = [_as_uuid(x) for x in leaves(demoted)]
    orig = list(leaves(original))
    if back != orig:
        viol.append(
            (
                "promote-demote-identity",
                f"{shape} of " + "+".join(_hcls(h) for h in case["ids"]),
                {"original": [rev.get(str(u)) for u in orig], "returned": [rev.get(str(u), repr(u)) for u in back]},
            )
        )
    res["outcome"] = "pd-ok" if not viol else "violating"
    res["s0"] = {"pd": shape, "ids": case["ids"]}
    return res


def _hcls(h):
    return {"P": "object", "Q": "object", "a": "data", "b": "data", "c": "data", "G": "group", "pg": "property-group", "DHG": "drillhole-group", "dh": "drillhole"}.get(h, h)


def _as_uuid(x):
    if isinstance(x, uuid.UUID):
        return x
    if isinstance(x, str):
        try:
            return uuid.UUID(x)
        except ValueError:
            return x
    return x


_RUNS = [0]


def run_any(case):
    _RUNS[0] += 1
    if _RUNS[0] % 40 == 0:
        world.full_collect()  # GC is disabled by the World; entity graphs are cyclic
    if "pd" in case:
        cwd = os.getcwd()
        os.chdir(world.scratch())  # nothing may be created outside the scratch area
        try:
            return execute_pd(case)
        finally:
            os.chdir(cwd)
    return execute(case)
