"""C08 - values survive storage unchanged; gaps use the format's no-data codes.

Exhaustive enumeration of `write(kind, v1) -> [reopen] -> write(kind, v2) -> close -> raw read
-> read-only re-open` over finite value lattices (mc/c08_lattice.py), executed on the real
library and judged by mc/c08_exec.py against `representable(kind, value)` written from the
property statement.  DESIGN.md section 4, C08.
"""

from __future__ import annotations

from .. import c08_exec, c08_lattice, core


def _run_one(case):
    return c08_exec.run_case(case)


def run(ctx):
    cases = c08_lattice.cases(ctx.tier)
    results = core.pmap(_run_one, cases)
    states = set()
    trans = compared = 0
    per_family = {}
    for case, res in zip(cases, results):
        ctx.add_violations(case, [tuple(v) for v in res["v"]])
        for tag in res["tags"]:
            ctx.outcomes.add(tuple(tag))
        states.update(res["states"])
        trans += res["trans"]
        compared += res["compared"]
        key = f"{case['fam']}/{case['kind']}/{case['path']}"
        per_family[key] = per_family.get(key, 0) + 1
    step = max(1, len(cases) // 6)
    for case in cases[::step][:6]:
        ctx.sample(case)
    nums = c08_lattice.numeric_arrays(ctx.tier)
    ctx.cover(
        states=len(states),
        transitions=trans,
        traces_validated_against_impl=len(cases),
        observations_compared=compared,
        cases=len(cases),
        cases_per_family=per_family,
        exhaustive=True,
        distinct_outcomes=len(ctx.outcomes),
        alphabet="create(v) | set(v) | reopen, then close + raw read + read-only re-open; kinds float, int, bool, "
        "referenced, text, comments, file blob, metadata, value map; storage paths ordinary node and concatenated "
        "drillhole data; foreign-written float32/float64 datasets for the reader",
        lattice={
            "numeric_arrays": len(nums),
            "scalars_per_dtype": {d: len(c08_lattice.scalars(d)) for d in ["bool"] + c08_lattice.INT_DTYPES + c08_lattice.FLOAT_DTYPES + c08_lattice.COMPLEX_DTYPES},
            "text_values": len(c08_lattice.text_values(ctx.tier)),
            "comment_values": len(c08_lattice.comment_values(ctx.tier)),
            "blob_values": len(c08_lattice.blob_values(ctx.tier)),
            "metadata_values": len(c08_lattice.metadata_values(ctx.tier)),
            "value_maps": len(c08_lattice.vmap_values(ctx.tier)),
        },
        bound="depth 1 (create v) for every lattice value; depth 2 with one canonical side: quick = {create c; [reopen]; set v}, "
        "thorough adds old states c in {short, with-gap, other dtype/length, no values} and {create v; [reopen]; set c}. "
        "Geometry of 2 vertices / 2 depths; arrays of length 0-3. The write path depends on the previous state only through "
        "the existence / length / dtype of the stored dataset and the cached values, which these old states cover.",
    )
    ctx.assumptions += [
        "documented exception excluded entry-wise: a float equal to the float no-data code (1.17549435e-38 as float64; on the "
        "float32 concatenated path every float64 that rounds to the float32 code)",
        "concatenated drillhole data are 32-bit on file by format: a float64 read back as its float32 rounding is accepted there",
        "integers wider than 53 bits given to float data are compared after IEEE conversion to float64 (documented coercion)",
        "text arrays longer than the geometry need not be refused (no count is attached to text); they must round-trip if accepted",
        "boolean gaps (NaN given to boolean data, padding of short boolean arrays) are not judged: the statement defines no boolean gap",
        "metadata / comments compare as JSON values; UUID and uuid-shaped strings are the same token; {} and None are the same metadata; "
        "metadata assignment merges into existing metadata (documented setter contract)",
        "the map {0:'False',1:'True'} is the boolean type's own value map and is exempt from 'key 0 is Unknown'",
        "inputs whose type the statement does not classify (python list / scalar, object arrays of numbers, bytearray) may be refused or "
        "accepted; nothing is judged after accepting one",
        "raw observations use h5py directly and never import geoh5py; the reference function representable() is written from the statement",
    ]


def replay(history):
    res = c08_exec.run_case(history)
    return [tuple(v) for v in res["v"]]
