"""C09 - an operation on one entity leaves unrelated stored entities untouched.

For every reachable state of the tree exploration and every single mutating call applied to
it, per-node digests (attributes / datasets / link names / type / property-group block) of
the file image before and after the call are compared: the changed set must lie inside the
footprint the statement allows (target, parents left / joined: link sets, created / deleted
nodes, types introduced / dropped).  For every state, open(r+) + close must change nothing.
DESIGN.md §4 C09.
"""

from __future__ import annotations

from .. import treecheck
from ..treeprop import DROP_ASC, DROP_DESC, HOLD_ASC, HOLD_DESC, TreeProp

QUICK = [
    ("S4", DROP_ASC, 2, "RETYPE"),
    ("S2", DROP_ASC, 1, "FULLND"),
    ("S4", HOLD_DESC, 1, "FULLND"),
    ("S1", DROP_ASC, 2, "FULLND"),
    ("S2r", HOLD_DESC, 1, "FULLND"),
    ("S5", DROP_ASC, 1, "FULLND"),
    ("S0", DROP_ASC, 3, "FULLND"),
    ("S1", DROP_ASC, 3, "IDGC"),
]
THOROUGH = [
    ("S4", DROP_ASC, 3, "RETYPE"),
    ("S4", HOLD_DESC, 3, "RETYPE"),
    ("S2", DROP_ASC, 2, "FULLND"),
    ("S2", HOLD_DESC, 2, "FULLND"),
    ("S4", DROP_DESC, 2, "FULLND"),
    ("S2r", HOLD_ASC, 2, "FULLND"),
    ("S4r", HOLD_DESC, 2, "FULLND"),
    ("S0", DROP_ASC, 4, "FULLND"),
    ("S1", HOLD_DESC, 3, "STRUCT"),
    ("S5", DROP_ASC, 2, "EDIT"),
    ("S5", HOLD_DESC, 1, "FULLND"),
    ("S1", DROP_ASC, 4, "IDGC"),
    ("S2", DROP_DESC, 3, "IDGC"),
]

P = TreeProp(
    "C09",
    treecheck.clauses_c09,
    treecheck.C09Protocol,
    QUICK,
    THOROUGH,
    assumptions=[
        "the unit of comparison is a node's attributes / datasets / child-link names / type id / property-group block; byte layout and offsets are not compared",
        "nodes left behind by parent.remove_children (known finding of C02/C05) may be cleaned up late; that clean-up is not counted as collateral damage",
        "concatenated (drillhole) storage is covered by the C04 explorer",
    ],
)
run, replay = P.run, P.replay
