"""C17 - derived geometry follows the format's indexing conventions.

Exhaustive enumeration (DESIGN.md section 4, C17) executed on the real library:

  static   every (shape x delimiter pattern x origin given/default x rotation) block model,
           every (shape x sizes x origin x rotation x dip x vertical) 2D grid,
           every power-of-two (NU,NV,NW) x sizes x origin x rotation x {default, explicit} octree,
           a catalogue of drape models, every labelling of n vertices by three part ids,
           every ordered-chain cell list;  each observed live AND on a fresh read-only opening;
  seq      every sequence of length <= d over {set one geometry attribute, read centroids,
           re-open, copy with an override} for each grid class (cache model checking), and
           every ordered pair of part labellings assigned to the same curve.

Oracle clauses (literal readings of the property statement, formulas in mc/c17_ref.py):
  block-index-formula, grid2d-index-formula, octree-centres-from-records,
  default-octree-tiles-base-grid-once, n-centres-equals-n-cells,
  centres-are-function-of-current-geometry (DrapeModel only: cached == freshly computed),
  segments-join-consecutive-same-part, parts-agree-with-connectivity.
"""

from __future__ import annotations

import io
import itertools

import numpy as np

from .. import c17_ref as ref
from .. import core, world

FORMULA = {"BlockModel": "block-index-formula", "Grid2D": "grid2d-index-formula", "Octree": "octree-centres-from-records"}
COUNT = "n-centres-equals-n-cells"
TILE = "default-octree-tiles-base-grid-once"
FUNC = "centres-are-function-of-current-geometry"
SEGS = "segments-join-consecutive-same-part"
PARTS = "parts-agree-with-connectivity"


# =========================================================================== observation helpers
def _lib():
    from geoh5py import objects  # pylint: disable=import-outside-toplevel
    from geoh5py.workspace import Workspace  # pylint: disable=import-outside-toplevel

    return Workspace, objects


def _reopen(ws, mode):
    Workspace, _ = _lib()
    ws.close()
    return Workspace(io.BytesIO(ws.h5file.getvalue()), mode=mode)


def _origin3(o):
    if o is None:
        return None
    o = np.asarray(o)
    if o.dtype.names:
        return (float(o["x"]), float(o["y"]), float(o["z"]))
    return tuple(float(x) for x in o.ravel())


def _read_centres(obj):
    """(list of xyz | None, error tag | None)"""
    try:
        c = obj.centroids
    except Exception as err:  # pylint: disable=broad-except
        return None, f"raises {type(err).__name__}"
    if c is None:
        return None, "is None"
    a = np.asarray(c, dtype=float)
    if a.ndim != 2 or a.shape[1] != 3:
        return None, "is not an (n, 3) array"
    return [tuple(r) for r in a.tolist()], None


def _n_cells(obj):
    try:
        n = obj.n_cells
    except Exception as err:  # pylint: disable=broad-except
        return f"raises {type(err).__name__}"
    return None if n is None else int(n)


def _records(obj):
    oc = obj.octree_cells
    return [[int(r["I"]), int(r["J"]), int(r["K"]), int(r["NCells"])] for r in oc]


def judge_centres(cls, obj, expected, where, origin_known=True, clause=None):
    """Common clauses for one read of `centroids`: computed at all, as many as n_cells, at the
    positions of the format's formula (`expected`, None = no formula in the statement)."""
    out = []
    got, err = _read_centres(obj)
    n = _n_cells(obj)
    if err is not None:
        if not (err == "is None" and n is None):
            w = f"{cls}|origin never given|centroids {err}" if not origin_known else f"{cls}|{where}|centroids {err}"
            out.append((COUNT, w, {"n_cells": n, "where": where}))
        return out, None
    if n != len(got):
        out.append((COUNT, f"{cls}|{where}|count", {"n_centroids": len(got), "n_cells": n}))
    if expected is not None:
        d = ref.compare(got, expected)
        if d is not None:
            out.append((clause or FORMULA[cls], f"{cls}|{where}|position", d))
    return out, got


# =========================================================================== static: block model
def _block_expected(obj_or_case, from_obj):
    if from_obj:
        o = obj_or_case
        du, dv, dz = (np.asarray(x, dtype=float).tolist() for x in (o.u_cell_delimiters, o.v_cell_delimiters, o.z_cell_delimiters))
        return ref.block_centres(du, dv, dz, _origin3(o.origin), float(o.rotation))
    c = obj_or_case
    return ref.block_centres(c["u"], c["v"], c["z"], tuple(c["origin"] or (0.0, 0.0, 0.0)), float(c["rot"] or 0.0))


def _block_kwargs(c):
    kw = {"u_cell_delimiters": np.array(c["u"], dtype=float), "v_cell_delimiters": np.array(c["v"], dtype=float),
          "z_cell_delimiters": np.array(c["z"], dtype=float)}
    if c.get("origin") is not None:
        kw["origin"] = list(c["origin"])
    if c.get("rot") is not None:
        kw["rotation"] = c["rot"]
    return kw


def case_block(c):
    Workspace, objects = _lib()
    ws = Workspace()
    obj = objects.BlockModel.create(ws, **_block_kwargs(c))
    exp = _block_expected(c, False)
    viol, _ = judge_centres("BlockModel", obj, exp, "live", origin_known=c.get("origin") is not None)
    uid = obj.uid
    ws2 = _reopen(ws, "r")
    v2, _ = judge_centres("BlockModel", ws2.get_entity(uid)[0], exp, "reopen")
    ws2.close()
    return viol + v2


# =========================================================================== static: 2D grid
def _grid_kwargs(c):
    kw = {"u_count": c["nu"], "v_count": c["nv"], "u_cell_size": c["su"], "v_cell_size": c["sv"]}
    if c.get("origin") is not None:
        kw["origin"] = list(c["origin"])
    for k_case, k_lib in (("rot", "rotation"), ("dip", "dip"), ("vertical", "vertical")):
        if c.get(k_case) is not None:
            kw[k_lib] = c[k_case]
    return kw


def _grid_expected_case(c):
    dip = 90.0 if (c.get("vertical") or c.get("dip") == 90) else float(c.get("dip") or 0.0)
    return ref.grid_centres(c["nu"], c["nv"], c["su"], c["sv"], tuple(c["origin"] or (0.0, 0.0, 0.0)), float(c["rot"] or 0.0), dip)


def _grid_expected_obj(o):
    dip = 90.0 if o.vertical else float(o.dip)
    return ref.grid_centres(int(o.u_count), int(o.v_count), float(o.u_cell_size), float(o.v_cell_size), _origin3(o.origin),
                            float(o.rotation), dip)


def case_grid2d(c):
    Workspace, objects = _lib()
    ws = Workspace()
    obj = objects.Grid2D.create(ws, **_grid_kwargs(c))
    exp = _grid_expected_case(c)
    viol, _ = judge_centres("Grid2D", obj, exp, "live")
    uid = obj.uid
    ws2 = _reopen(ws, "r")
    v2, _ = judge_centres("Grid2D", ws2.get_entity(uid)[0], exp, "reopen")
    ws2.close()
    return viol + v2


# =========================================================================== static: octree
def _octree_cells_arg(c):
    if c["cells"] == "default":
        return None
    rec = ref.refined_cells(c["dims"], twice=c["cells"] in ("refined2", "structured"))
    if c["cells"] == "structured":
        return np.array([tuple(r) for r in rec], dtype=[("I", "<i4"), ("J", "<i4"), ("K", "<i4"), ("NCells", "<i4")])
    return np.array(rec, dtype=int)


def _octree_kwargs(c):
    kw = {"u_count": c["dims"][0], "v_count": c["dims"][1], "w_count": c["dims"][2],
          "u_cell_size": c["size"][0], "v_cell_size": c["size"][1], "w_cell_size": c["size"][2]}
    if c.get("origin") is not None:
        kw["origin"] = list(c["origin"])
    if c.get("rot") is not None:
        kw["rotation"] = c["rot"]
    arg = _octree_cells_arg(c)
    if arg is not None:
        kw["octree_cells"] = arg
    return kw


def _judge_octree(obj, c, where, origin_known):
    out = []
    origin = tuple(c["origin"] or (0.0, 0.0, 0.0))
    rot = float(c["rot"] or 0.0)
    try:
        rec = _records(obj)
    except Exception as err:  # pylint: disable=broad-except
        return [(COUNT, f"Octree|{where}|octree_cells raises {type(err).__name__}", None)]
    if c["cells"] == "default":
        d = ref.tiling_defect(rec, c["dims"])
        if d is not None:
            out.append((TILE, f"Octree|{where}|{d['why']}", dict(d, dims=c["dims"], records=rec[:12])))
    else:
        rec = ref.refined_cells(c["dims"], twice=c["cells"] in ("refined2", "structured"))  # the records that were given
    exp = ref.octree_centres(rec, c["size"], origin, rot)
    v, _ = judge_centres("Octree", obj, exp, where, origin_known=origin_known)
    return out + v


def case_octree(c):
    Workspace, objects = _lib()
    ws = Workspace()
    obj = objects.Octree.create(ws, **_octree_kwargs(c))
    viol = _judge_octree(obj, c, "live", c.get("origin") is not None)
    uid = obj.uid
    ws2 = _reopen(ws, "r")
    viol += _judge_octree(ws2.get_entity(uid)[0], c, "reopen", True)
    ws2.close()
    return viol


# =========================================================================== static: drape model
def drape_arrays(counts, x0=0.0, dz=0.0):
    """layers (prism index, layer index, bottom elevation) and prisms (x, y, top, first, count)."""
    layers, prisms, first = [], [], 0
    for p, n in enumerate(counts):
        top = 10.0 + 0.5 * p
        prisms.append([x0 + 1.5 * p, -2.0 * p + x0, top, first, n])
        for k in range(n):
            layers.append([p, k, top - (k + 1) * (1.0 + 0.25 * p) + dz])
        first += n
    return np.array(layers, dtype=float), np.array(prisms, dtype=float)


def _drape_fresh_centres(obj):
    """Centres computed by a brand-new object given the CURRENT layers / prisms of `obj`."""
    Workspace, objects = _lib()
    ws = Workspace()
    twin = objects.DrapeModel.create(ws)
    twin.layers = np.asarray(obj.layers, dtype=float)
    twin.prisms = np.asarray(obj.prisms, dtype=float)
    got, err = _read_centres(twin)
    ws.close()
    return got, err


def _judge_drape(obj, where):
    v, got = judge_centres("DrapeModel", obj, None, where)
    if got is not None and not v:
        fresh, err = _drape_fresh_centres(obj)
        if err is None:
            d = ref.compare(got, fresh)
            if d is not None:
                v.append((FUNC, f"DrapeModel|{where}|position", d))
    return v, got


def case_drape(c):
    Workspace, objects = _lib()
    ws = Workspace()
    obj = objects.DrapeModel.create(ws)
    layers, prisms = drape_arrays(c["counts"])
    obj.layers = layers
    obj.prisms = prisms
    viol = _judge_drape(obj, "live")[0]
    uid = obj.uid
    ws2 = _reopen(ws, "r")
    viol += _judge_drape(ws2.get_entity(uid)[0], "reopen")[0]
    ws2.close()
    return viol


# =========================================================================== static: curve
def _vertices(n):
    return np.array([[float(i), 0.5 * i * i, -1.0 * i] for i in range(n)], dtype=float)


def _cells_of(curve):
    c = curve.cells
    return [] if c is None else [[int(a), int(b)] for a, b in np.asarray(c).reshape(-1, 2).tolist()]


def _judge_curve(curve, n, labels, where):
    """labels: the labelling the segments are derived from (None: cells were given directly)."""
    out = []
    try:
        cells = _cells_of(curve)
        parts = curve.parts
    except Exception as err:  # pylint: disable=broad-except
        return [(SEGS, f"Curve|reading cells / parts raises {type(err).__name__}", {"where": where, "labels": labels})], None
    if labels is not None:
        d = ref.segment_defect(n, cells, labels)
        if d is not None:
            out.append((SEGS, f"Curve|{d[0]}", {"where": where, "labels": labels, "cells": cells, "at": d[1]}))
    if parts is not None and all(0 <= a < n and 0 <= b < n for a, b in cells):
        plist = [int(p) for p in np.asarray(parts).tolist()]
        for why, at in ref.parts_defects(n, cells, plist):
            out.append((PARTS, f"Curve|{why}", {"where": where, "labels_assigned": labels, "cells": cells, "parts_read": plist, "at": at}))
    return out, cells


def case_curve(c):
    Workspace, objects = _lib()
    ws = Workspace()
    labels, n = c["labels"], len(c["labels"])
    if c["path"] == "create":
        curve = objects.Curve.create(ws, vertices=_vertices(n), parts=list(labels))
    else:
        curve = objects.Curve.create(ws, vertices=_vertices(n))
        if c["path"] == "assign-after-read":
            _cells_of(curve)
        curve.parts = np.array(labels) if c["path"] == "assign-array" else list(labels)
    viol, _ = _judge_curve(curve, n, labels, "live")
    uid = curve.uid
    ws2 = _reopen(ws, "r")
    v2, _ = _judge_curve(ws2.get_entity(uid)[0], n, labels, "reopen")
    ws2.close()
    return viol + v2


def case_curve_cells(c):
    Workspace, objects = _lib()
    ws = Workspace()
    n = c["n"]
    curve = objects.Curve.create(ws, vertices=_vertices(n), cells=np.array(c["cells"], dtype="int32"))
    viol, _ = _judge_curve(curve, n, None, "live")
    uid = curve.uid
    ws2 = _reopen(ws, "r")
    v2, _ = _judge_curve(ws2.get_entity(uid)[0], n, None, "reopen")
    ws2.close()
    return viol + v2


def case_curve_seq(c):
    """Assign labelling A (at creation), read, assign labelling B, read, re-open, read."""
    Workspace, objects = _lib()
    ws = Workspace()
    n = len(c["first"])
    curve = objects.Curve.create(ws, vertices=_vertices(n), parts=list(c["first"]))
    viol = []
    if c["read_between"]:
        viol += _judge_curve(curve, n, c["first"], "live, first labelling")[0]
    curve.parts = list(c["second"])
    viol += _judge_curve(curve, n, c["second"], "live, second labelling")[0]
    uid = curve.uid
    ws2 = _reopen(ws, "r")
    viol += _judge_curve(ws2.get_entity(uid)[0], n, c["second"], "reopen, second labelling")[0]
    ws2.close()
    return viol


def case_curve_edit(c):
    """Labelling at creation, [read cells / parts], remove one segment or one vertex, read, re-open,
    read: the part labels must describe the connectivity of the CURRENT cells (a label cache that
    survives the edit does not)."""
    Workspace, objects = _lib()
    ws = Workspace()
    n = len(c["labels"])
    curve = objects.Curve.create(ws, vertices=_vertices(n), parts=list(c["labels"]))
    viol = []
    if c["read_between"]:
        viol += _judge_curve(curve, n, c["labels"], "live, before the edit")[0]
    what, at = c["edit"]
    try:
        if what == "remove_cells":
            if at >= len(_cells_of(curve)) or len(_cells_of(curve)) < 2:
                return viol
            curve.remove_cells([at])
        else:
            curve.remove_vertices([at])
    except Exception:  # pylint: disable=broad-except
        return viol  # a refused edit is not this property's business
    n2 = int(np.asarray(curve.vertices).shape[0])
    viol += _judge_curve(curve, n2, None, f"live, after {what}")[0]
    uid = curve.uid
    ws2 = _reopen(ws, "r")
    viol += _judge_curve(ws2.get_entity(uid)[0], n2, None, f"reopen, after {what}")[0]
    ws2.close()
    return viol


# =========================================================================== sequences (cache model checking)
def _conv(attr, value):
    if isinstance(value, list):
        if attr == "octree_cells":
            return np.array(value, dtype=int)
        if attr == "origin":
            return list(value)
        return np.array(value, dtype=float)
    return value


class _Seq:
    """One grid class: how to build the scene, which formula applies to the CURRENT attributes
    (read back through the getters: persistence of setters is C03's business, not C17's)."""

    def __init__(self, cls):
        self.cls = cls

    def build(self, ws, scene):
        _, objects = _lib()
        if self.cls == "BlockModel":
            return objects.BlockModel.create(ws, **_block_kwargs(scene))
        if self.cls == "Grid2D":
            return objects.Grid2D.create(ws, **_grid_kwargs(scene))
        if self.cls == "Octree":
            return objects.Octree.create(ws, **_octree_kwargs(scene))
        obj = objects.DrapeModel.create(ws)
        obj.layers, obj.prisms = drape_arrays(scene["counts"])
        return obj

    def expected(self, obj):
        if self.cls == "BlockModel":
            return _block_expected(obj, True)
        if self.cls == "Grid2D":
            return _grid_expected_obj(obj)
        if self.cls == "Octree":
            sizes = (float(obj.u_cell_size), float(obj.v_cell_size), float(obj.w_cell_size))
            return ref.octree_centres(_records(obj), sizes, _origin3(obj.origin), float(obj.rotation))
        return None

    def state_key(self, obj, filled):
        if self.cls == "DrapeModel":
            attrs = [np.asarray(obj.layers).tolist(), np.asarray(obj.prisms).tolist()]
        elif self.cls == "BlockModel":
            attrs = [np.asarray(obj.u_cell_delimiters).tolist(), np.asarray(obj.v_cell_delimiters).tolist(),
                     np.asarray(obj.z_cell_delimiters).tolist(), _origin3(obj.origin), obj.rotation]
        elif self.cls == "Grid2D":
            attrs = [obj.u_count, obj.v_count, obj.u_cell_size, obj.v_cell_size, _origin3(obj.origin), obj.rotation, obj.dip, bool(obj.vertical)]
        else:
            attrs = [obj.u_count, obj.v_count, obj.w_count, obj.u_cell_size, obj.v_cell_size, obj.w_cell_size, _origin3(obj.origin),
                     obj.rotation, _records(obj)]
        structured = None if self.cls == "DrapeModel" else isinstance(np.asarray(obj.origin).dtype.names, tuple)
        return core.digest([self.cls, attrs, filled, structured])

    def check(self, obj, where, origin_known):
        """-> (violations, centres read or None, centres expected or None)"""
        if self.cls == "DrapeModel":
            v, got = _judge_drape(obj, where)
            return v, got, _drape_fresh_centres(obj)[0]
        got_before, err = _read_centres(obj)  # the read under test comes first: getters must not help it
        if err is not None and err.startswith("raises") and not origin_known:
            return [(COUNT, f"{self.cls}|origin never given|centroids {err}", {"where": where})], None, None
        try:
            exp = self.expected(obj)
        except Exception as err2:  # pylint: disable=broad-except
            return [(COUNT, f"{self.cls}|{where}|attribute getter raises {type(err2).__name__}", None)], None, None
        v, got = judge_centres(self.cls, obj, exp, where, origin_known=origin_known)
        if got is not None and got_before is not None and ref.compare(got, got_before) is not None:
            v.append((FUNC, f"{self.cls}|{where}|two consecutive reads differ", None))
        return v, got, exp


def _drape_apply(obj, op):
    """Drape ops rebuild arrays from the current structure so that layers and prisms stay consistent."""
    pr = np.asarray(obj.prisms, dtype=float)
    counts = [int(x) for x in pr[:, 4]]
    if op[1] == "geometry":
        obj.layers, obj.prisms = drape_arrays(op[2])
    elif op[1] == "layers":  # same structure, all bottoms moved
        lay = np.asarray(obj.layers, dtype=float).copy()
        lay[:, 2] += op[2]
        obj.layers = lay
    elif op[1] == "prisms":  # same structure, trace moved
        pr = pr.copy()
        pr[:, 0] += op[2]
        obj.prisms = pr
    else:
        raise core.HarnessError(f"unknown drape op {op}")
    return counts


def case_seq(c):
    Workspace, _ = _lib()
    seq = _Seq(c["cls"])
    ws = Workspace()
    obj = seq.build(ws, c["scene"])
    origin_known = c["cls"] in ("DrapeModel", "Grid2D") or c["scene"].get("origin") is not None
    viol, states, refusals, reads = [], [], [], 0
    where = "after-create"

    hist = []  # (centres returned, centres expected) at the earlier reads of this very object

    def read():
        nonlocal reads
        reads += 1
        filled = getattr(obj, "_centroids", None) is not None  # state component only, never judged
        out, got, exp = seq.check(obj, where, origin_known)
        # stale = the answer of an earlier read came back although the geometry now calls for other centres
        stale = got is not None and exp is not None and any(
            ref.compare(got, g0) is None and ref.compare(exp, e0) is not None for g0, e0 in hist)
        named = []
        for cl, w, d in out:
            head, kind = w.rsplit("|", 1)
            if kind in ("count", "position"):
                # exactly what the previous read returned although a setter ran since: name it for what it is;
                # any other wrong answer inside a sequence gets one witness per class (detail says where)
                w = f"{head}|stale cache" if stale else f"{c['cls']}|sequence|{kind}"
                d = dict(d or {}, where=where)
            named.append((cl, w, d))
        if got is not None and exp is not None:
            hist.append((got, exp))
        states.append(seq.state_key(obj, filled))
        return named

    if c["prefill"]:
        viol += read()
    for op in c["ops"]:
        if op[0] == "read":
            viol += read()
        elif op[0] == "reopen":
            uid = obj.uid
            ws = _reopen(ws, "r+")
            obj = ws.get_entity(uid)[0]
            hist.clear()
            origin_known = True  # loaded from the file
            where = "after-reopen"
        elif op[0] == "set":
            try:
                if c["cls"] == "DrapeModel":
                    _drape_apply(obj, op)
                    where = "after-set:layers/prisms"
                else:
                    setattr(obj, op[1], _conv(op[1], op[2]))
                    where = f"after-set:{op[1]}"
                if op[1] == "origin":
                    origin_known = True
            except core.HarnessError:
                raise
            except Exception as err:  # pylint: disable=broad-except
                refusals.append(f"{c['cls']}.{op[1]}: {type(err).__name__}")
        elif op[0] == "copy":
            try:
                obj = obj.copy(**{op[1]: _conv(op[1], op[2])})
                hist.clear()
                origin_known = True  # the copy receives the source's origin through its setter
                where = f"after-copy-with:{op[1]}"
            except Exception as err:  # pylint: disable=broad-except
                refusals.append(f"{c['cls']}.copy({op[1]}): {type(err).__name__}")
        else:
            raise core.HarnessError(f"unknown op {op}")
    viol += read()
    ws.close()
    return viol, states, refusals, reads


# =========================================================================== dispatcher
HANDLERS = {"block": case_block, "grid2d": case_grid2d, "octree": case_octree, "drape": case_drape, "curve": case_curve,
            "curve_cells": case_curve_cells, "curve_seq": case_curve_seq, "curve_edit": case_curve_edit}


_DONE = [0]


def run_case(case):
    world.reset("asc")
    _DONE[0] += 1
    if _DONE[0] % 25 == 0:
        world.full_collect()  # the collector is disabled by the World; closed workspaces are cycles
    if case["kind"] == "seq":
        viol, states, refusals, reads = case_seq(case)
    else:
        viol = HANDLERS[case["kind"]](case)
        states = [core.digest([case, "live"]), core.digest([case, "reopen"])]
        refusals, reads = [], 2
    first = {}
    for cl, w, d in viol:
        first.setdefault((cl, w), (cl, w, d))
    viol = list(first.values())
    return {"viol": viol, "states": states, "refusals": refusals, "reads": reads,
            "outcome": core.digest([case["kind"], case.get("cls"), sorted((cl, w) for cl, w, _ in viol), refusals])}


def replay(history):
    return run_case(history)["viol"]


# =========================================================================== enumeration
GIVEN = [10.5, -5.25, 100.0]
STEPS = {"u": [1.0, 2.5, 0.5, 3.0], "v": [3.0, 0.25, 7.0, 1.5], "z": [0.5, 4.0, 1.5, 2.0]}
UNI = {"u": 1.0, "v": 2.0, "z": 4.0}


def _delims(axis, kind, n):
    steps = [UNI[axis]] * n if kind.endswith("uni") else STEPS[axis][:n]
    sign = -1.0 if kind.startswith("-") else 1.0
    out = [0.0]
    for s in steps:
        out.append(out[-1] + sign * s)
    return out


BLOCK_PATTERNS = {"uniform": ("uni", "uni", "uni"), "non-uniform": ("var", "var", "var"), "negative-z": ("var", "uni", "-var"),
                  "all-negative": ("-uni", "-var", "-var"), "negative-u": ("-var", "var", "uni")}


def block_cases(quick):
    ns = (1, 2, 3) if quick else (1, 2, 3, 4)
    pats = ("uniform", "non-uniform", "negative-z") if quick else tuple(BLOCK_PATTERNS)
    origins = (None, GIVEN) if quick else (None, GIVEN, [0.0, 0.0, 0.0], [-3.0, 2.5, -7.75])
    rots = (None, 30.0, 90.0, -90.0, 45.0) if quick else (None, 0.0, 30.0, 90.0, -90.0, 45.0, 180.0, -30.0, 270.0, 360.0, 135.5)
    for (nu, nv, nz), pat, origin, rot in itertools.product(itertools.product(ns, repeat=3), pats, origins, rots):
        ku, kv, kz = BLOCK_PATTERNS[pat]
        yield {"kind": "block", "pattern": pat, "u": _delims("u", ku, nu), "v": _delims("v", kv, nv), "z": _delims("z", kz, nz),
               "origin": origin, "rot": rot}


def grid_cases(quick):
    ns = (1, 2, 3) if quick else (1, 2, 3, 4)
    sizes = ((1.0, 2.0), (2.5, 0.5), (-1.0, 2.0)) if quick else ((1.0, 2.0), (2.5, 0.5), (-1.0, 2.0), (1.5, -2.5))
    origins = (None, GIVEN) if quick else (None, GIVEN, [-3.0, 2.5, -7.75])
    rots = (None, 30.0, -90.0) if quick else (None, 30.0, 90.0, -90.0, 45.0, 180.0)
    dips = (None, 30.0, 90.0) if quick else (None, 0.0, 30.0, 90.0, -30.0, 45, 60.5)
    verts = (None, True) if quick else (None, True, False)
    for (nu, nv), (su, sv), origin, rot, dip, vert in itertools.product(itertools.product(ns, repeat=2), sizes, origins, rots, dips, verts):
        yield {"kind": "grid2d", "nu": nu, "nv": nv, "su": su, "sv": sv, "origin": origin, "rot": rot, "dip": dip, "vertical": vert}


def octree_cases(quick):
    ns = (1, 2, 4, 8) if quick else (1, 2, 4, 8, 16)
    sizes = ([1.0, 2.0, 4.0], [0.5, 2.5, -1.5]) if quick else ([1.0, 2.0, 4.0], [0.5, 2.5, -1.5], [-2.0, 3.0, 0.25])
    origins = (None, GIVEN) if quick else (None, GIVEN, [-3.0, 2.5, -7.75])
    rots = (None, 30.0) if quick else (None, 30.0, -90.0, 45.0)
    modes = ("default", "refined") if quick else ("default", "refined", "structured")
    for dims, size, origin, rot, mode in itertools.product(itertools.product(ns, repeat=3), sizes, origins, rots, modes):
        yield {"kind": "octree", "dims": list(dims), "size": size, "origin": origin, "rot": rot, "cells": mode}


def drape_cases(quick):
    for p in (1, 2, 3):
        for counts in itertools.product((1, 2, 3), repeat=p):
            yield {"kind": "drape", "counts": list(counts)}


def labellings(nmax):
    for n in range(1, nmax + 1):
        for lab in itertools.product((0, 1, 2), repeat=n):
            yield list(lab)


RELABEL = {0: 7, 1: -3, 2: 5}  # non-contiguous, unsorted, one negative: order of np.unique differs from first appearance


def curve_cases(quick):
    paths = ("create", "assign-after-read") if quick else ("create", "assign-after-read", "assign", "assign-array")
    for lab in labellings(5 if quick else 6):
        for path in paths:
            yield {"kind": "curve", "labels": lab, "path": path}
            if not quick:
                yield {"kind": "curve", "labels": [RELABEL[x] for x in lab], "path": path}
    for n in (2, 3, 4) if quick else (2, 3, 4, 5):
        for cells in ref.ordered_chain_cell_lists(n, allow_isolated=(n <= 3)):
            yield {"kind": "curve_cells", "n": n, "cells": cells}
    for n in (1, 2, 3) if quick else (1, 2, 3, 4):
        labs = [list(x) for x in itertools.product((0, 1, 2), repeat=n)]
        for a, b in itertools.product(labs, repeat=2):
            for rb in (True, False):
                yield {"kind": "curve_seq", "first": a, "second": b, "read_between": rb}
    for n in (3, 4) if quick else (3, 4, 5):
        for lab in itertools.product((0, 1, 2), repeat=n):
            for rb in (True, False):
                for at in range(n):
                    yield {"kind": "curve_edit", "labels": list(lab), "read_between": rb, "edit": ["remove_vertices", at]}
                    if at < n - 1:
                        yield {"kind": "curve_edit", "labels": list(lab), "read_between": rb, "edit": ["remove_cells", at]}


SEQ_SCENES = {
    "BlockModel": [
        {"u": [0.0, 1.0, 3.0], "v": [0.0, 2.0, 2.5, 4.0], "z": [0.0, -1.0, -4.0], "origin": GIVEN, "rot": 30.0},
        {"u": [0.0, 1.0, 3.0], "v": [0.0, 2.0], "z": [0.0, 1.0, 4.0], "origin": None, "rot": None},
    ],
    "Grid2D": [
        {"nu": 2, "nv": 3, "su": 1.0, "sv": 2.0, "origin": GIVEN, "rot": 30.0, "dip": None, "vertical": None},
        {"nu": 3, "nv": 2, "su": 1.5, "sv": -2.0, "origin": None, "rot": None, "dip": 30.0, "vertical": None},
    ],
    "Octree": [
        {"dims": [4, 2, 2], "size": [1.0, 2.0, 4.0], "origin": GIVEN, "rot": 30.0, "cells": "default"},
        {"dims": [2, 2, 4], "size": [1.0, 2.0, -4.0], "origin": None, "rot": None, "cells": "refined"},
    ],
    "DrapeModel": [{"counts": [2, 2]}, {"counts": [1, 3, 2]}],
}
ALT_ORIGINS = ([-3.0, 2.5, -7.75], [1.0, 1.0, 1.0])
SEQ_SETTERS = {
    "BlockModel": [("origin", ALT_ORIGINS[0]), ("origin", ALT_ORIGINS[1]), ("rotation", 45.0), ("rotation", -30.0),
                   ("u_cell_delimiters", [0.0, 2.0, 3.0]), ("u_cell_delimiters", [0.0, 1.0, 2.0, 5.0]),
                   ("v_cell_delimiters", [0.0, -1.0, -1.5, -4.0]), ("v_cell_delimiters", [0.0, 5.0]),
                   ("z_cell_delimiters", [0.0, 2.0, 7.0]), ("z_cell_delimiters", [0.0, -0.5, -1.0, -3.0])],
    "Grid2D": [("origin", ALT_ORIGINS[0]), ("origin", ALT_ORIGINS[1]), ("rotation", 45.0), ("rotation", -30.0), ("dip", 60.0), ("dip", 90.0),
               ("vertical", True), ("vertical", False), ("u_cell_size", 0.5), ("u_cell_size", -3.0), ("v_cell_size", 4.0), ("v_cell_size", 0.25),
               ("u_count", 4), ("u_count", 1), ("v_count", 1), ("v_count", 4)],
    "Octree": [("origin", ALT_ORIGINS[0]), ("origin", ALT_ORIGINS[1]), ("rotation", 45.0), ("rotation", -30.0),
               ("u_cell_size", 0.5), ("v_cell_size", 7.0), ("w_cell_size", -1.25), ("u_count", 8), ("v_count", 4), ("w_count", 1),
               ("octree_cells", [[0, 0, 0, 1], [1, 0, 0, 1], [0, 1, 0, 1], [1, 1, 0, 1], [0, 0, 1, 1], [1, 0, 1, 1], [0, 1, 1, 1], [1, 1, 1, 1], [2, 0, 0, 2]]),
               ("octree_cells", [[2, 0, 0, 2], [0, 0, 0, 2]])],
    "DrapeModel": [("geometry", [3, 3]), ("geometry", [2, 2]), ("geometry", [1]), ("layers", -1.0), ("prisms", 5.0)],
}
SEQ_COPIES = {"BlockModel": [("rotation", 10.0), ("u_cell_delimiters", [0.0, 4.0])], "Grid2D": [("rotation", 10.0), ("u_count", 5)],
              "Octree": [("rotation", 10.0), ("u_cell_size", 9.0)], "DrapeModel": []}


def seq_cases(quick):
    depth = 2 if quick else 3
    for cls in ("Grid2D", "BlockModel", "Octree", "DrapeModel"):
        alpha = [["set", a, v] for a, v in SEQ_SETTERS[cls]] + [["read"], ["reopen"]] + [["copy", a, v] for a, v in SEQ_COPIES[cls]]
        for si, scene in enumerate(SEQ_SCENES[cls]):
            for prefill in (True, False):
                if quick and si == 1 and not prefill:
                    continue
                for d in range(depth + 1):
                    for ops in itertools.product(alpha, repeat=d):
                        if any(a[0] == "read" and b[0] == "read" for a, b in zip(ops, ops[1:])):
                            continue  # two reads in a row add nothing (a read is checked against its predecessor anyway)
                        if ops and ops[-1][0] == "read":
                            continue  # every history ends with a read already
                        if prefill and ops and ops[0][0] == "read":
                            continue
                        yield {"kind": "seq", "cls": cls, "scene": scene, "prefill": prefill, "ops": [list(o) for o in ops]}


def _complexity(case):
    k = case["kind"]
    if k == "seq":
        return (1, len(case["ops"]), 0 if case["prefill"] else 1)
    if k == "curve":
        return (0, len(case["labels"]), len(set(case["labels"])))
    if k == "curve_cells":
        return (0, case["n"], len(case["cells"]))
    if k == "curve_seq":
        return (1, len(case["first"]), 0)
    if k == "curve_edit":
        return (1, len(case["labels"]), 1)
    if k == "block":
        return (0, len(case["u"]) * len(case["v"]) * len(case["z"]), 0 if case["rot"] is None else 1)
    if k == "grid2d":
        return (0, case["nu"] * case["nv"], sum(case[x] is not None for x in ("rot", "dip", "vertical", "origin")))
    if k == "octree":
        return (0, case["dims"][0] * case["dims"][1] * case["dims"][2], 0 if case["rot"] is None else 1)
    return (0, sum(case["counts"]), 0)


def run(ctx):
    quick = ctx.quick
    families = {"block": list(block_cases(quick)), "grid2d": list(grid_cases(quick)), "octree": list(octree_cases(quick)),
                "drape": list(drape_cases(quick)), "curve": list(curve_cases(quick)), "seq": list(seq_cases(quick))}
    cases = []
    for fam in families.values():
        # simplest first (the first violation per signature is the one that is kept);
        # VERIF_SEED only permutes ties
        cases += sorted(fam, key=lambda c: (_complexity(c), core.digest([ctx.seed, c])))
    results = core.pmap(run_case, cases)
    states, per_kind, refusals, reads = set(), {}, {}, 0
    for case, r in zip(cases, results):
        k = case["kind"] if case["kind"] != "seq" else f"seq:{case['cls']}"
        per_kind[k] = per_kind.get(k, 0) + 1
        states.update(r["states"])
        reads += r["reads"]
        for x in r["refusals"]:
            refusals[x] = refusals.get(x, 0) + 1
        ctx.outcomes.add(r["outcome"])
        if r["viol"]:
            ctx.add_violations(case, r["viol"])
    for k in ("block", "grid2d", "octree", "curve", "seq"):
        ctx.sample({"case": families[k][len(families[k]) // 2], "verdict": "see violations / known findings"}, cap=8)

    # determinism + plain-vs-pool self test on a handful of cases
    probe = [families[k][i] for k in families for i in (0, len(families[k]) // 3)]
    for c in probe:
        a, b = run_case(c), run_case(c)
        if core.jdump(a) != core.jdump(b) or core.jdump(a) != core.jdump(results[cases.index(c)]):
            raise core.HarnessError(f"non-deterministic case {c}")

    ctx.cover(
        states=len(states),
        transitions=len(cases),
        traces_validated_against_impl=len(cases),
        centroid_or_cell_reads_judged=reads,
        cases_per_family=per_kind,
        setter_refusals=refusals,
        determinism_replays=len(probe),
        distinct_outcomes=len(ctx.outcomes),
        exhaustive=True,
        alphabet={"seq": {cls: {"setters": SEQ_SETTERS[cls], "copies": SEQ_COPIES[cls], "other": ["read", "reopen"]} for cls in SEQ_SETTERS}},
        bound=("static: block shapes {1..%d}^3 x %d delimiter patterns x origins x rotations; grid2d shapes {1..%d}^2 x sizes x origins x rotations x dips x vertical; "
               "octree dims {1,2,4,8%s}^3 x sizes x origins x rotations x {default, explicit}; drape: all layer-count tuples of <= 3 prisms with <= 3 layers; "
               "curve: all labellings of n <= %d vertices by 3 part ids, ordered-chain cell lists n <= %d, all ordered pairs of labellings n <= %d; "
               "seq: all operation sequences of length <= %d per grid class from 2 scenes, cache filled or not")
        % ((3, 3, 3, "", 5, 4, 3, 2) if quick else (4, 5, 4, ",16", 6, 5, 4, 3)),
    )
    ctx.assumptions += [
        "formulas are written from docs/content/geoh5_format/analyst/objects.rst; block-model delimiters start at 0 as the format requires ('first value should be 0')",
        "rotation is counter-clockwise about the vertical axis at the origin (format text); the sign of Grid2D.dip is fixed by the documented vertical case "
        "(Vertical => V axis on +Z, dip = rotation about the U axis); the format text does not list Dip",
        "positions compare with 1e-9 relative tolerance (DESIGN 2.7); order and orientation of curve segments are not compared",
        "sequences judge centroids against the attributes as currently returned by the getters: whether a setter persists is C03, not C17",
        "the tiling clause applies to octrees whose cells were never given AND whose counts were not changed after creation "
        "(Octree fixes its default cells when it is first saved; a later change of u_count does not re-tile - outside the statement)",
        "DrapeModel has no centre formula in the format text: only 'as many centres as cells' and 'cached centres == centres a fresh object computes from the same layers/prisms'",
        "curve cell lists given directly are restricted to vertex-disjoint chains written head-to-tail (what a labelling can produce, in any vertex order, open or closed); "
        "reversed / branching / unordered user cell lists are outside the quantifier ('all part labelings of a vertex list')",
        "bounded: nothing is claimed beyond the shapes, lattices and sequence depth listed in coverage.bound",
    ]
