"""C05 - deletion removes exactly the entity, its descendants and all references to them.

Explicit-state exploration over builders + both removal entry points + permission flag +
follow-up operations.  Oracle clauses (one per sentence of the statement): deleted-from-file,
no-reference-left (child lists, property groups; live and re-opened), lookup-yields-nothing and
gone-from-listings (once the harness dropped its references and a GC ran),
survivor-operations-succeed, refused-when-protected / refusal-changes-nothing,
survivors-intact.  DESIGN.md §4 C05.  Concatenated holes/data: see C04.
"""

from __future__ import annotations

from .. import treecheck
from ..treeprop import DROP_ASC, DROP_DESC, GC_DROP, HOLD_ASC, HOLD_DESC, TreeProp

QUICK = [
    ("S7", DROP_ASC, 1, "DELCORE"),
    ("S8", DROP_ASC, 1, "DELCORE"),
    ("S8", HOLD_DESC, 1, "DELCORE"),
    ("S4", DROP_ASC, 1, "DEL"),
    ("S4", DROP_ASC, 2, "DELCORE"),
    ("S4r", HOLD_DESC, 1, "DEL"),
    ("S2", HOLD_DESC, 2, "DELCORE"),
    ("S1", DROP_ASC, 2, "DEL"),
    ("S1", DROP_ASC, 2, "PGDEL"),
]
THOROUGH = [
    ("S7", DROP_ASC, 2, "DELCORE"),
    ("S8", DROP_ASC, 2, "DELCORE"),
    ("S8", HOLD_DESC, 2, "DELCORE"),
    ("S4", DROP_ASC, 2, "DEL"),
    ("S4", HOLD_DESC, 2, "DEL"),
    ("S4", DROP_DESC, 3, "DELCORE"),
    ("S4r", HOLD_ASC, 2, "DEL"),
    ("S2", HOLD_DESC, 2, "DEL"),
    ("S2", DROP_ASC, 3, "DELCORE"),
    ("S1", DROP_ASC, 3, "DEL"),
    ("S1", DROP_ASC, 3, "PGDEL"),
    ("S4", HOLD_DESC, 2, "PGDEL"),
    ("S2r", DROP_DESC, 2, "DEL"),
    ("S1", HOLD_ASC, 2, "FULL"),
    ("S2", GC_DROP, 2, "GCOPS"),
    ("S4", GC_DROP, 1, "GCOPS"),
]

P = TreeProp(
    "C05",
    treecheck.clauses_c05,
    treecheck.C05Protocol,
    QUICK,
    THOROUGH,
    assumptions=[
        "removal of an entity with a protected (allow_delete off) descendant is not explored: the statement leaves its outcome open",
        "concatenated drillholes and their data are covered by the C04 explorer",
    ],
)
run, replay = P.run, P.replay
