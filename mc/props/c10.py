"""C10 - read-only workspaces never change the file.

Enumerated (reflectively, see mc/c10_lib.py):
  scenes      one geoh5 file on disk per concrete class of geoh5py.objects / groups / data (the mc.fixtures
              instance of that class, a ContainerGroup, a Points object with data and a property group),
              plus the file holding the fixture of EVERY class (scene "ALL");
  targets     the Workspace, the fixture entity, its entity type, a property group, the colour map / value
              map objects, and inside drillhole groups a concatenated hole, its type, its data, the type of
              that data and a concatenated property group;
  entry points every `property` (getter; setter when there is one) and every public method found with
              inspect.getmembers on the RUNTIME class of each target, each with one valid argument tuple
              (a second one for a few), plus the helpers of the statement: fetch_active_workspace (r, r+,
              default), path2workspace, InputFile.read_ui_json / data setter, monitored_directory_copy,
              Workspace.save_as, close/open, a second handle asking for r+, repack, context managers;
  sequences   depth 1: every entry point of every scene (quick: one representative per
              (defining class, member, kind, storage) + helpers and Workspace mutators on the file holding
              every class; thorough: all);
              depth 2: ordered pairs (A ; B), A any entry point or helper, B a mutator or helper, over the
              entry points of a scene - quick: getter -> mutator pairs of the Points scene and helper pairs;
              thorough: for every pair scene, every pair in which A or B is an entry point not already
              paired in an earlier scene.
  sessions    everything above on Workspace(path, mode="r"); in addition every mutating entry point at depth 1
              (incl. "assign None" variants) on the two other ways of holding a read-only handle: constructed with
              the default mode then close() + open(mode="r"), and the OSError fallback of Workspace.open
              (quick: one representative per key; fallback on four scenes; thorough: all scenes).
  Every sequence is followed by close() and is executed on the real library in mode "r"; the read-write
  twin (same bytes, same ops, mode "r+") decides which ops "would have to write".
Oracle: clauses bytes-unchanged, handle-stays-read-only, must-raise, helper-leaves-source-unchanged
(mc/c10_lib.py docstring).
"""

from __future__ import annotations

import os
import sys

from .. import c10_lib as lib
from .. import core, fixtures

PAIR_SCENES_QUICK = ["Points"]
PAIR_SCENES = [
    "Points", "Curve", "Surface", "Grid2D", "BlockModel", "Octree", "DrapeModel", "Drillhole", "GeoImage", "Label",
    "ContainerGroup", "RootGroup", "UIJsonGroup", "CustomGroup", "DrillholeGroup",
    "FloatData", "ReferencedData", "TextData", "FilenameData", "CommentsData", "VisualParameters", "MultiTextData",
    "AirborneTEMReceivers", "AirborneTEMTransmitters", "LargeLoopGroundTEMReceivers", "TipperReceivers", "PotentialElectrode",
    "CurrentElectrode", "MTReceivers", "PropertyGroup",
]
DATA_SCENES = tuple(n for n in fixtures.FACTORIES if fixtures.kind_of(n) == "data")
QUICK_FALLBACK_SCENES = ("Points", "FloatData", "ReferencedData", "DrillholeGroup")
DEDUP_TARGETS = ("DrillholeGroup",)
# quick tier: second ops of a pair = every helper that mutates + one representative of every write path
QUICK_SECOND = {
    ("self", "set", "name", 0), ("self", "set", "vertices", 0), ("self", "call", "add_data", 0), ("self", "call", "remove_children", 0),
    ("self", "call", "copy", 0), ("self", "call", "add_data_to_group", 0), ("type", "set", "name", 0), ("pg", "call", "remove_properties", 0),
    ("ws", "call", "remove_entity", 0), ("ws", "call", "save_entity", 0), ("ws", "call", "create_entity", 0), ("ws", "call", "close", 0),
    ("ws", "call", "update_attribute", 0), ("ws", "call", "copy_to_parent", 0),
}
# never first in a pair: it declares the entity absent from the file (bookkeeping flag of the library)
NOT_FIRST = {("set", "on_file")}


def describe_one(name):
    return lib.describe(name)


def run_single(case):
    return lib.run_case(case, need_twin="always")


def run_pair(case):
    return lib.run_case(case, need_twin="auto")


def replay(history):
    mode = "always" if len(history["ops"]) == 1 else "auto"
    return [tuple(v) for v in lib.run_case(history, need_twin=mode)["viol"]]


def op_key(op, scene=""):
    """Representative key of the quick tier.  Entity types are keyed by target, data types also by the data class
    of the scene (colour maps, value maps and units only mean something for some of them)."""
    extra = ""
    if op["t"].endswith("type") or "." in op["t"]:
        extra = op["t"] + (":" + scene if scene in DATA_SCENES else "")
    return (op["owner"], op["m"], op["k"], op.get("v", 0), op["storage"], extra)


def _family(clause):
    return "bytes-unchanged" if clause == "helper-leaves-source-unchanged" else clause


def _strip(op):
    return {k: op[k] for k in ("t", "k", "m", "v", "owner", "cls", "storage", "role")}


def enumerate_cases(ctx, described):
    helpers = lib.helper_ops()
    singles, seen = [], set()
    for d in described:
        for op in d["ops"] + (helpers if d["scene"] in ("Points", "ALL", "DrillholeGroup") else []):
            key = op_key(op, d["scene"])
            if ctx.quick and d["scene"] == "ALL":  # the big file: helpers and the mutating Workspace entry points only
                if op["role"] != "mutator" and op["k"] != "helper":
                    continue
            elif ctx.quick and key in seen:
                continue
            seen.add(key)
            singles.append({"scene": d["scene"], "ops": [_strip(op)]})
    # the other ways of being read-only (constructed with the default mode, then open(mode="r") / OSError fallback):
    # every mutating entry point (no helpers; not save / save_as, whose re-opening uses the constructor's mode by contract)
    sessions, seen_s = [], set()
    for d in described:
        if d["scene"] == "ALL":
            continue
        for op in d["ops"]:
            if op["role"] != "mutator" or op["m"] in ("save", "save_as", "h5file"):
                continue
            for session in lib.SESSIONS[1:]:
                if ctx.quick:
                    if session == "fallback_r" and d["scene"] not in QUICK_FALLBACK_SCENES:
                        continue
                    if (op_key(op, d["scene"]), session) in seen_s:
                        continue
                seen_s.add((op_key(op, d["scene"]), session))
                sessions.append({"scene": d["scene"], "ops": [_strip(op)], "session": session})
    pairs, paired = [], set()
    by_scene = {d["scene"]: d for d in described}
    for name in PAIR_SCENES_QUICK if ctx.quick else PAIR_SCENES:
        if name not in by_scene:
            continue
        ops = by_scene[name]["ops"] + helpers
        if name in DEDUP_TARGETS:  # many targets share one write path: one representative per member
            kept, seen_m = [], set()
            for o in ops:
                mk = (o["m"], o["k"], o.get("v", 0), o["storage"] != "plain", o["t"].endswith("type"))
                if mk not in seen_m:
                    seen_m.add(mk)
                    kept.append(o)
            ops = kept
        fresh = {op_key(o) for o in ops} - paired
        for a in ops:
            if (a["k"], a["m"]) in NOT_FIRST:
                continue
            for b in ops:
                if b["role"] != "mutator":
                    continue
                if op_key(a) not in fresh and op_key(b) not in fresh:
                    continue
                if ctx.quick and not (b["k"] == "helper" or (b["t"], b["k"], b["m"], b.get("v", 0)) in QUICK_SECOND):
                    continue
                pairs.append({"scene": name, "ops": [_strip(a), _strip(b)]})
        paired |= fresh
    return singles, sessions, pairs


def run(ctx):  # noqa: C901
    n_classes = fixtures.check_complete()
    lib.install_observer()
    lib.install_repack()
    names = lib.scene_names() + ["ALL"]
    only = os.environ.get("VERIF_C10_ONLY")  # development aid (evidence then says exhaustive=False)
    if only:
        names = [n for n in names if n in only.split(",")]
    described = core.pmap(describe_one, names)
    missing = sorted({m for d in described for m in d["missing"]})
    if missing:
        raise core.HarnessError("public methods without an argument tuple in mc/c10_lib.ARGS (a new entry point?): " + ", ".join(missing))
    singles, sessions, pairs = enumerate_cases(ctx, described)
    cap = int(os.environ.get("VERIF_C10_MAXPAIRS", "0") or 0)  # development aid (evidence then says exhaustive=False)
    if cap:
        pairs = pairs[:: max(1, len(pairs) // cap)][:cap]
    if ctx.seed:  # the seed only rotates the execution order (verdicts do not depend on it)
        k = ctx.seed * 7919 % max(1, len(singles))
        singles = singles[k:] + singles[:k]
        k = ctx.seed * 7919 % max(1, len(pairs))
        pairs = pairs[k:] + pairs[:k]
    # determinism self-test: the same case twice in this process gives the same result
    ndet = 0
    probes = [c for c in singles if c["ops"][0]["m"] in ("repack", "uid", "name", "save_as", "copy")][:8]
    for case in probes + singles[:: max(1, len(singles) // 5)][:5] + pairs[:: max(1, len(pairs) // 3)][:3]:
        a, b = lib.run_case(case, "always"), lib.run_case(case, "always")
        if core.jdump(a) != core.jdump(b):
            raise core.HarnessError(f"non-deterministic execution of {case}")
        ndet += 1
    res1 = core.pmap(run_single, singles)
    res1s = core.pmap(run_single, sessions)
    res2 = []
    for start in range(0, len(pairs), 10000):  # in blocks, so that a long run shows signs of life on stderr
        res2 += core.pmap(run_pair, pairs[start : start + 10000])
        print(f"[C10] {min(start + 10000, len(pairs))}/{len(pairs)} pairs after {ctx.elapsed():.0f}s", file=sys.stderr, flush=True)

    states, transitions, judged = set(), 0, 0
    wrote_and_refused, twin_runs, entry_points = 0, 0, set()
    refusing, silent_ok, twin_failed = set(), set(), set()
    # a clause already broken by one member of a pair on its own explains the pair: not reported twice
    single_viol: dict = {}
    for case, res in zip(singles, res1):
        for v in res["viol"]:
            single_viol.setdefault(op_key(case["ops"][0]), set()).add(_family(v[0]))
    explained = 0
    for case, res in list(zip(singles, res1)) + list(zip(sessions, res1s)) + list(zip(pairs, res2)):
        vl = [tuple(v) for v in res["viol"]]
        if len(case["ops"]) > 1:
            own = set().union(*(single_viol.get(op_key(o), set()) for o in case["ops"]))
            explained += sum(1 for v in vl if _family(v[0]) in own)
            vl = [v for v in vl if _family(v[0]) not in own]
        ctx.add_violations(case, vl)
        states.add(res["state"])
        n = len(res["ro"])
        transitions += n
        judged += n  # bytes and handle clauses are evaluated after every op of the read-only run
        if res["twin"] is not None:
            twin_runs += 1
            transitions += n
            for i, wrote in enumerate(res["twin"]["wrote"]):
                if wrote and res["ro"][i] == "raised":
                    wrote_and_refused += 1
        ops = case["ops"]
        for i, op in enumerate(ops):
            entry_points.add(op_key(op))
            tw = res["twin"]
            ctx.outcomes.add((lib.witness(op), res["ro"][i], None if tw is None else (tw["outcomes"][i], tw["wrote"][i]), bool(res["viol"])))
            if len(ops) == 1 and tw is not None and tw["wrote"][0]:
                (refusing if res["ro"][0] == "raised" else silent_ok).add(lib.witness(op))
            if len(ops) == 1 and tw is not None and tw["outcomes"][0] == "raised":
                twin_failed.add(lib.witness(op))

    for case in singles[:: max(1, len(singles) // 3)][:3] + pairs[:: max(1, len(pairs) // 3)][:3]:
        ctx.sample({"scene": case["scene"], "ops": [lib.op_label(o) for o in case["ops"]] + ["close"]})
    ctx.cover(
        states=len(states),
        transitions=transitions,
        traces_validated_against_impl=judged,
        sequences=len(singles) + len(sessions) + len(pairs),
        depth1=len(singles),
        depth1_other_read_only_sessions=len(sessions),
        depth2=len(pairs),
        scenes=len(described),
        concrete_classes=n_classes,
        entry_points=len(entry_points),
        entry_points_that_write_in_the_twin_and_raise_read_only=len(refusing),
        entry_points_whose_twin_call_raised_in_some_scene=len(twin_failed),
        twin_runs=twin_runs,
        twin_writes_refused_read_only=wrote_and_refused,
        helpers=len(lib.HELPERS),
        distinct_outcomes=len(ctx.outcomes),
        determinism_replays=ndet,
        pair_violations_explained_by_a_single_op=explained,
        exhaustive=not only and not cap,
        alphabet="get / set / call of every public member of Workspace, entities, entity types, property groups, colour and value maps "
        "(runtime classes, incl. concatenated storage) + helpers " + ", ".join(lib.HELPERS),
        bound=(
            "depth 1: " + ("one representative per (defining class, member, kind, storage)" if ctx.quick else "every entry point of every scene")
            + "; depth 2 (A;B, B mutator): " + ("getter->mutator and helper pairs of scene Points" if ctx.quick else "all pairs with a not-yet-paired entry point over scenes " + ", ".join(PAIR_SCENES))
            + "; every sequence followed by close(); one argument tuple per entry point (two for a few)"
        ),
    )
    ctx.assumptions += [
        "file on disk (RAM-backed scratch directory); SHA-256 of the whole file is the byte oracle",
        "'would have to write' = the same op changed mc.rawh5.digests of the flushed read-write twin (semantic content, not raw bytes)",
        "any exception type counts as 'fails with an error'; in-memory state after a refused call is not judged",
        "argument tuples: mc.domains.values_for for settable attributes, mc/c10_lib.ARGS for methods; setters in domains.SKIP get own values "
        "or are re-assigned their current value",
        "h5repack is not installed: emulated by a content-identical, byte-different copy (mc/c10_lib._fake_repack) so that the repack branch of "
        "Workspace.close is observable",
        "ops that are an explicit request for a writable handle (fetch_active_workspace(mode='r+'), a second Workspace(path, mode='r+')) are exempt "
        "from handle-stays-read-only only; opening in 'r+' from the start is outside the quantifier",
        "read-only sessions: Workspace(path, mode='r') for everything; additionally, for every mutating entry point at depth 1, a workspace constructed "
        "with the default mode and re-opened with open(mode='r'), and one that fell back to 'r' on OSError (HDF5 refusing write access because another "
        "handle of the process holds the file read-only; chmod is useless as root); helpers and save / save_as are left out there (re-opening such a "
        "workspace without a mode gives 'r+' by contract)",
        "set on_file is never the first op of a pair (it declares the entity absent from the file)",
        "fixtures.UNREADABLE classes have no scene: " + ", ".join(lib.SKIP_SCENES),
        "pairs are enumerated per scene (entry points of one fixture class, its type, property group, the workspace and the helpers), not across "
        "fixture classes",
    ]
