"""C03 - no accepted attribute change is lost (write-through completeness).

Enumerated (DESIGN.md section 4, C03), reflectively:
  targets     the fixture entity of every concrete class of geoh5py.objects / groups / data
              (mc.fixtures, 65 classes + PropertyGroup), its entity type (ObjectType / GroupType /
              DataType), the concatenated storage path (drillhole, its type, float and text data,
              property group inside a DrillholeGroup), a colour map and a value map object, and the
              project header (Workspace);
  attributes  every `property` with a setter on the target's class, minus domains.SKIP;
  values      every value of domains.values_for (>= 2 per attribute);
  histories   singles: assign one attribute, on the entity as created (still in memory) and on
              the entity re-loaded from the file in r+ mode (deviation "pre"; COLD: neither the domain
              nor the 'before' record reads the entity - both come from a separate read-only opening -
              so the setter is the first touch, None included); plus, for every array / dict / list
              attribute, "read through the getter, edit the returned object in place, assign it back";
              pairs: every ORDERED pair of distinct attributes of one target (first value of each
              domain), plain, with "pre", and with a re-open between the two assignments ("mid").
              quick: pairs for the representative targets only; thorough: all targets.
  Every history ends with close + read-only re-open + raw HDF5 read.
Oracle: mc/c03_lib.py - clauses later-reader-can-read, reader-sees-assigned, memory-equals-stored
(for ALL attributes of the entity, not only the assigned one), stored-equals-assigned (raw HDF5);
per assigned attribute the first failing clause is reported; a two-assignment history reports
only what neither assignment shows on its own (witness suffix "|pair-only").
Witness = class that defines the setter + stored field (+ @kind for setters inherited from
Entity / EntityType, + [concatenated] / [concatenator] storage path, + "=None").
"""

from __future__ import annotations

import itertools
import os

from .. import c03_lib as lib
from .. import core, fixtures

QUICK_PAIR_TARGETS = [
    ("Grid2D", "self"), ("Octree", "self"), ("Drillhole", "self"), ("FloatData", "self"), ("FloatData", "type"),
    ("ContainerGroup", "self"), ("ContainerGroup", "type"), ("Curve", "self"), ("Workspace", "self"), ("PropertyGroup", "self"),
]
MID_TARGETS = QUICK_PAIR_TARGETS + [("DrillholeGroup", "hole"), ("UIJsonGroup", "self"), ("AirborneTEMReceivers", "self"), ("GeoImage", "self")]


def run_one(history):
    return lib.run_case(history)


def describe_one(item):
    return lib.describe(item)


def replay(history):
    return [tuple(v) for v in lib.run_case(history)["viol"]]


def _histories(ctx, described):
    singles, pairs = [], []
    for d in described:
        base = {"property": "C03", "cls": d["cls"], "target": d["target"]}
        for pre in (False, True):
            for attr, nvals, _, _, none_idx, editable in d["attrs"]:
                for vi in range(nvals):
                    if ctx.quick and pre and vi > 0 and vi not in none_idx:
                        continue  # quick: the re-loaded (cold) variant with the first value of each domain and with None
                    singles.append(dict(base, ops=[[attr, vi]], pre=pre, mid=False))
                if editable:  # read through the getter, edit in place, assign back
                    singles.append(dict(base, ops=[[attr, "e"]], pre=pre, mid=False))
    singles.sort(key=lambda h: (h["pre"], 99 if h["ops"][0][1] == "e" else h["ops"][0][1]))  # simplest first: no deviation, first value
    for d in described:
        key = (d["cls"], d["target"])
        if ctx.quick and key not in QUICK_PAIR_TARGETS:
            continue
        base = {"property": "C03", "cls": d["cls"], "target": d["target"]}
        names = [a[0] for a in d["attrs"]]
        variants = [(False, False)] if ctx.quick else [(False, False), (True, False)]
        if key in MID_TARGETS and not ctx.quick:
            variants.append((False, True))
        for pre, mid in variants:
            for a, b in itertools.permutations(names, 2):
                pairs.append(dict(base, ops=[[a, 0], [b, 0]], pre=pre, mid=mid))
    pairs.sort(key=lambda h: (h["pre"] + h["mid"],))
    # the SAME attribute assigned twice with two different values of its domain (int then fractional
    # float, None then a value, 2-row then 3-row array ...), plain and with a re-open in between
    same = []
    for d in described:
        base = {"property": "C03", "cls": d["cls"], "target": d["target"]}
        for attr, nvals, _, numeric, _, _ in d["attrs"]:
            if ctx.quick and not numeric:
                continue  # quick: numeric scalars only; thorough: every attribute
            variants = [(False, False), (False, True)] if ctx.quick else [(False, False), (True, False), (False, True)]
            for pre, mid in variants:
                for i, j in itertools.permutations(range(nvals), 2):
                    same.append(dict(base, ops=[[attr, i], [attr, j]], pre=pre, mid=mid))
    same.sort(key=lambda h: (h["pre"] + h["mid"],))
    return singles, same + pairs


def run(ctx):
    n_classes = fixtures.check_complete()
    classes = [c for c in fixtures.FACTORIES] + ["Workspace"]
    only = os.environ.get("VERIF_C03_ONLY")  # development aid: restrict to some fixture classes (evidence then says exhaustive=False)
    if only:
        classes = [c for c in classes if c in only.split(",")]
    items = [{"cls": c, "target": t} for c in classes for t in lib.target_names(c) if c not in fixtures.UNREADABLE or t == "self"]
    # a class whose fixture cannot be read back: one probing history instead of its attributes
    unreadable = [i for i in items if i["cls"] in fixtures.UNREADABLE]
    items = [i for i in items if i["cls"] not in fixtures.UNREADABLE]
    described = core.pmap(describe_one, items)
    singles, pairs = _histories(ctx, described)
    probes = [{"property": "C03", "cls": i["cls"], "target": "self", "ops": [], "pre": True, "mid": False} for i in unreadable]
    cases = probes + singles + pairs
    if ctx.seed:
        # the seed only rotates the execution order inside each block (verdicts do not depend on it)
        k = ctx.seed % max(1, len(singles))
        singles = singles[k:] + singles[:k]
        cases = probes + singles + pairs
    results = core.pmap(run_one, cases)

    states, n_assign, n_accepted, n_refused, n_judged = set(), 0, 0, 0, 0
    pairs_cov = set()
    refusals = {}
    for case, res in zip(cases, results):
        ctx.add_violations(case, [tuple(v) for v in res["viol"]])
        if res["state"]:
            states.add(res["state"])
        n_assign += len(res["statuses"])
        n_accepted += sum(1 for s in res["statuses"] if s == "accepted")
        n_refused += sum(1 for s in res["statuses"] if s == "refused")
        if res["statuses"] and all(s == "accepted" for s in res["statuses"]) and res["state"]:
            n_judged += 1
        for (attr, _), status, defining in zip(case["ops"], res["statuses"], res["defining"]):
            ctx.outcomes.add((res["target_class"], attr, status, bool(res["viol"])))
            pairs_cov.add((res["target_class"], attr))
            if status == "refused" and len(case["ops"]) == 1 and not case["pre"]:
                refusals[f"{res['target_class']}.{attr}[{case['ops'][0][1]}]"] = res["errors"][0] if res["errors"] else None
    # determinism self-test: the same history twice in this process gives the same result
    probe = [h for h in singles if h["cls"] in ("Octree", "FloatData", "DrillholeGroup")][:6]
    ndet = 0
    for h in probe:
        a, b = lib.run_case(h), lib.run_case(h)
        if core.jdump(a) != core.jdump(b):
            raise core.HarnessError(f"non-deterministic execution of {h}")
        ndet += 1
    step = max(1, len(cases) // 6)
    for case in cases[::step][:6]:
        ctx.sample(case)
    ctx.cover(
        states=len(states),
        transitions=n_assign,
        traces_validated_against_impl=n_judged,
        histories=len(cases),
        singles=len(singles),
        ordered_pairs=len(pairs),
        same_attribute_pairs=sum(1 for h in pairs if h["ops"][0][0] == h["ops"][1][0]),
        assignments_accepted=n_accepted,
        assignments_refused=n_refused,
        concrete_classes=n_classes,
        targets=len(described),
        class_attribute_pairs=len(pairs_cov),
        attributes_observed_per_history="every settable or mapped attribute of the target (c03_lib.observable)",
        refused_single_assignments=refusals,
        distinct_outcomes=len(ctx.outcomes),
        determinism_replays=ndet,
        exhaustive=not only,
        alphabet="assign(target, attribute, value index) | reopen(r+) before | reopen(r+) between; then close + re-open(r) + raw read",
        bound=(
            "all (class, settable attribute, domain value) singles x {as created, re-loaded r+"
            + (" (first value only)" if ctx.quick else "")
            + "}; all ordered pairs of distinct attributes "
            "(first domain value each) for "
            + ("the representative targets " + str(QUICK_PAIR_TARGETS) if ctx.quick else "every target x {plain, pre re-open} plus a re-open between for " + str(MID_TARGETS))
        ),
        deviation_budget_completed={"reopen": 1},
    )
    ctx.assumptions += [
        "domains: mc/domains.py (valid values by attribute name and current value; arrays are same-length replacements; numbers exact in float32)",
        "never assigned (domains.SKIP): " + "; ".join(f"{k} - {v}" for k, v in sorted(__import__('mc.domains', fromlist=['SKIP']).SKIP.items())),
        "no slot in the file format, executed but not judged: " + "; ".join(f"{k} ({v})" for k, v in lib.domains.IN_MEMORY_ONLY.items()),
        "coupled by the API, judged only by live == re-opened: Grid2D.dip while vertical is true; Drillhole.end_of_hole after surveys; "
        "FilenameData.values after file_name; two attributes stored in the same field (views of metadata / vertices / cells / values)",
        "derived getters, judged only by live == re-opened: " + "; ".join(f"{'.'.join(str(x) for x in k)} - {v}" for k, v in lib.DERIVED.items()),
        "excluded by rule: " + "; ".join(f"{c}.{a} - {v}" for (c, a), v in lib.RULE_EXCLUDED.items()),
        "metadata assignment of a dict updates the existing metadata (documented setter contract): expected value is the merged dict",
        "attributes whose live and re-opened getters already differ with NO assignment (reader quirks, property C01) are not attributed to an "
        "assignment unless they are the assigned attribute",
        "a history in which an assignment is refused (raises) is executed but not judged: the statement speaks of successful assignments",
        "raw clause evaluated for ordinary nodes, types and the project header; concatenated records, property groups, colour / value map objects "
        "are judged through the read-only re-opening only",
        "fixture of UnknownData cannot be re-opened at all (fixtures.UNREADABLE): probed once, attributes not enumerated",
    ]
