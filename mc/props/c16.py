"""C16 - Merging preserves every input's geometry and data.

Statement (properties.jsonl): merging several points, curves, surfaces or drape models
yields one object whose vertices are the inputs' vertices in order and in which every
cell connects the same coordinates as the corresponding input cell, also when an input
contains vertices that none of its cells uses.  Data are concatenated per name, type and
association in input order with no-data values where an input lacks them, and the inputs
are left unchanged.

Technique: exhaustive product enumeration (DESIGN.md §2.5, §4 C16) of

    class x ordered list of input shapes (catalogue) x data set per input x environment

executed on the real mergers (geoh5py.shared.merging), judged against a boring reference
that is computed from the *specification of the inputs* only (concatenate, pad).  Every
vertex coordinate and every data value is a unique tag, so "the same coordinates" and
"the same values" identify the originating input and position.

Oracle clauses (each a sentence of the statement):

    merge-yields-object                     "Merging several ... yields one object"
    vertices-are-inputs-vertices-in-order   "whose vertices are the inputs' vertices in order"
    cells-connect-same-coordinates          "every cell connects the same coordinates as the
                                             corresponding input cell, also when an input
                                             contains vertices that none of its cells uses"
    data-one-per-name-type-association      "Data are concatenated per name, type and association"
    data-values-in-input-order              "... concatenated ... in input order"
    no-data-where-input-lacks               "with no-data values where an input lacks them"
    inputs-unchanged-live / -file           "and the inputs are left unchanged"

Where the statement is silent nothing is compared: order of the merged object's children,
in-memory dtypes, uids of the merged data types, the coordinates of drape ghost prisms,
attributes of the merged object other than geometry and data.
"""

from __future__ import annotations

import io
import itertools
import json

import numpy as np

from .. import core, observe, rawh5, world

INT_NDV = -2147483648  # docs/content/geoh5_format/analyst/data.rst: integer no-data value

FAMILY = {"Points": "points", "Curve": "cells", "Surface": "cells", "DrapeModel": "drape"}

# ---------------------------------------------------------------------------
# catalogues (ordered simplest first)
# ---------------------------------------------------------------------------
# Curve / Surface: name -> (n_vertices, cells | None, build variant)
CURVE = {
    "seg2": (2, [[0, 1]], "cells"),
    "chain4": (4, [[0, 1], [1, 2], [2, 3]], "cells"),
    "default3": (3, [[0, 1], [1, 2]], "default"),  # no cells given: library default chain
    "by_parts4": (4, [[0, 1], [2, 3]], "parts"),  # created through parts=[0,0,1,1]
    "two_parts4": (4, [[0, 1], [2, 3]], "cells"),
    "unordered4": (4, [[2, 3], [0, 1]], "cells"),
    "star4": (4, [[0, 1], [0, 2], [0, 3]], "cells"),
    "reversed3": (3, [[2, 1], [1, 0]], "cells"),  # largest index first
    "first_unused4": (4, [[1, 2], [2, 3]], "cells"),
    "last_unused4": (4, [[0, 1], [1, 2]], "cells"),
    "ends_unused4": (4, [[1, 2]], "cells"),
    "two_last_unused4": (4, [[0, 1]], "cells"),
}
SURFACE = {
    "tri3": (3, [[0, 1, 2]], "cells"),
    "two5": (5, [[0, 1, 2], [2, 3, 4]], "cells"),
    "unordered5": (5, [[2, 3, 4], [0, 1, 2]], "cells"),
    "max_first5": (5, [[4, 0, 1]], "cells"),  # vertices 2, 3 unused, largest index first
    "first_unused5": (5, [[1, 2, 3], [2, 3, 4]], "cells"),
    "last_unused5": (5, [[0, 1, 2], [1, 2, 3]], "cells"),
    "two_last_unused5": (5, [[0, 1, 2]], "cells"),
}
POINTS = {"p1": 1, "p3": 3, "p2": 2}
DRAPE = {"d22": [2, 2], "d123": [1, 2, 3], "d21": [2, 1], "d13": [1, 3]}  # layer count per prism

GEOMS = {
    "Points": list(POINTS),
    "Curve": list(CURVE),
    "Surface": list(SURFACE),
    "DrapeModel": list(DRAPE),
}
# reduced catalogues (lists of length three, re-merge)
GEOMS_SMALL = {
    "Points": ["p1", "p3"],
    "Curve": ["seg2", "chain4", "unordered4", "first_unused4", "last_unused4", "ends_unused4"],
    "Surface": ["tri3", "two5", "unordered5", "first_unused5", "last_unused5"],
    "DrapeModel": ["d22", "d123", "d21"],
}

# data items: code -> (name, type name, kind, association role)
#   role "v": VERTEX (CELL on a drape model, which has no vertices)
#   role "c": CELL   (VERTEX on points, which have no cells)
DATA = {
    "A": ("A", "A", "FLOAT", "v"),
    "B": ("B", "B", "INTEGER", "c"),
    "Ai": ("A", "A", "INTEGER", "v"),  # same name as A, integer type (auto-named after the data)
    "Ac": ("A", "A", "FLOAT", "c"),  # same name and type as A, other association
    "At": ("A", "A2", "FLOAT", "v"),  # same name as A, another float type
    "A'": ("A", "A", "FLOAT", "v"),  # second data of the same name and type on ONE input
}
DSETS_BASE = [[], ["A"], ["B"], ["A", "B"]]
DSETS_CLASH = [["Ai"]]
DSETS_MORE = [["Ac"], ["At"], ["A", "Ai"]]
DSETS_DUP = [["A", "A'"]]

GEOMS_TINY = {
    "Points": ["p1", "p3"],
    "Curve": ["seg2", "unordered4", "last_unused4"],
    "Surface": ["tri3", "unordered5", "last_unused5"],
    "DrapeModel": ["d22", "d123"],
}

MODES = ["live-same", "reopen-other", "live-other", "reopen-same"]


def assoc_of(cls, role):
    if cls == "DrapeModel":
        return "CELL"
    if cls == "Points":
        return "VERTEX"
    return "VERTEX" if role == "v" else "CELL"


def dsets_for(cls, sets):
    """Data sets that are distinct for this class (Ac == A where only one association exists)."""
    out = []
    for s in sets:
        if "Ac" in s and cls in ("Points", "DrapeModel"):
            continue
        out.append(s)
    return out


# ---------------------------------------------------------------------------
# input specification -> reference view (no library code involved)
# ---------------------------------------------------------------------------
def spec_geometry(cls, gname, k):
    """Geometry of the k-th input; every coordinate is unique over all inputs of a case."""
    if cls == "DrapeModel":
        counts = DRAPE[gname]
        prisms, layers = [], []
        first = 0
        for i, cnt in enumerate(counts):
            top = 0.5 * i + k
            prisms.append([float(i), 10.0 * (k + 1), top, float(first), float(cnt)])
            for j in range(cnt):
                layers.append([float(i), float(j), top - (j + 1) - 0.125 * i])
            first += cnt
        return {"prisms": np.array(prisms), "layers": np.array(layers), "variant": "drape"}
    if cls == "Points":
        n, cells, variant = POINTS[gname], None, "points"
    elif cls == "Curve":
        n, cells, variant = CURVE[gname]
    else:
        n, cells, variant = SURFACE[gname]
    verts = np.array([[float(i), 10.0 * (k + 1), 0.25 * i + k] for i in range(n)])
    return {
        "vertices": verts,
        "cells": None if cells is None else np.array(cells, dtype=np.int64),
        "variant": variant,
    }


def spec_view(cls, spec, k):
    geo = spec_geometry(cls, spec["g"], k)
    view = {"cls": cls}
    if cls == "DrapeModel":
        view["prisms"], view["layers"] = geo["prisms"], geo["layers"]
        n = {"VERTEX": None, "CELL": len(geo["layers"])}
    else:
        view["vertices"] = geo["vertices"]
        view["cells"] = geo["cells"]
        n = {"VERTEX": len(geo["vertices"]), "CELL": None if geo["cells"] is None else len(geo["cells"])}
    view["data"] = []
    for slot, code in enumerate(spec["d"]):
        name, tname, kind, role = DATA[code]
        assoc = assoc_of(cls, role)
        base = 1000 * (k + 1) + 100 * slot
        if kind == "FLOAT":
            vals = np.array([base + i + 0.5 for i in range(n[assoc])], dtype=np.float64)
        else:
            vals = np.array([base + i + 1 for i in range(n[assoc])], dtype=np.int32)
        view["data"].append({"name": name, "tname": tname, "kind": kind, "assoc": assoc, "values": vals})
    return view, geo


# ---------------------------------------------------------------------------
# building on the real library, observing
# ---------------------------------------------------------------------------
def _lib():
    from geoh5py.objects import Curve, DrapeModel, Points, Surface
    from geoh5py.shared.merging import CurveMerger, DrapeModelMerger, PointsMerger, SurfaceMerger

    return {
        "Points": (Points, PointsMerger),
        "Curve": (Curve, CurveMerger),
        "Surface": (Surface, SurfaceMerger),
        "DrapeModel": (DrapeModel, DrapeModelMerger),
    }


def build_input(ws, cls, spec, k, types):
    klass = _lib()[cls][0]
    view, geo = spec_view(cls, spec, k)
    name = f"in{k}"
    if cls == "DrapeModel":
        obj = klass.create(ws, name=name, layers=geo["layers"], prisms=geo["prisms"])
    elif geo["variant"] == "points" or geo["variant"] == "default":
        obj = klass.create(ws, name=name, vertices=geo["vertices"])
    elif geo["variant"] == "parts":
        obj = klass.create(ws, name=name, vertices=geo["vertices"], parts=[0, 0, 1, 1])
    else:
        obj = klass.create(ws, name=name, vertices=geo["vertices"], cells=geo["cells"].astype(np.uint32))
    for item in view["data"]:
        tkey = (item["tname"], item["kind"])
        attr = {"values": item["values"].copy(), "association": item["assoc"]}
        if tkey in types:
            attr["entity_type"] = types[tkey]  # one type object per (type name, kind) and workspace
        elif item["tname"] != item["name"]:
            attr["entity_type"] = {"name": item["tname"], "primitive_type": item["kind"]}
        data = obj.add_data({item["name"]: attr})
        types.setdefault(tkey, data.entity_type)
    return obj, view


def view_of(obj, cls):
    """Observed geometry and data of a live object, in the shape of spec_view."""
    from geoh5py.data import Data

    view = {"cls": cls}
    if cls == "DrapeModel":
        view["prisms"] = None if obj.prisms is None else np.array(obj.prisms, dtype=float)
        view["layers"] = None if obj.layers is None else np.array(obj.layers, dtype=float)
    else:
        view["vertices"] = None if obj.vertices is None else np.array(obj.vertices, dtype=float)
        cells = None if cls == "Points" else obj.cells
        view["cells"] = None if cells is None else np.array(cells, dtype=np.int64)
    view["data"] = []
    for child in obj.children:
        if not isinstance(child, Data):
            continue
        assoc = getattr(child.association, "name", None)
        if assoc not in ("VERTEX", "CELL"):
            continue
        vals = child.values
        view["data"].append(
            {
                "name": str(child.name),
                "tname": str(child.entity_type.name),
                "kind": child.entity_type.primitive_type.name,
                "assoc": assoc,
                "values": None if vals is None else np.array(vals),
            }
        )
    return view


def jview(view):
    """JSON-able, value-normalised form of a view (NaN -> None)."""
    out = {}
    for key, val in view.items():
        if key == "data":
            out[key] = sorted(
                ({**d, "values": observe.norm(d["values"])} for d in val),
                key=lambda d: (d["name"], d["tname"], d["kind"], d["assoc"], core.jdump(d["values"])),
            )
        else:
            out[key] = observe.norm(val)
    return out


# ---------------------------------------------------------------------------
# oracle
# ---------------------------------------------------------------------------
def _same(a, b):
    """Exact value equality of two numeric arrays (NaN equals NaN, shapes must agree)."""
    if a is None or b is None:
        return a is None and b is None
    a, b = np.asarray(a), np.asarray(b)
    if a.shape != b.shape:
        return False
    if a.dtype.kind not in "fiub" or b.dtype.kind not in "fiub":
        return a.tolist() == b.tolist()
    return bool(np.array_equal(a.astype(np.float64), b.astype(np.float64), equal_nan=True))


def _is_nodata(vals, kind):
    vals = np.asarray(vals)
    if vals.dtype.kind not in "fiub":
        return False
    if kind == "FLOAT":
        return bool(np.all(np.isnan(vals.astype(np.float64))))
    if kind == "INTEGER":
        return bool(np.all(vals.astype(np.float64) == INT_NDV))
    return False


def drape_cells(prisms, layers):
    """Every layer row resolved to the coordinates it connects: (easting, northing, top,
    bottom, K, 'its prism-index column names the prism that owns it').  None for a row no
    prism owns.  Independent of DrapeModel.centroids."""
    out = [None] * len(layers)
    for p, row in enumerate(np.asarray(prisms).tolist()):
        x, y, top, first, count = row
        first, count = int(first), int(count)
        for j in range(count):
            r = first + j
            if not 0 <= r < len(layers) or out[r] is not None:
                return None
            t = top if j == 0 else float(layers[r - 1][2])
            out[r] = [x, y, t, float(layers[r][2]), float(layers[r][1]), int(layers[r][0]) == p]
    return out


KNOWN_OFFSET = "a non-final input's last vertex is in no cell"


def cell_witness(views, merged_cells):
    """Witness of a failing cell clause.  The unchanged library is known (and fixed by its
    own test tests/merger_surface_test.py) to shift every input's cells by the running
    'largest index so far + 1' instead of the running vertex count.  Merged cells that are
    exactly that second reference get the recorded signature of that defect; anything else -
    cells that agree with neither the correct nor the known defective offset - gets another
    witness, so the recorded finding cannot hide a different cell defect."""
    ref, previous = [], 0
    for v in views:
        if v.get("cells") is None or not len(v["cells"]):
            return "cells differ from the vertex-count offset and from the known max-index offset"
        shifted = np.asarray(v["cells"], dtype=np.int64) + previous
        ref.append(shifted)
        previous = int(shifted.max()) + 1
    ref = np.vstack(ref)
    if merged_cells is not None and np.asarray(merged_cells).shape == ref.shape and np.array_equal(merged_cells, ref):
        return KNOWN_OFFSET
    return "cells differ from the vertex-count offset and from the known max-index offset"


CLASH = "one name carries a float type on one input and an integer type on another"


def name_kinds(views):
    kinds = {}
    for v in views:
        for d in v["data"]:
            kinds.setdefault((d["name"], d["assoc"]), set()).add((d["tname"], d["kind"]))
    return kinds


def clash_names(views):
    """Names that carry types of different primitive kinds within the input list."""
    return {na[0] for na, s in name_kinds(views).items() if len({k for _, k in s}) > 1}


def data_feature(views, names):
    """Stable description of how the given names are typed in the input list (part of the signature)."""
    if set(names) & clash_names(views):
        return CLASH
    if any(len(s) > 1 for na, s in name_kinds(views).items() if na[0] in names):
        return "one name carries two types of the same kind"
    return "one type per name"


def judge(cls, views, merged):
    """Compare the merged object's view with the list of input views.  Returns
    [(clause, witness, detail)]."""
    fam = FAMILY[cls]
    out = []

    # ---- geometry ---------------------------------------------------------
    if cls == "DrapeModel":
        lay_off = [0]
        for v in views:
            lay_off.append(lay_off[-1] + len(v["layers"]) + 2)  # two ghost cells between inputs
        got = None
        if merged["prisms"] is not None and merged["layers"] is not None:
            try:
                got = drape_cells(merged["prisms"], merged["layers"])
            except (ValueError, IndexError, TypeError):
                got = None
        bad = []
        if got is None:
            bad.append({"reason": "merged prisms do not partition the merged layers"})
        else:
            for k, v in enumerate(views):
                want = drape_cells(v["prisms"], v["layers"])
                for r, w in enumerate(want):
                    pos = lay_off[k] + r
                    g = got[pos] if pos < len(got) else None
                    if g != w:
                        bad.append({"input": k, "cell": r, "merged_cell": pos, "input_connects": w, "merged_connects": g})
        if bad:
            out.append(("cells-connect-same-coordinates", f"{fam}: prisms and layers", {"n_bad": len(bad), "first": bad[:3]}))
        n_axis = {"VERTEX": None, "CELL": None if merged["layers"] is None else len(merged["layers"])}
        slots = {"CELL": [(lay_off[k], len(v["layers"])) for k, v in enumerate(views)], "VERTEX": None}
        ghosts = [(lay_off[k + 1] - 2, 2) for k in range(len(views) - 1)]
    else:
        want_v = np.vstack([v["vertices"] for v in views])
        if not _same(merged["vertices"], want_v):
            out.append(
                (
                    "vertices-are-inputs-vertices-in-order",
                    f"{fam}: vertices",
                    {"expected": observe.norm(want_v), "merged": observe.norm(merged["vertices"])},
                )
            )
        v_off = np.cumsum([0] + [len(v["vertices"]) for v in views])
        slots = {"VERTEX": [(int(v_off[k]), len(v["vertices"])) for k, v in enumerate(views)], "CELL": None}
        n_axis = {"VERTEX": None if merged["vertices"] is None else len(merged["vertices"]), "CELL": None}
        ghosts = []
        if cls != "Points":
            c_off = np.cumsum([0] + [len(v["cells"]) for v in views])
            slots["CELL"] = [(int(c_off[k]), len(v["cells"])) for k, v in enumerate(views)]
            mc, mv = merged["cells"], merged["vertices"]
            n_axis["CELL"] = None if mc is None else len(mc)
            bad = []
            if mc is None or mv is None:
                bad.append({"reason": "merged object has no cells / vertices"})
            else:
                if len(mc) != int(c_off[-1]):
                    bad.append({"reason": "number of cells", "expected": int(c_off[-1]), "merged": len(mc)})
                for k, v in enumerate(views):
                    for j, cell in enumerate(v["cells"].tolist()):
                        pos = int(c_off[k]) + j
                        want = v["vertices"][cell].tolist()
                        if pos >= len(mc):
                            gotc, idx = None, None
                        else:
                            idx = mc[pos].tolist()
                            gotc = mv[idx].tolist() if all(0 <= i < len(mv) for i in idx) else "index out of range"
                        if gotc != want:
                            bad.append({"input": k, "cell": j, "merged_cell": pos, "merged_indices": idx,
                                        "input_connects": want, "merged_connects": gotc})
            if bad:
                out.append(
                    ("cells-connect-same-coordinates", f"{fam}: {cell_witness(views, mc)}", {"n_bad": len(bad), "first": bad[:3]})
                )

    # ---- data -------------------------------------------------------------
    def key_of(d):
        return (d["name"], d["tname"], d["kind"], d["assoc"])

    clashing = clash_names(views)
    per_input = [[key_of(d) for d in v["data"]] for v in views]
    duplicated = any(len(set(keys)) != len(keys) for keys in per_input)
    got_keys = [key_of(d) for d in merged["data"]]

    if duplicated:
        # two data of one name and type on ONE input: the statement does not say how they are
        # told apart; only "concatenated in input order" is read: every input data's values
        # sit at that input's positions of some merged data of its name, type and association.
        missing = sorted({key for keys in per_input for key in keys if key not in got_keys})
        lost_names = {k[0] for k in missing}
        if missing:
            out.append(
                (
                    "data-one-per-name-type-association",
                    data_feature(views, lost_names),
                    {"missing": [list(k) for k in missing], "merged": [list(k) for k in got_keys],
                     "merged_data": jview(merged)["data"]},
                )
            )
        for k, v in enumerate(views):
            for d in v["data"]:
                if d["name"] in lost_names:
                    continue
                sl = slots[d["assoc"]]
                start, n = sl[k]
                if not any(
                    key_of(m) == key_of(d) and m["values"] is not None and len(m["values"]) >= start + n
                    and _same(m["values"][start:start + n], d["values"])
                    for m in merged["data"]
                ):
                    if d["name"] in clashing:
                        # values of one type ended in the data of another type of that name
                        out.append(("data-one-per-name-type-association", CLASH,
                                    {"input": k, "data": list(key_of(d)), "values": observe.norm(d["values"]),
                                     "merged": jview(merged)["data"]}))
                        return out
                    out.append(
                        (
                            "data-values-in-input-order",
                            f"{fam}:{d['assoc']}: two data of one name and type on one input",
                            {"input": k, "data": list(key_of(d)), "values": observe.norm(d["values"]),
                             "merged": jview(merged)["data"]},
                        )
                    )
                    return out
        return out

    want_keys = []
    for keys in per_input:
        for key in keys:
            if key not in want_keys:
                want_keys.append(key)
    tainted = set()
    if sorted(got_keys) != sorted(want_keys):
        missing = [k for k in want_keys if k not in got_keys]
        extra = [k for k in got_keys if k not in want_keys]
        twice = sorted({k for k in got_keys if got_keys.count(k) > 1})
        tainted = {k[0] for k in missing + extra + twice}
        out.append(
            (
                "data-one-per-name-type-association",
                data_feature(views, tainted),
                {"expected": [list(k) for k in want_keys], "merged": [list(k) for k in got_keys],
                 "merged_data": jview(merged)["data"]},
            )
        )
    for key in want_keys:
        if key[0] in tainted or key not in got_keys:
            continue
        m = next(d for d in merged["data"] if key_of(d) == key)
        name, _, kind, assoc = key
        vals = m["values"]
        if vals is None or n_axis[assoc] is None or len(vals) != n_axis[assoc]:
            out.append(
                (
                    "data-values-in-input-order",
                    f"{fam}:{assoc}",
                    {"data": list(key), "reason": "length differs from the merged object's count",
                     "merged_values": observe.norm(vals), "count": n_axis[assoc]},
                )
            )
            continue
        bad_val, bad_nd = [], []
        for k, v in enumerate(views):
            start, n = slots[assoc][k]
            have = [d for d in v["data"] if key_of(d) == key]
            seg = vals[start:start + n]
            if have:
                if not _same(seg, have[0]["values"]):
                    bad_val.append({"input": k, "expected": observe.norm(have[0]["values"]), "merged": observe.norm(seg)})
            elif not _is_nodata(seg, kind) and n > 0:
                bad_nd.append({"input": k, "merged": observe.norm(seg)})
        for start, n in ghosts:
            seg = vals[start:start + n]
            if not _is_nodata(seg, kind):
                bad_nd.append({"ghost_cells_at": start, "merged": observe.norm(seg)})
        if (bad_val or bad_nd) and name in clashing:
            # values of one type ended in the data of another type of that name: not "per type"
            if not any(c == "data-one-per-name-type-association" and w == CLASH for c, w, _ in out):
                out.append(("data-one-per-name-type-association", CLASH,
                            {"data": list(key), "wrong_values": bad_val, "not_no_data": bad_nd,
                             "merged_data": jview(merged)["data"]}))
            continue
        if bad_val:
            out.append(("data-values-in-input-order", f"{fam}:{assoc}", {"data": list(key), "bad": bad_val,
                                                                         "merged_values": observe.norm(vals)}))
        if bad_nd:
            out.append(("no-data-where-input-lacks", f"{fam}:{assoc}", {"data": list(key), "bad": bad_nd,
                                                                       "merged_values": observe.norm(vals)}))
    return out


def judge_unchanged(cls, label, want_view, obj):
    """Input `label` after the merge against what it was (live, through the API)."""
    try:
        now = jview(view_of(obj, cls))
    except Exception as err:  # pylint: disable=broad-except
        return [("inputs-unchanged-live", f"{FAMILY[cls]}: input unreadable after the merge",
                 {"input": label, "error": f"{type(err).__name__}: {err}"})]
    was = jview(want_view)
    d = observe.diff(was, now)
    if d:
        part = d[0].split(":")[0].strip("/").split("/")[0].split("[")[0] or "view"
        return [("inputs-unchanged-live", f"{FAMILY[cls]}: {part}", {"input": label, "diff": d[:6]})]
    return []


def records_of(obj):
    from geoh5py.data import Data

    recs = {"self": observe.entity_record(obj)}
    for i, ch in enumerate(obj.children):
        if isinstance(ch, Data):
            recs[f"child{i}"] = observe.entity_record(ch)
    return recs


def file_bytes(ws, closed):
    if not closed:
        ws._geoh5.flush()  # pylint: disable=protected-access
    return ws.h5file.getvalue()


def judge_file(cls, label, before, after_bytes, whole):
    """Stored nodes that existed before the merge must be untouched by it.  In the output
    workspace only the child links of container groups may change (the new object is linked
    there); an input-only workspace must not change at all."""
    if isinstance(before, bytes):
        if before == after_bytes:
            return []  # byte-identical file
        before = rawh5.digests(before)
    diff = rawh5.diff_digests(before, rawh5.digests(after_bytes))
    bad = {}
    for key, comp in diff.items():
        if key not in before and not whole:
            continue  # created by the merge
        if not whole and key[:2] == ("node", "Groups") and set(comp) <= {"links"}:
            continue
        bad[" ".join(str(x) for x in key)] = sorted(comp)
    if bad:
        kinds = sorted({k.split(" ")[0] + ":" + k.split(" ")[1] for k in bad})
        return [("inputs-unchanged-file", f"{FAMILY[cls]}: {kinds[0]}", {"snapshot": label, "changed": bad})]
    return []


# ---------------------------------------------------------------------------
# one case
# ---------------------------------------------------------------------------
def execute(case):
    """Run one case on the real library.  Returns {'viol': [...], 'outcome': digest, 'merges': n}."""
    from geoh5py.workspace import Workspace

    world.reset(case.get("uid", "asc"))
    cls = case["cls"]
    merger = _lib()[cls][1]
    mode = case["mode"]
    same = mode.endswith("same")
    reopen = mode.startswith("reopen")
    viol = []
    merges = 0
    outcome = []

    specs = list(case["inputs"])
    extra = case.get("remerge")
    ws_in = Workspace()
    types = {}
    objs, views = [], []
    for k, spec in enumerate(specs + ([extra] if extra else [])):
        o, v = build_input(ws_in, cls, spec, k, types)
        objs.append(o)
        views.append(v)
    n_all = len(objs)

    # harness self-check: what was built is what was specified (otherwise the reference is void)
    for k in range(n_all):
        d = observe.diff(jview(views[k]), jview(view_of(objs[k], cls)))
        if d:
            raise core.HarnessError(f"C16: input {k} of {case} was not built as specified: {d[:4]}")

    snapshots = []  # (label, workspace, digests before, whole-file?)
    recs_before = None
    if reopen:
        ws_in.close()
        b0 = ws_in.h5file.getvalue()
        ws_in = Workspace(io.BytesIO(b0), mode="r+" if same else "r")
        objs = [ws_in.get_entity(f"in{k}")[0] for k in range(n_all)]
        if any(o is None for o in objs):
            raise core.HarnessError(f"C16: inputs not found after re-open in {case}")
    else:
        b0 = file_bytes(ws_in, False)
        recs_before = [records_of(o) for o in objs]
    snapshots.append(("inputs before the merge", ws_in, rawh5.digests(b0) if same else bytes(b0), not same))
    ws_out = ws_in if same else Workspace()

    first = list(range(len(specs)))
    merged = None
    try:
        merged = merger.merge_objects(ws_out, [objs[k] for k in first], name="merged")
        merges += 1
    except Exception as err:  # pylint: disable=broad-except
        merges += 1
        viol.append(("merge-yields-object", f"{FAMILY[cls]}: {type(err).__name__}",
                     {"error": f"{type(err).__name__}: {err}"}))
    to_reopen = []
    if merged is not None:
        try:
            mview = view_of(merged, cls)
        except Exception as err:  # pylint: disable=broad-except
            mview = None
            viol.append(("merge-yields-object", f"{FAMILY[cls]}: merged object unreadable ({type(err).__name__})",
                         {"error": f"{type(err).__name__}: {err}"}))
        if mview is not None:
            viol += judge(cls, [views[k] for k in first], mview)
            outcome.append(jview(mview))
            to_reopen.append(("merged", [views[k] for k in first]))
        for k in first:
            viol += judge_unchanged(cls, f"in{k}", views[k], objs[k])

        # ---- depth 2: the result merged again with a further input -------------
        if extra and mview is not None:
            snapshots.append(("output workspace before the second merge", ws_out,
                              rawh5.digests(file_bytes(ws_out, False)), False))
            k3 = n_all - 1
            pair = [(merged, mview, "merged"), (objs[k3], views[k3], f"in{k3}")]
            if extra.get("pos", 1) == 0:
                pair.reverse()
            merged2 = None
            try:
                merged2 = merger.merge_objects(ws_out, [p[0] for p in pair], name="merged2")
            except Exception as err:  # pylint: disable=broad-except
                viol.append(("merge-yields-object", f"{FAMILY[cls]}: {type(err).__name__}",
                             {"error": f"{type(err).__name__}: {err}", "step": "second merge"}))
            merges += 1
            if merged2 is not None:
                try:
                    m2view = view_of(merged2, cls)
                except Exception as err:  # pylint: disable=broad-except
                    m2view = None
                    viol.append(("merge-yields-object", f"{FAMILY[cls]}: merged object unreadable ({type(err).__name__})",
                                 {"error": f"{type(err).__name__}: {err}", "step": "second merge"}))
                if m2view is not None:
                    viol += [(c, w, {"step": "second merge", **d})
                             for c, w, d in judge(cls, [p[1] for p in pair], m2view)]
                    outcome.append(jview(m2view))
                    to_reopen.append(("merged2", [p[1] for p in pair]))
                for o, v, lab in pair:
                    viol += judge_unchanged(cls, lab, v, o)

    if recs_before is not None and merged is not None:
        flagged = {json.loads(d)["input"] if isinstance(d, str) else d["input"]
                   for c, _, d in viol if c == "inputs-unchanged-live"}
        for k, o in enumerate(objs):
            d = observe.diff(recs_before[k], records_of(o))
            if d and f"in{k}" not in flagged:  # one signature per changed input component
                part = d[0].split(":")[0].strip("/").split("/")[-1].split("[")[0]
                viol.append(("inputs-unchanged-live", f"{FAMILY[cls]}: attribute {part}", {"input": f"in{k}", "diff": d[:6]}))

    # ---- close, file-level comparison, re-open of the result --------------------
    ws_in.close()
    if ws_out is not ws_in:
        ws_out.close()
    if merged is not None:
        for label, ws, before, whole in snapshots:
            viol += judge_file(cls, label, before, ws.h5file.getvalue(), whole)
        failing = {c for c, _, _ in viol}
        ws_r = Workspace(io.BytesIO(ws_out.h5file.getvalue()), mode="r")
        for name, vws in to_reopen:
            found = [e for e in ws_r.get_entity(name) if e is not None]
            if len(found) != 1:
                viol.append(("merge-yields-object", f"{FAMILY[cls]}: not one object after re-open",
                             {"name": name, "found": len(found)}))
                continue
            try:
                rview = view_of(found[0], cls)
            except Exception as err:  # pylint: disable=broad-except
                viol.append(("merge-yields-object", f"{FAMILY[cls]}: merged object unreadable after re-open",
                             {"name": name, "error": f"{type(err).__name__}: {err}"}))
                continue
            for c, w, d in judge(cls, vws, rview):
                if c not in failing:  # only what the live object did not already show
                    viol.append((c, w + " @re-opened file", {"object": name, **d}))
        ws_r.close()

    return {"viol": [(c, w, core.jdump(d)) for c, w, d in viol], "outcome": core.digest(outcome), "merges": merges}


def replay(history):
    import json

    return [(c, w, json.loads(d)) for c, w, d in execute(history)["viol"]]


# ---------------------------------------------------------------------------
# enumeration
# ---------------------------------------------------------------------------
def _blocks(quick):
    """Enumeration plan: ('pairs' | 'triples' | 'remerge', catalogue, data sets, [third sets], modes, uid orders)."""
    base, clash = DSETS_BASE, DSETS_CLASH
    if quick:
        return [
            ("pairs", "full", [[], ["A", "B"]], None, ["live-same"], ["asc"]),
            ("pairs", "small", base + clash + [["Ac"]], None, ["live-same"], ["asc"]),
            ("pairs", "small", [[], ["A"], ["A", "B"]], None, ["reopen-other"], ["asc"]),
            ("triples", "tiny", [[], ["A", "B"]], None, ["live-same"], ["asc"]),
            ("remerge", "tiny", [[], ["A", "B"]], [["A", "B"]], ["live-same"], ["asc"]),
        ]
    return [
        ("pairs", "full", base + clash, None, ["live-same", "reopen-other"], ["asc"]),
        ("pairs", "small", base + clash + DSETS_MORE + DSETS_DUP, None, ["live-same", "reopen-other"], ["asc"]),
        ("pairs", "small", base + clash, None, ["live-other", "reopen-same"], ["asc"]),
        ("pairs", "small", base + clash, None, ["reopen-other", "reopen-same"], ["desc"]),
        ("triples", "small", [[], ["A"], ["A", "B"]], None, ["live-same"], ["asc"]),
        ("triples", "small", [[], ["A", "B"], ["Ai"]], None, ["reopen-other"], ["asc"]),
        ("remerge", "small", [[], ["A", "B"]], [[], ["A", "B"], ["Ai"]], ["live-same", "reopen-other"], ["asc"]),
    ]


def enumerate_cases(quick):
    cases = []
    seen = set()
    plan = []
    catalogues = {"full": GEOMS, "small": GEOMS_SMALL, "tiny": GEOMS_TINY}
    for kind, cat, sets, sets3, modes, uids in _blocks(quick):
        n0 = len(cases)
        for cls in GEOMS:
            geoms = catalogues[cat][cls]
            ds = dsets_for(cls, sets)
            n_in = 2 if kind in ("pairs", "remerge") else 3
            for mode in modes:
                for uid in uids:
                    for gs in itertools.product(geoms, repeat=n_in):
                        for dd in itertools.product(ds, repeat=n_in):
                            thirds = [None]
                            if kind == "remerge":
                                thirds = [{"g": g3, "d": list(d3), "pos": pos}
                                          for g3 in geoms for d3 in dsets_for(cls, sets3) for pos in (1, 0)]
                            for third in thirds:
                                case = {
                                    "cls": cls,
                                    "inputs": [{"g": g, "d": list(d)} for g, d in zip(gs, dd)],
                                    "mode": mode,
                                    "uid": uid,
                                }
                                if third:
                                    case["remerge"] = third
                                key = core.jdump(case)
                                if key not in seen:  # blocks overlap; each configuration runs once
                                    seen.add(key)
                                    cases.append(case)
        plan.append({"kind": kind, "catalogue": cat, "data_sets_per_input": sets, "data_sets_third_input": sets3,
                     "modes": modes, "uid_orders": uids, "new_cases": len(cases) - n0})
    return cases, plan


def run_case(case):
    return execute(case)


def run(ctx):
    import json

    cases, plan = enumerate_cases(ctx.quick)
    results = core.pmap(run_case, cases)
    merges = 0
    configs = set()
    per_class = {}
    for case, res in zip(cases, results):
        merges += res["merges"]
        configs.add(core.digest(case))
        ctx.outcomes.add(res["outcome"])
        per_class[case["cls"]] = per_class.get(case["cls"], 0) + 1
        if res["viol"]:
            ctx.add_violations(case, [(c, w, json.loads(d)) for c, w, d in res["viol"]])
    for i in (0, len(cases) // 3, (2 * len(cases)) // 3, len(cases) - 1):
        ctx.sample(cases[i])

    # determinism self-test: a few cases executed again in this process must agree
    probe = [cases[0], cases[len(cases) // 2], cases[-1]]
    for c in probe:
        a, b = execute(c), execute(c)
        if core.jdump(a) != core.jdump(b):
            raise core.HarnessError(f"C16: execution of {c} is not deterministic")
        idx = cases.index(c)
        if core.jdump(a) != core.jdump(results[idx]):
            raise core.HarnessError(f"C16: forked and in-process execution disagree on {c}")

    ctx.cover(
        states=len(configs),
        transitions=merges,
        traces_validated_against_impl=merges,
        distinct_outcomes=len(ctx.outcomes),
        cases_per_class=per_class,
        exhaustive=True,
        determinism_replays=len(probe),
        alphabet={
            "classes": list(GEOMS),
            "geometries": {"Points": POINTS, "Curve": {k: v[1] for k, v in CURVE.items()},
                           "Surface": {k: v[1] for k, v in SURFACE.items()}, "DrapeModel(layers per prism)": DRAPE},
            "catalogue_small": GEOMS_SMALL,
            "catalogue_tiny": GEOMS_TINY,
            "data_items": {k: list(v) for k, v in DATA.items()},
            "modes": MODES,
            "plan": plan,
        },
        bound="every ordered list of 2 inputs from the full catalogue and of 3 inputs from the reduced catalogue, "
              "times every assignment of the listed data sets to the inputs, times the listed environments "
              "(inputs live / re-opened, output in the inputs' workspace / another one, uid order); "
              "depth 2 = the result merged again with a third input in both positions",
    )
    ctx.assumptions += [
        "lattice argument: the mergers branch only on per-input counts (n_vertices, n_cells, layer counts), on the "
        "largest index used by an input's cells and on which (name, type name, association) labels each input carries; "
        "catalogue shapes realise largest-index = / < last vertex (by 1 and by 2), first vertex unused, unordered and "
        "reversed cells, unequal counts between inputs; coordinates and values are unique tags",
        "numeric data only (float, integer): BaseMerger.merge_data skips every child that is not NumericData "
        "(text, comments, visual parameters are not carried over) - not judged here",
        "drape models have at least two prisms (ghost prisms are extrapolated from the two outermost prisms; a "
        "single-prism input is refused by an IndexError) and two ghost cells separate consecutive inputs",
        "two data of the same name and type on ONE input: only 'every input value is found at its input's positions' is "
        "judged (the statement does not say how such data are told apart)",
        "identity of a data type = (type name, primitive type); uids of the merged object's types are not compared",
        "bounded: nothing is claimed for larger objects, longer lists than three, or other data kinds",
    ]
