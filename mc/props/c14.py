"""C14 - ui.json files round-trip.

Exhaustive product enumeration (inputs / configurations, DESIGN.md §4 C14): every template
form x its value lattice x member combinations {optional, enabled, group, groupOptional,
dependency, dependencyType} x entry point {value inside the ui.json, set_data_value, data
setter}, written and re-read twice by the real InputFile.  Oracle clauses (literal readings
of the statement):

  values-roundtrip         InputFile.data after read_ui_json == InputFile.data before
                           write_ui_json (entities by class+uid of the re-opened workspace,
                           workspaces by file path, None for disabled parameters)
  enabled-roundtrip        the `enabled` member of every form after reading == before writing
  roundtrip-completes      an InputFile the library accepted can be written and read back
  json-text-standard       the text on disk is plain JSON (no NaN / Infinity tokens)
  set-value-kept           a value accepted by set_data_value / the data setter is the value
                           InputFile.data holds (the parameter value that is to be written)
  promote-same-entity      promote() turns an identifier into the entity with that uid of
                           the given workspace
  promote-demote-identity  demote(promote(ids)) == ids
  (prefix "second-cycle")  the same for the re-read file written and read once more

See mc/c14_lib.py for the case format and the runner.
"""

from __future__ import annotations

from .. import core
from ..c14_lib import mtag, run_any, vtag

INF = {"f": "inf"}
NINF = {"f": "-inf"}
UNKNOWN = "00000000-0000-0000-0000-000000000005"

FLOATS = [1.0, 0.0, -1.5, 1e308, 5e-324, INF, NINF]
INTS = [1, 0, -1, 2**31, 2**63 - 1]
STRINGS = [
    "data",
    "a",
    "é",
    "",
    "inf",
    "-inf",
    "nan",
    "None",
    "1,2",
    "[in-memory]",
    {"hs": "P"},
    UNKNOWN,
    {"p": "other.geoh5"},
    {"p": "missing.geoh5"},
]
PARENT = {"name": "object", "t": "object_parameter", "kw": {"value": {"h": "P"}}}

NO_OPT_KW = {"bool_parameter"}


def V(t, kw=None, m=None, parent=False, fx="small", alts=(), lvl=0, solo=False):
    """A form variant. alts: values for set_data_value / data-setter entries. lvl: 0 quick,
    1 thorough. solo: only in single-form files (F1)."""
    return {"t": t, "kw": kw or {}, "m": m or {}, "parent": parent, "fx": fx, "alts": list(alts), "lvl": lvl, "solo": solo}


def variants():
    out = []
    # -- scalar forms --------------------------------------------------------------
    for i, v in enumerate([False, True]):
        out.append(V("bool_parameter", {"value": v}, alts=[True, False] if i == 0 else []))
    for i, v in enumerate(INTS):
        out.append(V("integer_parameter", {"value": v}, alts=INTS if i == 0 else []))
    out.append(V("integer_parameter", {"value": 3, "vmin": -(2**31), "vmax": 2**31 - 1}, lvl=1))
    for i, v in enumerate(FLOATS):
        out.append(V("float_parameter", {"value": v}, alts=FLOATS if i == 0 else []))
    out.append(V("float_parameter", {"value": 2.0, "vmin": NINF, "vmax": INF}))
    for i, v in enumerate(STRINGS):
        out.append(V("string_parameter", {"value": v}, alts=STRINGS if i == 0 else []))
    # -- choices ------------------------------------------------------------------------
    out.append(V("choice_string_parameter", {"value": "Option A"}, alts=["Option B", "Option A", "Option C"]))
    out.append(V("choice_string_parameter", {"value": "Option B"}))
    multi = [["Option A"], ["Option B"], ["Option A", "Option B"], []]
    for i, v in enumerate(multi):
        out.append(V("choice_string_parameter", {"value": v, "multi_select": True}, alts=multi + ["Option B"] if i == 0 else []))
    out.append(V("choice_string_parameter", {"value": "inf", "choice_list": {"t": ["inf", "x.geoh5", ""]}}, lvl=1, solo=True))
    # -- files ----------------------------------------------------------------------------
    files = [{"p": "data.txt"}, "", {"pp": ["data.txt", "more.txt"]}, {"p": "other.geoh5"}, {"p": "missing.geoh5"}]
    for i, v in enumerate(files):
        out.append(V("file_parameter", {"value": v, "file_type": {"t": ["txt", "geoh5"]}}, alts=files if i == 0 else []))
    # -- objects ------------------------------------------------------------------------
    objs = [{"h": "P"}, {"hs": "P"}, {"hb": "P"}, {"he": "P"}, None, "", {"u": 5}]
    for i, v in enumerate(objs):
        out.append(V("object_parameter", {"value": v}, alts=[{"h": "Q"}, {"he": "Q"}, {"hs": "Q"}, {"u": 5}] if i == 0 else []))
    mobj = [[{"h": "P"}, {"h": "Q"}], [{"h": "P"}], [], {"h": "P"}, [{"he": "P"}, {"hs": "Q"}]]
    for i, v in enumerate(mobj):
        out.append(V("object_parameter", {"value": v, "multi_select": True}, alts=mobj if i == 0 else []))
    # -- groups ---------------------------------------------------------------------------
    grps = [{"h": "G"}, {"hs": "G"}, {"he": "G"}, None]
    for i, v in enumerate(grps):
        out.append(V("group_parameter", {"value": v}, alts=grps if i == 0 else []))
    out.append(V("group_parameter", {"value": {"h": "DHG"}}, fx="full", alts=[{"he": "DHG"}]))
    # -- data (child of the object form) --------------------------------------------------
    datas = [{"h": "a"}, {"hs": "a"}, {"he": "a"}, "", {"h": "c"}]
    for i, v in enumerate(datas):
        out.append(V("data_parameter", {"value": v, "parent": "object"}, parent=True, alts=[{"h": "b"}, {"he": "b"}, {"h": "c"}] if i == 0 else []))
    for i, v in enumerate([{"h": "pg"}, {"he": "pg"}, {"hs": "pg"}]):
        out.append(V("data_parameter", {"value": v, "parent": "object", "data_group_type": "Multi-element"}, parent=True, alts=[{"he": "pg"}, {"h": "pg"}] if i == 0 else []))
    out.append(V("data_parameter", {"value": [{"h": "a"}, {"h": "b"}], "parent": "object"}, m={"multiSelect": True}, parent=True, alts=[[{"h": "b"}], [{"he": "a"}, {"he": "b"}]]))
    # -- data or value -----------------------------------------------------------------------
    dv_alts = [0.0, 2.5, INF, NINF, {"h": "a"}, {"he": "a"}, {"h": "b"}, {"h": "c"}, 3]
    for i, v in enumerate([0.0, 2.5, INF, NINF]):
        out.append(V("data_value_parameter", {"value": v, "parent": "object"}, parent=True, alts=dv_alts if i == 0 else []))
    for i, v in enumerate([{"h": "a"}, {"hs": "a"}, {"he": "a"}, None]):
        out.append(V("data_value_parameter", {"value": 2.5, "parent": "object", "is_value": False, "prop": v}, parent=True, alts=dv_alts if i == 0 else []))
    # -- drillhole-group data --------------------------------------------------------------
    dhv = [["assay"], [], None, ["assay", "inf"]]
    for i, v in enumerate(dhv):
        out.append(V("drillhole_group_data", {"value": v, "group_value": {"h": "DHG"}}, fx="full", alts=dhv if i == 0 else []))
    out.append(V("drillhole_group_data", {"value": ["assay"], "group_value": None}, fx="full"))
    # -- range ----------------------------------------------------------------------------------
    rng = [[0.2, 0.8], [NINF, INF], [0, 1], None, []]
    for i, v in enumerate(rng):
        out.append(V("range_label_template", {"value": v, "parent": "object", "property_": {"h": "a"}}, parent=True, alts=rng if i == 0 else []))
    out.append(V("range_label_template", {"value": [0.2, 0.8], "parent": "object", "property_": {"hs": "a"}, "is_complement": True, "allow_complement": True}, parent=True, lvl=1))
    return out


def spec_of(var, name, opt=None, extra=None):
    """Form spec of a variant with an optional state and extra members."""
    kw = dict(var["kw"])
    m = dict(var["m"])
    if opt is not None:
        if var["t"] in NO_OPT_KW:
            m.update({"optional": True, "enabled": opt == "enabled"})
        else:
            kw["optional"] = opt
    if extra:
        m.update(extra)
    return {"name": name, "t": var["t"], "kw": kw, "m": m}


CONFIGS = [  # (validate, validation_options tag); the first one is the default of every other family
    (True, None),
    (True, "ignore"),
    (True, "ue-true"),
    (True, "ue-false"),
    (False, None),
    (False, "ignore"),
    (False, "ue-true"),
    (False, "ue-false"),
]


def mk_case(var_specs, fx="small", geoh5="ws", parent=False, pre=None, mid=None, base=None, c2=True, cfg=None):
    forms = ([dict(PARENT)] if parent else []) + var_specs
    case = {"fx": fx, "geoh5": geoh5, "forms": forms}
    if cfg is not None and cfg != CONFIGS[0]:
        case["cfg"] = {"validate": cfg[0], "vo": cfg[1]}
    if not c2:
        case["c2"] = False  # stop after the first write/read cycle
    if pre:
        case["pre"] = pre
    if mid:
        case["mid"] = mid
    if base:
        case["base"] = base
    return case


OPTS = [None, "enabled", "disabled"]


def group_combos(opt):
    yield None
    yield {"group": "G1"}
    if opt is None:
        yield {"group": "G1", "groupOptional": True}
        yield {"group": "G1", "groupOptional": True, "enabled": True}
        yield {"group": "G1", "groupOptional": True, "enabled": False}
    else:
        yield {"group": "G1", "groupOptional": True}
    yield {"group": "G1", "groupOptional": False}


def first_of_template(vs):
    seen = {}
    for v in vs:
        seen.setdefault(v["t"] + ("/multi" if v["kw"].get("multi_select") else "") + ("/prop" if v["kw"].get("is_value") is False else "") + ("/pg" if "data_group_type" in v["kw"] else "") + ("/ms" if "multiSelect" in v["m"] else ""), v)
    return list(seen.values())


def enumerate_cases(quick: bool):
    vs = [v for v in variants() if not (quick and v["lvl"] > 0)]
    cases = []
    # F0: base ui.json only, the three ways of handing the workspace over
    for g in ("ws", "str", "path"):
        cases.append(mk_case([], geoh5=g))
    cases.append(mk_case([], base={"monitoring_directory": {"p": "."}, "title": "inf", "conda_environment": "env", "workspace": {"p": "other.geoh5"}}))
    cases.append(mk_case([], base={"nopath": True}))
    # F0b: the non-form parameters of default_ui_json through set_data_value / the data setter
    base_ops = [
        ("title", ["new title", "inf", "", {"hs": "P"}, {"p": "other.geoh5"}]),
        ("run_command", ["pkg.module", None, "inf"]),
        ("conda_environment", ["env", None]),
        ("conda_environment_boolean", [True, False]),
        ("run_command_boolean", [True, False]),
        ("monitoring_directory", [{"p": "."}, None, "inf"]),
        ("workspace", [{"p": "other.geoh5"}, None]),
        ("geoh5", [{"p": "other.geoh5"}]),
    ]
    for key, vals in base_ops:
        for val in vals:
            for op in ("set", "data"):
                cases.append(mk_case([], pre=[[op, key, val]]))
    # F1: single form x optional x group members, value inside the ui.json
    for var in vs:
        for opt in OPTS:
            for grp in group_combos(opt):
                mains = [None] if quick else [None, False]
                for main in mains:
                    extra = dict(grp or {})
                    spec = spec_of(var, "x", opt, extra)
                    if main is not None:
                        spec["kw"]["main"] = main
                    cases.append(mk_case([spec], fx=var["fx"], parent=var["parent"], c2=not quick or grp is None))
    # F1b: geoh5 handed over as a path string (numify opens it) for every variant, plain members
    for var in vs:
        for opt in OPTS if not quick else [None]:
            cases.append(mk_case([spec_of(var, "x", opt)], fx=var["fx"], parent=var["parent"], geoh5="str"))
    # F2: entry through set_data_value / the data setter, before the first write
    for var in vs:
        if not var["alts"]:
            continue
        for opt in OPTS:
            for grp in (None, {"group": "G1", "groupOptional": True}):
                if grp and quick and opt is None:
                    continue
                for op in ("set", "data"):
                    for alt in var["alts"] + [None]:
                        cases.append(mk_case([spec_of(var, "x", opt, grp)], fx=var["fx"], parent=var["parent"], pre=[[op, "x", alt]], c2=not quick))
    # F3: ops on the re-read file (None -> value -> None across the two cycles)
    for var in first_of_template(vs):
        for opt in OPTS:
            alts = (var["alts"][:2] if quick else var["alts"]) + [None]
            for alt in alts:
                cases.append(mk_case([spec_of(var, "x", opt)], fx=var["fx"], parent=var["parent"], mid=[["set", "x", alt]]))
                if opt is not None:
                    cases.append(mk_case([spec_of(var, "x", opt)], fx=var["fx"], parent=var["parent"], pre=[["set", "x", None]], mid=[["set", "x", alt]]))
    # F7: configurations of the public API: validate x validation_options, every form kind,
    # value in the ui.json and both setter entry points, incl. a value given to a disabled
    # optional parameter and None given to an enabled one
    for cfg in CONFIGS[1:]:
        for var in first_of_template(vs):
            alts = var["alts"][:1] if quick else var["alts"][:3]
            for opt in OPTS:
                if not quick or (cfg[1] is None):
                    cases.append(mk_case([spec_of(var, "x", opt)], fx=var["fx"], parent=var["parent"], cfg=cfg, c2=not quick))
                for op in ("set", "data"):
                    for alt in alts + ([None] if opt != "disabled" or not quick else []):
                        cases.append(mk_case([spec_of(var, "x", opt)], fx=var["fx"], parent=var["parent"], pre=[[op, "x", alt]], cfg=cfg, c2=not quick))
                if not quick:
                    for alt in alts[:1] + [None]:
                        cases.append(mk_case([spec_of(var, "x", opt)], fx=var["fx"], parent=var["parent"], mid=[["set", "x", alt]], cfg=cfg))
    # F4: dependencies: driver (bool / optional float) x dependencyType x dependent form
    drivers = [
        {"name": "drv", "t": "bool_parameter", "kw": {"value": False}, "m": {}},
        {"name": "drv", "t": "bool_parameter", "kw": {"value": True}, "m": {}},
        {"name": "drv", "t": "float_parameter", "kw": {"value": 1.0, "optional": "enabled"}, "m": {}},
        {"name": "drv", "t": "float_parameter", "kw": {"value": 1.0, "optional": "disabled"}, "m": {}},
    ]
    dep_targets = first_of_template(vs) if quick else [v for v in vs if not v["solo"]]
    if True:  # both tiers
        # F4q: parameters holding no value (None / "" / no property) that an unmet dependency makes
        # acceptable, and None given to a parameter without an `enabled` member
        nones = [v for v in vs if not v["solo"] and (v["kw"].get("value", 0) in (None, "") or ("prop" in v["kw"] and v["kw"]["prop"] is None))]
        drv = {"name": "drv", "t": "bool_parameter", "kw": {"value": False}, "m": {}}
        for var in nones:
            for opt in OPTS:
                spec = spec_of(var, "x", opt, {"dependency": "drv", "dependencyType": "enabled"})
                cases.append(mk_case([dict(drv), spec], fx=var["fx"], parent=var["parent"], c2=False))
        for var in first_of_template(vs):
            spec = spec_of(var, "x", None, {"dependency": "drv", "dependencyType": "enabled"})
            for op in ("set", "data"):
                cases.append(mk_case([dict(drv), spec], fx=var["fx"], parent=var["parent"], pre=[[op, "x", None]], c2=False))
    for var in dep_targets:
        for drv in drivers:
            for dtype in ("enabled", "disabled", None):
                for opt in OPTS:
                    ens = [None] if opt is not None else [None, True, False]
                    for en in ens:
                        extra = {"dependency": "drv"}
                        if dtype:
                            extra["dependencyType"] = dtype
                        if en is not None:
                            extra["enabled"] = en
                        spec = spec_of(var, "x", opt, extra)
                        orders = ([dict(drv), spec], [spec, dict(drv)])
                        for forms in orders if (not quick or dtype == "enabled") else orders[:1]:
                            cases.append(mk_case(list(forms), fx=var["fx"], parent=var["parent"], c2=not quick))
                        if en is None and dtype is not None and not quick:
                            for alt in var["alts"][:1] + [None]:
                                cases.append(mk_case([dict(drv), spec], fx=var["fx"], parent=var["parent"], pre=[["set", "x", alt]]))
    # F5: groups with a leader: leader form (groupOptional) + member form in the same group
    leaders = [
        {"name": "lead", "t": "bool_parameter", "kw": {"value": True}, "m": {"group": "G1", "groupOptional": True, "enabled": True}},
        {"name": "lead", "t": "bool_parameter", "kw": {"value": True}, "m": {"group": "G1", "groupOptional": True, "enabled": False}},
        {"name": "lead", "t": "float_parameter", "kw": {"value": 1.0, "optional": "enabled"}, "m": {"group": "G1", "groupOptional": True}},
        {"name": "lead", "t": "float_parameter", "kw": {"value": 1.0, "optional": "disabled"}, "m": {"group": "G1", "groupOptional": True}},
        {"name": "lead", "t": "bool_parameter", "kw": {"value": True}, "m": {"group": "G1", "groupOptional": True}},
    ]
    for var in dep_targets:
        for lead in leaders:
            for opt in OPTS:
                for en in ([None] if opt is not None else [None, True, False]):
                    extra = {"group": "G1"}
                    if en is not None:
                        extra["enabled"] = en
                    spec = spec_of(var, "x", opt, extra)
                    for forms in ([dict(lead), spec], [spec, dict(lead)]):
                        cases.append(mk_case(list(forms), fx=var["fx"], parent=var["parent"], c2=not quick))
                    if var["alts"] and (not quick or (lead in leaders[:2] and en is None)):
                        for alt in var["alts"][:1] + [None]:
                            cases.append(mk_case([dict(lead), spec], fx=var["fx"], parent=var["parent"], pre=[["set", "x", alt]], c2=not quick))
                            cases.append(mk_case([dict(lead), spec], fx=var["fx"], parent=var["parent"], pre=[["set", "lead", None]], c2=not quick))
    # F6 (thorough): every ordered pair of forms, independent, each optional state
    if not quick:
        pv = []
        reps = first_of_template(vs)
        for var in [v for v in vs if not v["solo"]]:  # every variant; all optional states for one representative per template / mode
            for opt in OPTS if any(var is r for r in reps) else [None]:
                pv.append((var, opt))
        for va, oa in pv:
            for vb, ob in pv:
                if va["parent"] and vb["parent"]:
                    par = True
                else:
                    par = va["parent"] or vb["parent"]
                fx = "full" if "full" in (va["fx"], vb["fx"]) else "small"
                cases.append(mk_case([spec_of(va, "x", oa), spec_of(vb, "y", ob)], fx=fx, parent=par, c2=False))
    # promote / demote families
    small = ["P", "Q", "a", "b", "c", "G", "pg"]
    full = small + ["DHG", "dh"]
    for fx, hs in (("small", small), ("full", full)):
        for h in hs:
            for shape in ("scalar", "list", "nested", "nested-list"):
                cases.append({"pd": shape, "ids": [h], "fx": fx})
                cases.append({"pd": shape, "ids": [h], "fx": fx, "validate": False})
        for h1 in hs:
            for h2 in hs:
                if h1 != h2 and (fx == "small" or "DHG" in (h1, h2) or "dh" in (h1, h2)):
                    for shape in ("scalar", "list") if quick else ("scalar", "list", "nested", "nested-list"):
                        cases.append({"pd": shape, "ids": [h1, h2], "fx": fx})
    # de-duplicate (same case can arise from two families)
    seen = set()
    out = []
    for c in cases:
        k = core.jdump(c)
        if k not in seen:
            seen.add(k)
            out.append(c)
    return out


def _complexity(case):
    if "pd" in case:
        return (0, len(case["ids"]))
    n = len(case["forms"])
    members = sum(len(f.get("m", {})) + (1 if f.get("kw", {}).get("optional") else 0) for f in case["forms"])
    return (n, len(case.get("pre", [])) + len(case.get("mid", [])), members, case.get("geoh5") != "ws")


def run(ctx):
    cases = enumerate_cases(ctx.quick)
    cases.sort(key=_complexity)  # simplest first (stable)
    if ctx.seed:
        # verdicts must not depend on order: rotate inside equal-complexity runs
        cases = _rotate_within_ties(cases, ctx.seed)
    results = core.pmap(run_any, cases)
    states = set()
    n_exec = 0
    judged = 0
    fam = {}
    for case, res in zip(cases, results):
        n_exec += res["n_exec"]
        oc = res["outcome"]
        ctx.outcomes.add((_shape(case), oc))
        fam[oc.split(":")[0]] = fam.get(oc.split(":")[0], 0) + 1
        if res.get("s0") is not None:
            states.add(core.digest(res["s0"]))
        if res.get("s2") is not None:
            states.add(core.digest(res["s2"]))
        if not oc.startswith("refused-construct") and not oc.startswith("refused-op") and not oc.startswith("excluded"):
            judged += 1
            if oc == "roundtrip" and len(ctx.samples) < 5 and len(case.get("forms", [])) >= 1 and judged % 97 == 0:
                ctx.sample({"case": case, "before": res["s0"], "after_second_cycle": res.get("s2")})
        if res["viol"]:
            ctx.add_violations(case, [tuple(v) for v in res["viol"]])
    if not ctx.samples:
        ctx.sample({"case": cases[len(cases) // 2]})
    ctx.cover(
        states=len(states),
        transitions=n_exec,
        traces_validated_against_impl=judged,
        cases=len(cases),
        outcome_families=fam,
        distinct_outcomes=len(ctx.outcomes),
        exhaustive=True,
        bound=(
            "default_ui_json + 1 form (+ parent object form) with every member combination; + driver/leader form for "
            "dependency and group-leader pairs" + ("" if ctx.quick else "; every ordered pair of (form variant x optional state)")
            + "; protocol depth 3: construct [+ op] -> write -> read -> [op] -> write -> read"
        ),
        alphabet={
            "templates": sorted({v["t"] for v in variants()}),
            "variants": len([v for v in variants() if not (ctx.quick and v["lvl"] > 0)]),
            "optional": ["absent", "enabled", "disabled"],
            "group": ["absent", "member", "leader(groupOptional true) enabled absent/true/false", "groupOptional false"],
            "dependency": ["bool false/true", "optional float enabled/disabled", "dependencyType enabled/disabled/absent", "enabled member absent/true/false"],
            "entries": ["value in ui_json", "set_data_value", "data setter", "set_data_value on the re-read file"],
            "geoh5": ["Workspace object", "path string", "pathlib.Path"],
            "configurations": ["validate True/False x validation_options None / {'ignore_list': ()} / {'update_enabled': True} / {'update_enabled': False}, same configuration for the reader (family F7: one representative per template / mode x optional state x entry point)"],
            "floats": [vtag(x) for x in FLOATS],
            "ints": [str(x) for x in INTS],
            "strings": [vtag(x) for x in STRINGS],
        },
    )
    ctx.assumptions += [
        "NaN is not a ui.json value (documented exception): cases whose data contain NaN are excluded",
        "domain = inputs the library accepts in the configuration at hand (validate True/False, validation_options; the reader gets the same configuration); a refusal at construction or by set_data_value / the data setter is a legitimate outcome and is not judged; with validate=False nothing is refused and only the statement's clauses are judged",
        "update_enabled=False hands the enabled flags over to the caller: a non-required parameter that holds a value but is flagged disabled (or holds None but is flagged enabled) at the moment of writing is outside the domain and not compared",
        "None is the value kind of disabled parameters: None given (with validate=False, where nothing is refused) to a parameter that has no optional / group / dependency / enabled member, i.e. that cannot be disabled, is outside the domain (validate=True refuses it)",
        "set-value-kept: a value accepted by set_data_value / the data setter is the parameter value of the input file (what must be written and read back); identifiers of no workspace entity are excluded",
        "in-memory workspaces have no path and are outside the statement ('workspace paths re-opened as workspaces')",
        "compared: InputFile.data (numbers by value, strings, booleans, None, lists element-wise, entities by class + uid + name, workspaces by resolved file path) and the `enabled` member of every form (absent == true, the documented default); other members (vmin, tooltip, choiceList, ...) are not compared: the statement is silent about them",
        "identifier -> entity equivalence: for object / group / data / data-or-value forms a uuid (or uuid string) held before writing equals the entity with that uid after reading ('identifiers promoted to the same workspace entities'); for geoh5 / workspace a path equals the Workspace re-opened on that path; for string-valued parameters (string, choice, file, drillhole-group data, title, ...) no such equivalence: a string must come back as the same string",
        "fixture workspace: Points P (data a, b, property group pg), Points Q (data c), ContainerGroup G, with forced name collisions (Q and G are also named 'P', c is also named 'a') so that identity must go by uid; 'full' adds DrillholeGroup DHG with one drillhole and one interval data; integers up to 2**63-1 (Python ints beyond int64 are outside the lattice: 2**64 makes write_ui_json raise TypeError in inf2str)",
        "documented normalisation, not compared: an optional parameter with enabled true whose data is None (only acceptable when an unmet dependency makes it non-required) is written with enabled false by the update_enabled rule of InputFile.validation_options ('the enabled status of the ui_json will be updated based on the value provided'); data is None on both sides. The opposite direction (false -> true) and every change of enabled with a value present are compared",
        "every file the check makes the library write (ui.json files, and the *.geoh5 files that Workspace(path, mode='r') creates for missing paths found by numify) lands in a per-case directory under mc.world.scratch(): each case runs with that directory as working directory",
        "witnesses of group members are coarse on purpose (one class per leader state): all of them trace back to set_enabled() of the leader overwriting the members' enabled members",
    ]


def _shape(case):
    if "pd" in case:
        return ("pd", case["pd"], len(case["ids"]))
    return tuple((f["t"], mtag(f)) for f in case["forms"]) + (tuple(op for op, _, _ in case.get("pre", [])), tuple(op for op, _, _ in case.get("mid", [])))


def _rotate_within_ties(cases, seed):
    out = []
    i = 0
    while i < len(cases):
        j = i
        k = _complexity(cases[i])
        while j < len(cases) and _complexity(cases[j]) == k:
            j += 1
        block = cases[i:j]
        r = seed % len(block)
        out += block[r:] + block[:r]
        i = j
    return out


def replay(history):
    res = run_any(history)
    return [tuple(v) for v in res["viol"]]
