"""C19 - the reader tolerates missing optional content (fault enumeration).

Corpus: closed files written by the library (mc.c19_corpus).  Alphabet: every single
deletion of one HDF5 attribute or one HDF5 link of each file (mc.c19_faults), applied
with plain h5py on a copy of the bytes.  One fault per execution.  Oracle: differential,
snapshot of Workspace(damaged) against the snapshot of Workspace(intact), record by
record (mc.c19_snap), with the records *described* by the removed item exempted:

  optional-still-opens   "A valid file from which any single optional item has been removed
                          ... still opens"
  others-returned        "every entity not described by the missing item is returned" /
                          "leaves out only the entities that item describes together with
                          their descendants"
  others-unchanged       "... with unchanged content" / "it never returns altered content
                          for the others"

For a mandatory item, and for an item the statement does not name, an exception while
opening is an accepted outcome; the two `others-*` clauses apply whenever the file opens.
"""

from __future__ import annotations

import hashlib

from .. import c19_corpus, c19_faults, c19_snap, core, world

PROP = "C19"

# (scene, uid order, file version, open mode)
QUICK = [("basic", "asc", None, "r"), ("tree", "desc", None, "r"), ("classes", "asc", None, "r"), ("drillholes", "asc", None, "r"),
         ("surveys", "desc", None, "r"), ("kinds", "asc", None, "r")]
THOROUGH = (
    [(s, o, None, m) for s in c19_corpus.SCENES for o in ("asc", "desc") for m in ("r", "r+")]
    + [("drillholes", "asc", 2.0, "r"), ("drillholes", "asc", 1.0, "r"), ("classes", "asc", 1.0, "r"), ("basic", "asc", 1.0, "r")]
)

_CACHE: dict = {}


def corpus_file(scene, order, version):
    """(bytes, intact snapshot, faults) of one corpus file; built once per process."""
    key = (scene, order, version)
    if key not in _CACHE:
        b = c19_corpus.build(scene, order, version)
        snaps = {}
        for mode in ("r",):
            ws = c19_corpus.reopen(b, mode)
            snaps[mode] = c19_snap.snapshot(ws)
            ws.close()
        faults = c19_faults.enumerate_faults(b, snaps["r"])
        _CACHE[key] = (b, snaps["r"], faults)
    return _CACHE[key]


def fault_key(ft):
    return (ft["kind"], tuple(ft["node"]), ft["name"])


# ---------------------------------------------------------------------------
STRUCT_FIELDS = ("children", "children_error", "pg_ids", "parent", "parent_is_root")


def judge(ft, s0, s1, error):
    """Failing clauses [(clause, witness, detail)] of one execution."""
    item = ft["item"]
    if error is not None:
        if ft["cls"] == "optional":
            return [("optional-still-opens", item, {"error": error, "fault": _short(ft)})]
        return []
    out = []
    exempt = set(ft["exempt"])
    ex_t, ex_p = set(ft["types"]), set(ft["pgs"])
    e0, e1 = s0["entities"], s1["entities"]
    # Second sentence: "either raises an error or leaves out only ...".  The reader loads
    # geometry, values and the members of a drillhole group lazily, so for a non-optional
    # item an exception raised by a getter is that error: the field (or the children which
    # could not be listed) is then not compared.  For an optional item the first sentence
    # demands the content itself, and an exception is a difference like any other.
    lenient = ft["cls"] != "optional"
    excused = set()
    if lenient:
        kids0 = {}
        for u, r in e0.items():
            kids0.setdefault(r["parent"], []).append(u)
        stack = [u for u, r in e1.items() if r.get("children_error") and u in e0]
        while stack:
            for c in kids0.get(stack.pop(), []):
                if c not in excused:
                    excused.add(c)
                    stack.append(c)
    missing = sorted(u for u in e0 if u not in exempt and u not in e1 and u not in excused)
    if missing:
        out.append(
            (
                "others-returned",
                f"{item}:{'+'.join(sorted({e0[u]['kind'] for u in missing}))}",
                {"left-out": [f"{e0[u]['cls']}:{e0[u].get('name')}" for u in missing], "fault": _short(ft)},
            )
        )
    changed = []
    what = set()  # which fields of which kind of record are altered: part of the witness
    for u, r0 in e0.items():
        if u in exempt or u not in e1:
            continue
        r1 = e1[u]
        diffs = []
        for k in sorted(set(r0) | set(r1)):
            if k in STRUCT_FIELDS:
                continue
            if r0.get(k) != r1.get(k):
                if lenient and _is_err(r1.get(k)):
                    continue
                diffs.append(f"{k}: {_cut(r0.get(k))} -> {_cut(r1.get(k))}")
        if r0["parent"] != r1["parent"] and not (r0["parent_is_root"] and r1["parent_is_root"]):
            diffs.append(f"parent: {_who(e0, r0['parent'])} -> {_who(e1, r1['parent'])}")
        if r1.get("children_error") and not r0.get("children_error"):
            if not lenient:
                diffs.append(f"children: cannot be listed ({r1['children_error']})")
        else:
            k0 = {c for c in r0["children"] if c not in exempt}
            k1 = {c for c in r1["children"] if c in e0 and c not in exempt}
            if k0 != k1:
                diffs.append(f"children: {sorted(_who(e0, c) for c in k0)} -> {sorted(_who(e0, c) for c in k1)}")
        if "pg_ids" in r0 or "pg_ids" in r1:
            p0, p1 = r0.get("pg_ids", []), r1.get("pg_ids", [])
            if isinstance(p0, str) or isinstance(p1, str):
                if p0 != p1 and not (lenient and _is_err(p1)):
                    diffs.append(f"property groups: {p0} -> {p1}")
            else:
                q0 = {p for p in p0 if p not in ex_p}
                q1 = {p for p in p1 if p in s0["pgs"] and p not in ex_p}
                if q0 != q1:
                    diffs.append(f"property groups: {len(q0)} -> {len(q1)} of the undescribed ones")
        if diffs:
            changed.append({"entity": f"{r0['cls']}:{r0.get('name')}", "diff": diffs[:6]})
            what |= {f"{r0['kind']}.{d.split(':')[0].replace(' ', '-')}" for d in diffs}
    for t, r0 in s0["types"].items():
        if t in ex_t or t not in s1["types"]:
            continue
        if r0 != s1["types"][t]:
            changed.append({"type": f"{r0['cls']}:{r0.get('name')}", "diff": _rdiff(r0, s1["types"][t])})
            what.add("type")
    for p, r0 in s0["pgs"].items():
        if p in ex_p or r0["owner"] in exempt:
            continue
        r1 = s1["pgs"].get(p)
        if r1 is None:
            if r0["owner"] in e1 and not (lenient and _is_err(e1[r0["owner"]].get("pg_ids"))):
                changed.append({"pg": r0["name"], "diff": ["left out although its owner is returned"]})
                what.add("pg.left-out")
            continue
        a, b = dict(r0), dict(r1)
        for r in (a, b):
            if isinstance(r["properties"], list):
                r["properties"] = [x for x in r["properties"] if x not in exempt]
        if a != b:
            changed.append({"pg": r0["name"], "diff": _rdiff(a, b)})
            what.add("pg")
    if changed:
        out.append(("others-unchanged", f"{item}:{'+'.join(sorted(what))}", {"altered": changed[:5], "n_altered": len(changed), "fault": _short(ft)}))
    return out


def _is_err(v):
    return isinstance(v, str) and v.startswith("!")


def _short(ft):
    return {k: ft[k] for k in ("kind", "node", "name", "cls", "owner")}


def _cut(v):
    s = repr(v)
    return s if len(s) < 80 else s[:77] + "..."


def _who(ents, u):
    r = ents.get(u)
    return u if r is None else f"{r['cls']}:{r.get('name')}"


def _rdiff(a, b):
    return [f"{k}: {_cut(a.get(k))} -> {_cut(b.get(k))}" for k in sorted(set(a) | set(b)) if a.get(k) != b.get(k)][:6]


# ---------------------------------------------------------------------------
def execute(history):
    """One (file, fault) pair on the real reader -> result dict."""
    b, s0, faults = corpus_file(history["scene"], history["order"], history["version"])
    want = (history["fault"]["kind"], tuple(history["fault"]["node"]), history["fault"]["name"])
    ft = next(x for x in faults if fault_key(x) == want)
    damaged = c19_faults.apply_fault(b, ft)
    removed = c19_faults.removed_something(b, damaged, ft)
    # identifiers the reader invents (missing ID) come from the other half of the uid
    # space than the identifiers in the file, as a random uuid4 would
    world.reset("desc" if history["order"] == "asc" else "asc")
    error, s1, ws = None, None, None
    try:
        ws = c19_corpus.reopen(damaged, history["mode"])
    except Exception as err:  # pylint: disable=broad-except
        error = f"{type(err).__name__}: {str(err)[:160]}"
    if ws is not None:
        s1 = c19_snap.snapshot(ws)
        try:
            ws.close()
        except Exception as err:  # pylint: disable=broad-except
            s1["close-error"] = type(err).__name__
    viol = judge(ft, s0, s1, error)
    if error is not None:
        outcome = "raises"
    else:
        gone = [u for u in s0["entities"] if u not in s1["entities"]]
        same = all(s1["entities"].get(u) == r for u, r in s0["entities"].items())
        outcome = "opens-identical" if same and s0["types"] == s1["types"] and s0["pgs"] == s1["pgs"] else ("opens-leaves-out" if gone else "opens-differs")
    return {
        "viol": viol,
        "removed": removed,
        "outcome": (ft["cls"], ft["role"], outcome),
        "item": ft["item"],
        "cls": ft["cls"],
        "error": error,
        "file": hashlib.sha256(b).hexdigest()[:12],
        "n_exempt": len(ft["exempt"]),
        "n_entities": len(s0["entities"]),
    }


def replay(history):
    return execute(history)["viol"]


def run(ctx):
    ctx.level = "fault_enumeration"
    plan = QUICK if ctx.quick else THOROUGH
    # build the corpus in the parent: the forked workers inherit the cache
    cases, files = [], []
    per_file = {}
    for scene, order, version, mode in plan:
        b, s0, faults = corpus_file(scene, order, version)
        files.append(
            {
                "scene": scene,
                "order": order,
                "version": version,
                "mode": mode,
                "bytes": len(b),
                "entities": len(s0["entities"]),
                "types": len(s0["types"]),
                "property_groups": len(s0["pgs"]),
                "faults": len(faults),
                "classes": sorted({r["cls"] for r in s0["entities"].values()}),
            }
        )
        for ft in faults:
            cases.append({"scene": scene, "order": order, "version": version, "mode": mode, "fault": {k: ft[k] for k in ("kind", "node", "name")}})
        per_file[(scene, order, version)] = len(faults)
    # simplest first: attribute faults before link faults, short paths first; VERIF_SEED
    # only rotates the order inside a group
    cases.sort(key=lambda c: (c["fault"]["kind"] != "attr", len(c["fault"]["node"])))
    if ctx.seed:
        k = ctx.seed % max(1, len(cases))
        head = [c for c in cases if c["fault"]["kind"] == "attr"]
        tail = [c for c in cases if c["fault"]["kind"] != "attr"]
        cases = head[k % max(1, len(head)):] + head[: k % max(1, len(head))] + tail
    results = core.pmap(execute, cases)
    nontrivial = set()
    by_cls = {}
    items = {}
    raised = 0
    for case, res in zip(cases, results):
        ctx.outcomes.add(res["outcome"])
        if res["removed"]:
            nontrivial.add((res["file"], case["fault"]["kind"], tuple(case["fault"]["node"]), case["fault"]["name"]))
        by_cls[res["cls"]] = by_cls.get(res["cls"], 0) + 1
        items.setdefault(res["item"], set()).add(res["outcome"][2])
        raised += res["error"] is not None
        if res["viol"]:
            ctx.add_violations(case, res["viol"])
        if len(ctx.samples) < 6 and (len(ctx.samples) < 3 or res["error"] is not None):
            ctx.sample({"case": case, "class": res["cls"], "item": res["item"], "outcome": res["outcome"][2], "error": res["error"],
                        "exempt_entities": res["n_exempt"], "entities_in_file": res["n_entities"]})
    trivial = [c for c, r in zip(cases, results) if not r["removed"]]
    if trivial:
        raise core.HarnessError(f"{len(trivial)} faults did not remove anything, e.g. {trivial[0]}")
    if len(nontrivial) != sum(per_file.values()):
        raise core.HarnessError(f"{sum(per_file.values())} (file, fault) pairs enumerated but {len(nontrivial)} distinct ones executed")
    # determinism self-test: the same pair twice, in this process
    for case in cases[:: max(1, len(cases) // 5)][:5]:
        a, b2 = execute(case), execute(case)
        if core.jdump(a) != core.jdump(b2):
            raise core.HarnessError(f"non-deterministic execution of {case}")
    ctx.cover(
        evaluations=len(cases),
        distinct_nontrivial=len(nontrivial),
        rule="cases = every (corpus file, single deletion of one HDF5 attribute or one HDF5 link) pair, each HDF5 object visited once "
        "(flat containers first); a pair is non-trivial when an independent h5py look-up finds the item in the intact file and not in "
        "the damaged one; pairs are distinct by (sha256 of the intact file, kind, symbolic path, name)",
        states=len(files),
        transitions=len(cases),
        traces_validated_against_impl=len(cases),
        exhaustive=True,
        distinct_outcomes=len(ctx.outcomes),
        files=files,
        faults_by_class=by_cls,
        opens_raised=raised,
        item_outcomes={k: sorted(v) for k, v in sorted(items.items())},
        bound="one fault per execution; corpus = the listed files; open mode(s) as listed per file",
        alphabet="delete one attribute of: project group, entity node, type node, property-group block, dataset; delete one link of: project "
        "group (Root, flat containers, Types), Types, a type container, a type node (colour / value map), a flat container (entity entry), an "
        "entity node (Type, child containers, PropertyGroups, Metadata, geometry / value datasets, concatenated storage), a child container, "
        "a PropertyGroups container, every group below 'Concatenated Data'",
    )
    ctx.assumptions += [
        "intact reference = the library's own reading of the undamaged file (differential oracle); the files are valid (C02 validator)",
        "classification of items: mandatory = ID, Name, Type link, flat containers, Types containers; optional = items the format documentation marks "
        "optional / gives a default / does not mention, Root, property-group blocks, colour / value maps, empty child containers, Metadata; "
        "everything else (geometry and value datasets, Association, Primitive type, class geometry attributes, non-empty child containers, "
        "entries, concatenated storage) is judged only with the clause common to both sentences of the statement",
        "described records: the owning entity / type / property group of the item; all entities of a type for an item of a type node; the "
        "child (with descendants) for an entry or a non-empty child container; for non-optional items descendants of the described "
        "entities are exempt as well; child lists and member lists are compared modulo exempt records; a changed parent is accepted when "
        "both parents are the workspace root",
        "project attribute Version ('version of specification used by this file') is taken to describe every node of the file: its removal "
        "only has to open or raise (observed: a v1.0 file without it is read with the v2.1 layout and drillhole data come back empty)",
        "the reader is lazy: for non-optional items an exception raised by a getter of an entity (or while listing the members of a hole) "
        "counts as 'raises an error' for that field / those members; for optional items it counts as altered content",
        "identifiers invented by the reader for nodes whose ID is missing are drawn from the half of the uid space not used by the file",
        "attributes of concatenated (drillhole-group) members live inside JSON text, not in HDF5 attributes: removing a key of that text is "
        "outside 'one attribute or one link' and is not enumerated",
        "the link from the file root to the project group is not removed (there would be no file content left to describe)",
    ]
