"""C07 - data stay aligned with the geometry they are attached to.

Explicit-state exploration of operation histories (remove_vertices / remove_cells for every
index subset, value assignment shorter / equal / longer, add_data, masked copies of objects
and of data, re-open) over a complete catalogue of small point / curve / surface geometries
with uniquely tagged vertices and data entries, executed on the real library.  Oracle: a
pure-Python lock-step model (mc/c07_model.py) compared by element identity (coordinates),
plus the two state clauses of the statement, live after every step and after the final
close + re-open.  DESIGN.md §4 C07.
"""

from __future__ import annotations

import os

from .. import c07_exec as X
from .. import c07_model as M
from .. import core, explorer

# per-position operation classes (upper case: complete argument domain, lower case: lite,
# lower case + "1": tiny - see c07_model.subsets / masks / enabled)
FULL = ["RV", "RC", "SV", "AD", "CP", "CC", "DC", "RO"]
FULLM = ["RV", "RC", "SV", "ad", "cp", "cc", "DC", "RO"]
LITE = ["rv", "rc", "sv", "ad", "cp", "cc", "RO"]
REM = ["RV", "RC", "RO"]
REMC = ["RV", "RC", "RO", "cp", "cc"]
TINY = ["rv1", "rc1", "RO"]
ALPHAS = {
    "FULL1": [FULL],
    "FULL2": [FULL, FULLM],
    "FULL+LITE": [FULL, LITE],
    "FULL+TINY": [FULL, TINY],
    "REM2": [REM, REM],
    "REM3": [REM, REM, REM],
    "REM3L": [REM, REM, ["rv", "rc", "RO"]],
    "REMC3": [REMC, REMC, REM],
    "COPY2": [["cp", "cc", "DC"], TINY],
    "LITE1": [LITE],
    "LITE2": [LITE, LITE],
    "LITE3": [LITE, LITE, TINY],
}
CAPS_Q = {"copies": 1, "adds": 1, "reopens": 1, "data": 7, "objects": 3}
CAPS_T = {"copies": 2, "adds": 2, "reopens": 2, "data": 8, "objects": 3}

NUM = ["fv", "ic", "rv", "bc"]
ALL = ["fv", "ic", "rv", "bc", "tv"]
REV = ["tv", "bc", "rv", "ic", "fv"]
NOVAL = ["fv", "ic", "nv", "rv", "bc"]
SINGLES = [[k] for k in M.KIND_ORDER]

GEOMS_ALL = list(M.GEOMS)
GEOMS_Q = ["P3", "Cloop", "Cchain", "Ctwo", "Clastun", "Cfirstun", "Cunord", "Cstar", "Cmidun", "Cauto", "Cparts", "S2fan", "S2first", "S2bow"]
GEOMS_F2 = ["P3", "Cchain", "Clastun", "Cfirstun", "Cstar", "Cmidun", "Cauto", "Cparts", "S2fan", "S2first", "S2bow"]
GEOMS_8 = ["P3", "Cchain", "Clastun", "Cfirstun", "Cstar", "Cparts", "S2first", "S2bow"]
GEOMS_6 = ["P3", "Cchain", "Cfirstun", "Cstar", "Cparts", "S2first"]
GEOMS_CORE = ["P3", "Cfirstun", "Cstar", "S2first"]


def subsets_of_kinds():
    out = []
    for bits in range(1, 32):
        out.append([k for i, k in enumerate(M.KIND_ORDER) if bits >> i & 1])
    return sorted(out, key=lambda s: (len(s), s))


def plan(quick):
    """[(label, geoms, dataset, start, alpha, extra cfg)]  - depth = len(ALPHAS[alpha])."""
    p = []
    if quick:
        p.append(("num-fresh-full1", GEOMS_Q, NUM, "fresh", "FULL1", {}))
        p.append(("all-fresh-full1", GEOMS_Q, ALL, "fresh", "FULL1", {}))
        p.append(("rev-cold-lite2", ["P3", "Cfirstun"], REV, "cold", "LITE2", {}))
        p.append(("noval-fresh-rem2", ["P3", "Cfirstun", "Cstar"], NOVAL, "fresh", "REM2", {}))
        for s in SINGLES:
            p.append(("single-" + s[0], GEOMS_CORE, s, "fresh", "LITE1", {}))
        p.append(("num-fresh-full+tiny", ["P3", "Cfirstun", "Cstar", "S2first"], NUM, "fresh", "FULL+TINY", {}))
        p.append(("num-cold-rem2", GEOMS_6, NUM, "cold", "REM2", {}))
        p.append(("num-warm-rem2", ["Cfirstun"], NUM, "warm", "REM2", {}))
        p.append(("num-disk-clear-rem2", ["P3", "Cfirstun"], NUM, "fresh", "REM2", {"disk": True, "clear": True}))
        p.append(("num-disk-clear-copy", ["Cstar", "Cunord"], NUM, "fresh", "COPY2", {"disk": True, "clear": True}))
        p.append(("all-disk-clear-copy", ["P3"], ALL, "fresh", "COPY2", {"disk": True, "clear": True}))
    else:
        p.append(("num-fresh-full2", GEOMS_6, NUM, "fresh", "FULL2", {}))
        p.append(("all-fresh-full+lite", ["P3", "Cfirstun", "S2first"], ALL, "fresh", "FULL+LITE", {}))
        p.append(("noval-fresh-full+lite", ["P3", "Cfirstun"], NOVAL, "fresh", "FULL+LITE", {}))
        p.append(("rev-fresh-full+lite", ["P3", "Cfirstun"], REV, "fresh", "FULL+LITE", {}))
        p.append(("num-cold-full+lite", ["P3", "Cfirstun", "Cstar"], NUM, "cold", "FULL+LITE", {}))
        p.append(("num-fresh-lite3", ["P3", "Cfirstun"], NUM, "fresh", "LITE3", {}))
        p.append(("num-warm-lite3", ["P3"], NUM, "warm", "LITE3", {}))
        p.append(("num-warm-rem3", ["Cfirstun"], NUM, "warm", "REM3L", {}))
        p.append(("num-fresh-rem3", GEOMS_8, NUM, "fresh", "REM3L", {}))
        p.append(("num-cold-remc3", ["P3", "Cfirstun"], NUM, "cold", "REMC3", {}))
        for s in subsets_of_kinds():
            if s in (NUM, ALL):
                continue
            p.append(("subset-" + "+".join(s), GEOMS_CORE, s, "fresh", "LITE1", {}))
        p.append(("num-disk-clear-rem3", ["P3", "Cfirstun", "S2first"], NUM, "fresh", "REM3", {"disk": True, "clear": True}))
        p.append(("all-disk-clear-lite2", ["P3", "Cfirstun"], ALL, "fresh", "LITE2", {"disk": True, "clear": True}))
        p.append(("num-disk-clear-lite2", ["Cstar", "Cmidun", "S2bow"], NUM, "fresh", "LITE2", {"disk": True, "clear": True}))
        p.append(("num-disk-cold-lite2", ["Cstar"], NUM, "cold", "LITE2", {"disk": True}))
    return p


def seeds_of(entry, caps):
    label, geoms, dataset, start, alpha, extra = entry
    out = []
    for g in geoms:
        cfg = dict({"geom": g, "data": list(dataset), "start": start}, **extra)
        out.append({"property": "C07", "cfg": cfg, "alpha": alpha, "caps": caps, "ops": []})
    return out


def run_one(history):
    return X.execute_forked(history, ALPHAS, history["caps"])


def replay(history):
    return X.execute_plain(history, ALPHAS, history["caps"])["viol"]


class _Scratch:
    """Context stand-in for the no-merge cross-check."""

    def __init__(self, ctx):
        self.seed = ctx.seed
        self.outcomes = set()
        self.sigs = set()
        self._ctx = ctx

    def add_violations(self, history, vlist):
        for c, w, _ in vlist:
            self.sigs.add((c, w))

    def all_known(self, vlist):
        return self._ctx.all_known(vlist)

    def sample(self, item, cap=6):
        pass


def run(ctx):
    caps = CAPS_Q if ctx.quick else CAPS_T
    total = {"states": 0, "transitions": 0}
    runs = []
    all_seeds = []
    only = [x for x in os.environ.get("VERIF_C07_ONLY", "").split(",") if x]  # development aid: run a subset of the plan
    for entry in plan(ctx.quick):
        if only and entry[0] not in only:
            continue
        seeds = seeds_of(entry, caps)
        depth = len(ALPHAS[entry[4]])
        st = explorer.explore(ctx, run_one, seeds, depth)
        runs.append({"label": entry[0], "geometries": len(entry[1]), "data": entry[2], "start": entry[3], "alphabet": entry[4],
                     "cfg": entry[5], "depth": depth, "states": st["states"], "transitions": st["transitions"], "levels": st["levels"]})
        total["states"] += st["states"]
        total["transitions"] += st["transitions"]
        all_seeds += seeds

    # self-tests of the harness: deterministic replays, forked == plain execution
    ps = seeds_of(("probe", ["Cchain", "Clastun", "S2bow"], NUM, "fresh", "FULL1", {}), caps)
    probes = [dict(ps[0], ops=[["rv", [1]], ["ro"]]), dict(ps[2], ops=[["rc", [0]]]), dict(ps[1], ops=[["cp", [True, False, True, True]], ["rv", [0]]]),
              dict(seeds_of(("probe", ["Cfirstun"], ALL, "cold", "FULL1", {}), caps)[0], ops=[["sv", 4, "long"], ["rv", [0]]])]
    ndet = explorer.determinism_check(run_one, probes)
    for h in probes:
        a, b = run_one(h), X.execute_plain(h, ALPHAS, h["caps"])
        if core.jdump(a) != core.jdump(b):
            raise core.HarnessError(f"forked and plain execution disagree on {h}:\n{core.jdump(a)[:600]}\n{core.jdump(b)[:600]}")
    # merged exploration must give the verdicts and outcomes of the unmerged one
    xseeds = [dict(s, alpha="REM2") for s in seeds_of(("x", ["Cfirstun"], NUM, "fresh", "", {}), caps)]
    res = []
    for merge in (True, False):
        sc = _Scratch(ctx)
        st = explorer.explore(sc, run_one, xseeds, len(ALPHAS[xseeds[0]["alpha"]]), merge=merge)
        res.append((sc.sigs, sc.outcomes, st["transitions"]))
    if res[0][0] != res[1][0] or res[0][1] != res[1][1]:
        raise core.HarnessError(f"merged and unmerged exploration disagree: {res[0][0] ^ res[1][0]} / {res[0][1] ^ res[1][1]}")

    ctx.cover(
        states=total["states"],
        transitions=total["transitions"],
        traces_validated_against_impl=total["transitions"],
        distinct_outcomes=len(ctx.outcomes),
        exhaustive=not only,
        bound=("SUBSET OF THE PLAN (VERIF_C07_ONLY) - " if only else "") + "all histories over the per-position alphabets (alphabets[run.alphabet], one list of operation classes per position; "
              "upper case = complete argument domain: every non-empty index subset + [1,1], [2,0], [n]; every boolean mask; every data x "
              "{shorter, equal, longer}; every kind x {equal, shorter, longer, no values}) from every listed geometry x data set x start state",
        alphabets=ALPHAS,
        caps=caps,
        geometries={g: {"class": M.GEOMS[g][0], "vertices": M.GEOMS[g][1], "cells": M.geom_cells(g) if M.GEOMS[g][0] != "Points" else None} for g in GEOMS_ALL},
        runs=runs,
        determinism_replays=ndet,
        fork_vs_plain_crosscheck=len(probes),
        nomerge_crosscheck={"merged_executions": res[0][2], "unmerged_executions": res[1][2], "same_signatures_and_outcomes": True},
    )
    ctx.assumptions += [
        "bounded: geometries of 3-5 vertices / 1-3 cells (coverage.geometries), histories up to the per-run depth, at most caps.copies masked copies, "
        "caps.adds add_data and caps.reopens re-opens per history; nothing is claimed for larger objects or longer histories",
        "identity of a vertex = its (unique) coordinate triple, of a cell = the set of coordinates it connects; order of vertices / cells / children is not compared",
        "a data child with no stored values (values read None) has no array and is not judged by the one-entry-per-element clause",
        "no-data representations accepted for padding: float nan or 1.175494351e-38, integer -2147483648, referenced -2147483648 or 0, boolean False, text ''",
        "masked-out entries of a data-level masked copy into the same parent are not compared (the statement does not fix them)",
        "after an operation that raised only the state clauses are judged (one entry per element, cells reference existing vertices, remaining cells "
        "connect coordinates they connected before); whether an operation may refuse is not judged, except 'longer ones refused' / 'shorter ones padded'",
        "negative indices, empty index lists, growing the vertex array and combined mask + cell_mask copies are outside the alphabet",
        "trusted base: numpy, h5py, the forked-template executor (cross-checked against plain execution on probes), mc/c07_model.py",
    ]
