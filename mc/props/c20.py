"""C20 - Linked surveys stay mutually consistent.

Statement (properties.jsonl): for every receiver/transmitter, receiver/base-station or
potential/current electrode pair, linking from either side records both identifiers on both
entities, later edits of shared survey parameters through either side are visible on both and
stored, and after re-opening each entity resolves its partner again.  Copying one side also
copies the partner (for large-loop surveys, the transmitter loops the copied receivers refer
to) and links the two copies to each other, not to the originals.

Technique (DESIGN.md §4 C20): exhaustive bounded enumeration of histories

    pair class (discovered reflectively) x linking side x ops

executed on the real library (mc/c20_exec.py), judged after every op, at every re-open and on
the raw file.  Oracle clauses, each a sentence of the statement:

    link-records-both-ids        "linking from either side records both identifiers on both entities"
                                 (live, in the JSON text on file, after re-open; every tracked pair,
                                 so also "[the copies are linked] to each other, not to the originals"
                                 and the originals still name each other after a copy)
    edit-visible-on-both         "later edits of shared survey parameters through either side are
                                 visible on both": the assigned value is returned by both getters;
                                 all parameter getters and the 'EM Dataset' dictionaries of the
                                 partners agree
    edit-stored                  "... and stored": every getter / dictionary entry read before close
                                 is read back after re-open; the stored JSON of the partners agree
    edit-stays-stored            a stored edit is not undone by a later edit of ANOTHER parameter
                                 (frame condition, same pair)
    partner-resolves             "after re-opening each entity resolves its partner again" (and live)
    copy-copies-partner          "copying one side also copies the partner (for large-loop surveys,
                                 the transmitter loops the copied receivers refer to)"
    copies-linked-to-each-other  "and links the two copies to each other, not to the originals"
    copies-independent           "... not to the originals": an edit through one pair is not
                                 visible on the pair it was copied from / its copies

Nothing else is compared (names, data children, value-map labels, uids chosen for the copies,
exception types of refusals; a refused edit only has to leave the pairs consistent).
"""

from __future__ import annotations

import json
import os

from .. import c20_exec as X
from .. import core

COPY_Q = ("plain", "masked", "cross")
# quick tier: one representative per code path for the edit x copy / components x edit families
# (the six airborne offsets share AirborneEMSurvey.set_metadata; all of them are covered as single edits)
REP = ("channels", "pitch", "crossline_offset", "loop_radius", "timing_mark", "waveform", "unit", "input_type", "relative_to_bearing", "metadata")
COPY_T = ("plain", "masked", "masked2", "cross", "cross_masked", "bare")


def _hist(name, variant, order, ops):
    return {"pair": name, "variant": variant, "order": order, "ops": ops}


def catalogue():
    """{(class, variant): (edits [(attr, k)], first-value edits, specials)} learnt from the fixtures."""
    specs = X.discover()
    cat = {}
    for name in specs:
        for variant in X.variants(name):
            attrs, specials = X.edit_catalogue(name, variant)
            cat[(name, variant)] = {"attrs": attrs, "specials": specials, "paired": specs[name]["tx"] is not None}
    return cat


def enumerate_cases(quick, seed=0):
    cat = catalogue()
    cases = []
    plan = {}
    only = os.environ.get("VERIF_C20_ONLY")  # development aid (mutation trials): restrict to some pair classes
    for (name, variant), info in cat.items():
        if only and name not in only.split(","):
            continue
        sides = (0, 1) if info["paired"] else (0,)
        dirs = ("rx", "tx") if info["paired"] else ("rx",)
        all_edits = [["edit", 0, s, a, k] for a, n in info["attrs"] for k in range(n) for s in sides]
        all_edits += [["special", 0, s, w] for w in info["specials"] for s in sides]
        first_edits = [["edit", 0, s, a, 0] for a, _ in info["attrs"] for s in sides if not quick or a in REP]
        first_edits += [["special", 0, s, w] for w in info["specials"] for s in sides]
        copies = [["copy", -1, s, k] for s in sides for k in (COPY_Q if quick else COPY_T)]
        copies_small = [["copy", -1, s, k] for s in sides for k in COPY_Q]
        orders = ("asc",) if quick else ("asc", "desc")
        n0 = len(cases)
        for d in dirs:
            link = ["link", d]
            for order in orders:
                # A: link alone; one edit, fresh / after an observed / after a blind re-open
                cases.append(_hist(name, variant, order, [link]))
                cases.append(_hist(name, variant, order, [link, ["reopen", "observe"]]))
                for e in all_edits:
                    cases.append(_hist(name, variant, order, [link, e]))
                    if not quick or e[0] == "special" or e[4] == 0:
                        cases.append(_hist(name, variant, order, [link, ["reopen", "blind"], e]))
                    if not quick:
                        cases.append(_hist(name, variant, order, [link, ["reopen", "observe"], e]))
                # A': cold edits - nothing is read between the link and the edit, so the edited entity has
                # never resolved its partner unless the link itself went through it
                for e in all_edits:
                    if not quick or e[0] == "special" or e[4] == 0:
                        cases.append(_hist(name, variant, order, [link + ["cold"], e]))
                # B: copies, copies of copies, copies after a re-open
                for c in copies:
                    cases.append(_hist(name, variant, order, [link, c]))
                    cases.append(_hist(name, variant, order, [link, ["reopen", "blind"], c]))
                    if not quick:
                        cases.append(_hist(name, variant, order, [link, ["reopen", "observe"], c]))
                    for c2 in copies_small if quick else copies:
                        # a masked copy of a masked copy would need a third mask geometry
                        if c[3] in ("masked", "masked2", "cross_masked") and c2[3] in ("masked", "masked2", "cross_masked"):
                            continue
                        cases.append(_hist(name, variant, order, [link, c, c2]))
            # A": link made inside the constructor (partner handed to create()), both sides; no copies here
            # (no loop / dipole identifiers are assigned: that would be an edit through the new side)
            if info["paired"]:
                k0 = [["edit", 0, s, a, 0] for a, _ in info["attrs"] for s in sides] + [["special", 0, s, w] for w in info["specials"] for s in sides]
                for d in ("rx_create", "tx_create"):
                    link = ["link", d]
                    for order in orders:
                        cases.append(_hist(name, variant, order, [link]))
                        cases.append(_hist(name, variant, order, [link, ["reopen", "observe"]]))
                    for e in k0:
                        if quick and e[0] == "edit" and e[3] not in REP:
                            continue
                        cases.append(_hist(name, variant, "asc", [link + ["cold"], e]))
                        cases.append(_hist(name, variant, "asc", [link, ["reopen", "blind"], e]))
                        if not quick:
                            cases.append(_hist(name, variant, "asc", [link, e]))
            # C: edit x copy interplay (first value of every parameter), components x re-open x edit
            order = "asc"
            for d in dirs:
                link = ["link", d]
                for e in first_edits:
                    for c in copies_small:
                        if quick and c[2] == e[2]:
                            continue  # quick: copy through the side that was not edited
                        cases.append(_hist(name, variant, order, [link, e, c]))
                    for c in copies_small:
                        if quick and (c[2] != e[2] or c[3] == "masked"):
                            continue
                        e_last = list(e)
                        e_last[1] = -1
                        cases.append(_hist(name, variant, order, [link, c, e_last]))  # edit the copy: the source must not move
                        cases.append(_hist(name, variant, order, [link, c, e]))  # edit the source: the copy must not move
                if "components" in info["specials"]:
                    for s in sides:
                        comp = ["special", 0, s, "components"]
                        for e in first_edits:
                            if e[0] == "special" and e[3] == "components":
                                continue
                            cases.append(_hist(name, variant, order, [link, comp, e]))
                            cases.append(_hist(name, variant, order, [link, comp, ["reopen", "observe"], e]))
                            if not quick:
                                cases.append(_hist(name, variant, order, [link, comp, ["reopen", "blind"], e]))
                        for c in copies_small:
                            cases.append(_hist(name, variant, order, [link, comp, c]))
            # D (thorough): every ordered pair of edits, with and without a re-open in between
            if not quick:
                for d in dirs:
                    link = ["link", d]
                    for e1 in all_edits:
                        for e2 in all_edits:
                            cases.append(_hist(name, variant, "asc", [link, e1, e2]))
                        for e2 in first_edits:
                            cases.append(_hist(name, variant, "asc", [link, e1, ["reopen", "blind"], e2]))
        plan[f"{name}/{variant}"] = {"histories": len(cases) - n0, "edits": len(all_edits), "copies": len(copies)}
    # de-duplicate (some families coincide) keeping the simplest-first order
    seen, out = set(), []
    for c in cases:
        key = core.jdump(c)
        if key not in seen:
            seen.add(key)
            out.append(c)
    out.sort(key=lambda c: len(c["ops"]))
    if seed:
        # verdict-neutral permutation of the execution order inside each length class
        rot = seed % 7 + 1
        by_len = {}
        for c in out:
            by_len.setdefault(len(c["ops"]), []).append(c)
        out = []
        for n in sorted(by_len):
            grp = by_len[n]
            k = (rot * 131) % len(grp)
            out += grp[k:] + grp[:k]
    return out, plan, cat


CHUNK = 40


def make_groups(cases):
    """Histories of one (class, variant, uid order, linking side), sorted so that common prefixes are
    neighbours, cut into chunks; each chunk is executed as one prefix-sharing trie."""
    buckets = {}
    for idx, c in enumerate(cases):
        buckets.setdefault((c["pair"], c["variant"], c["order"], c["ops"][0][1]), []).append(idx)
    groups = []
    for (pair, variant, order, _), idxs in buckets.items():
        idxs.sort(key=lambda i: core.jdump(cases[i]["ops"]))
        for k in range(0, len(idxs), CHUNK):
            part = idxs[k:k + CHUNK]
            groups.append({"pair": pair, "variant": variant, "order": order, "ops": [cases[i]["ops"] for i in part], "idx": part})
    return groups


def run_group(group):
    return X.execute_group(group)


def run(ctx):
    cases, plan, cat = enumerate_cases(ctx.quick, ctx.seed)
    groups = make_groups(cases)
    groups.sort(key=lambda g: -sum(len(o) for o in g["ops"]))  # long chunks first: better balance
    outs = core.pmap(run_group, groups, chunksize=1)
    results = [None] * len(cases)
    transitions = 0
    for grp, out in zip(groups, outs):
        transitions += out["executed"]
        for i, res in zip(grp["idx"], out["results"]):
            results[i] = res
    keys = set()
    stopped = 0
    for hist, res in zip(cases, results):
        if res["key"] is None:
            stopped += 1
        else:
            keys.add(res["key"])
        ctx.outcomes.add(res["outcome"])
        if res["viol"]:
            ctx.add_violations(hist, [(c, w, json.loads(d)) for c, w, d in res["viol"]])
    for i in (0, len(cases) // 4, len(cases) // 2, (3 * len(cases)) // 4, len(cases) - 1):
        ctx.sample(cases[i])

    # self-test: straight execution (what replay does) == prefix-sharing forked execution, and is repeatable
    probes = sorted({0, len(cases) // 5, len(cases) // 2, (4 * len(cases)) // 5, len(cases) - 1})
    for i in probes:
        a, b = X.execute(cases[i]), X.execute(cases[i])
        for r in (a, b, results[i]):
            r.pop("transitions", None)
        if core.jdump(a) != core.jdump(b) or core.jdump(a) != core.jdump(results[i]):
            raise core.HarnessError(f"C20: straight and forked execution of {cases[i]} disagree or are not deterministic")

    specs = X.discover()
    ctx.cover(
        states=len(keys),
        transitions=transitions,
        traces_validated_against_impl=transitions,
        histories=len(cases),
        histories_stopped_at_first_failing_op=stopped,
        straight_vs_forked_probes=len(probes),
        distinct_outcomes=len(ctx.outcomes),
        exhaustive=not os.environ.get("VERIF_C20_ONLY"),
        pairs_discovered={k: v["tx"] for k, v in specs.items()},
        n_linkable_pairs=sum(1 for v in specs.values() if v["tx"] is not None),
        alphabet={
            "link": ["rx", "tx", "rx_create", "tx_create", "+cold (nothing read before the next op)"],
            "edit": {f"{k[0]}/{k[1]}": v["attrs"] for k, v in cat.items()},
            "special": {f"{k[0]}/{k[1]}": v["specials"] for k, v in cat.items()},
            "copy": list(COPY_Q if ctx.quick else COPY_T),
            "reopen": ["observe", "blind"],
            "plan": plan,
        },
        bound=(
            "per pair class x linking side (setter after creation / constructor keyword): every single edit (every value of every shared parameter, both sides; fresh / after a blind "
            "re-open / cold right after the link" + ("" if ctx.quick else " / after an observed re-open; both uid orders") + "), every copy kind from both sides, every copy of a copy, "
            "edit->copy, copy->edit-the-copy, copy->edit-the-source (first value of each parameter), components->[re-open]->edit"
            + ("" if ctx.quick else "; every ordered pair of edits, and edit->blind re-open->edit")
            + "; each history ends with close + re-open + raw read"
        ),
    )
    ctx.assumptions += [
        "shared survey parameters = the settable properties of the survey classes that are views of the metadata (mc/domains.VIEWS), the "
        "'EM Dataset' dictionary itself, the large-loop 'Tx ID property' and the component list; for direct-current pairs the link "
        "identifiers are the only shared entries",
        "'Property groups' is compared on the side that owns the component data only (the getter of the other side filters the names "
        "against its own property groups by design)",
        "airborne / moving-loop / tipper(n bases) pairs have one complement station per receiver: a masked copy is expected to select the "
        "same stations on the partner; for large-loop and direct-current pairs the expected partner copy is derived from coordinates only "
        "(elements whose loop / dipole lies wholly inside the mask)",
        "a refused edit (exception) is a legitimate outcome; the pairs must still satisfy every clause afterwards",
        "value-map labels of renumbered loop / dipole identifiers are not compared (statement silent)",
        "fixtures.make_pair links from the receiver side only; the complement-side recipe lives in mc/c20_exec.build",
    ]


def replay(history):
    res = X.execute(history)
    return [(c, w, json.loads(d)) for c, w, d in res["viol"]]
