"""C15 - ui.json validation accepts exactly the valid values, statelessly.

Part A (truth table): every form kind x every combination of the switches that decide whether
None is allowed x every value of the kind's lattice x every entry point, executed on the real
library with a FRESH object per execution; verdict compared with the reference predicate of
mc/c15_fix.py (a literal reading of the statement / of params.rst).
Part N: same for the new-style Parameter / FormParameter / EnforcerPool / UIJson / pydantic forms
(type, choice list, well-formed identifier, membership; these classes declare no None rule).
Part B (histories): all call sequences up to the depth bound on the SAME validator,
InputValidation, InputFile, Parameter, FormParameter, EnforcerPool, UIJson; the verdict of every call
must equal the reference for the CURRENT form and the verdict of a fresh object, and a refused
call must leave data / form / stored value as they were.   DESIGN.md section 4, C15.
"""

from __future__ import annotations

from .. import c15_fix as F
from .. import c15_hist as H
from .. import c15_new as N
from .. import core

QUICK_SWITCH_KINDS = ("float", "data")
ENTRIES = ("validate", "validate_data", "ctor_data", "data_setter", "set_data_value", "form_value")


clone, outcome, numified = F.clone, F.outcome, F.numified


# ---------------------------------------------------------------------------
# Part A
# ---------------------------------------------------------------------------
def run_entry(fix, kind, cfg, entry, vspec):
    """Execute one (form, value, entry point) on fresh objects.  Returns (outcome | None, effective
    value is None?) - None when the entry point does not apply to this case."""
    from geoh5py.ui_json import InputFile
    from geoh5py.ui_json.validation import InputValidation

    value = fix.value(vspec)
    uj, data = F.build_ui_json(fix, kind, cfg)
    data["target"] = value
    is_none = value is None
    if entry == "validate":
        if kind in F.ASSOCIATED:
            return None, is_none  # the rule table names the parent parameter; needs the data set
        return outcome(lambda: InputValidation(ui_json=clone(uj)).validate("target", value)), is_none
    if entry == "validate_data":
        return outcome(lambda: InputValidation(ui_json=clone(uj)).validate_data(clone(data))), is_none
    if entry == "ctor_data":
        return outcome(lambda: InputFile(ui_json=clone(uj), data=clone(data))), is_none
    if entry == "data_setter":

        def call():
            ifile = InputFile(ui_json=clone(uj))
            ifile.data = clone(data)

        return outcome(call), is_none
    if entry == "set_data_value":
        made = []

        def init():
            made.append(InputFile(ui_json=clone(uj)))
            return made[0].data

        first = outcome(init)
        if first[0] != "ok":
            # no initial state.  A crash while building is the form's fault, whatever the value is:
            # it is reported once, through the entry points that need no initial data.
            return None, is_none
        if F.switches(made[0].ui_json) != F.switches(uj):
            return None, is_none  # reading the data edited the switches: judged in part B
        return outcome(lambda: made[0].set_data_value("target", value)), is_none
    if entry == "form_value":
        if cfg["dep"] != "none" and not cfg["copt"] and cfg["cen"] is False:
            # the controller itself is a disabled non-optional parameter: its own stored value is
            # read as None and refused, whatever the target holds
            return None, is_none
        if F.KINDS[kind].get("typed_by_value") and vspec[0] == "lit" and not isinstance(value, type(F.KINDS[kind]["form"]["value"])):
            return None, is_none  # the form declares its type through this very value
        uj2, _ = F.build_ui_json(fix, kind, cfg, target_value=value)
        effective = None if cfg["en"] is False else numified(value)
        return outcome(lambda: InputFile(ui_json=clone(uj2)).data), effective is None
    raise ValueError(entry)


def form_loads(fix, kind, cfg):
    """Can the library load this form at all (rule table inferred)?  A crash here is independent
    of the value and of the entry point; it is reported once per deciding level."""
    from geoh5py.ui_json.validation import InputValidation

    uj, _ = F.build_ui_json(fix, kind, cfg)
    return outcome(lambda: InputValidation(ui_json=clone(uj)))


def judge_a(kind, cfg, entry, sym, expected, got, is_none, loads):
    """-> (clause, rule label, member, detail) or None.  The signature is built later from the
    rule label and the SET of members (entry/kind) that break it."""
    if got is None:
        return None
    accepted = got[0] == "ok"
    required, level = F.ref_requires(cfg)
    detail = {"kind": kind, "cfg": F.cfg_key(cfg), "entry": entry, "value": sym, "got": list(got)}
    want = (not required) if is_none else expected
    if accepted == want:
        return None
    # the switch logic does not look at the kind of form: those signatures list entry points only
    # (so that both tiers, which sweep the switches over different sets of kinds, agree on them)
    if not accepted and loads[0] != "ok" and got == loads:
        return ("valid-value-accepted", f"form-cannot-be-loaded|{level}|{got[1]}", f"{entry}/*", detail)
    if is_none:
        detail["required_by_reference"] = required
        how = "accepted" if accepted else "refused|" + got[1]
        return ("none-allowed-iff-no-value-required", f"{level}|None-{how}", f"{entry}/*", detail)
    if expected:
        return ("valid-value-accepted", f"{sym}|{got[1]}", f"{entry}/{kind}", detail)
    return ("invalid-value-refused", RULE_OF.get(sym, sym), f"{entry}/{kind}", detail)


# value symbols that break the same rule in the same representation share one rule label
RULE_OF = {"other-parent-str": "non-member-given-as-uuid-string", "other-workspace-str": "non-member-given-as-uuid-string",
           "unknown-str": "non-member-given-as-uuid-string"}


def lattice_of(kind):
    return [("none", ["none"], None)] + list(F.KINDS[kind]["values"])


_FIX = {}


def shared_fix(lazy):
    """Validation never writes to the workspaces, so one eager fixture serves every case of a
    worker process (a lazily loaded one is rebuilt per case: what is loaded is hidden state).
    Replays always build their own."""
    if lazy:
        return F.Fix(lazy=True)
    if "eager" not in _FIX:
        _FIX["eager"] = F.Fix()
    return _FIX["eager"]


def work_a(item):
    kind, cfg, syms, lazy = item
    fix = shared_fix(lazy)
    loads = form_loads(fix, kind, cfg)
    out = {"n": 0, "na": 0, "viol": [], "outcomes": set(), "sample": None}
    for sym, vspec, expected in lattice_of(kind):
        if syms is not None and sym not in syms:
            continue
        for entry in ENTRIES:
            got, is_none = run_entry(fix, kind, cfg, entry, vspec)
            if got is None:
                out["na"] += 1
                continue
            out["n"] += 1
            out["outcomes"].add((kind, sym, entry, got[0] if got[0] == "ok" else got[1]))
            bad = judge_a(kind, cfg, entry, sym, expected, got, is_none, loads)
            case = {"kind": kind, "cfg": cfg, "entry": entry, "sym": sym, "lazy": lazy}
            if out["sample"] is None and sym != "none":
                out["sample"] = dict(case, part="A", outcome=list(got))
            if bad:
                out["viol"].append((case, bad))
    return out


def members_text(members, label):
    """'entry/kind' members; an entry whose every applicable kind fails is written 'entry/*'."""
    by_entry = {}
    for m in members:
        e, k = m.split("/")
        by_entry.setdefault(e, set()).add(k)
    syms = {label.split("|")[0]} | {s for s, r in RULE_OF.items() if r == label}
    parts = []
    for e in ENTRIES:
        if e not in by_entry:
            continue
        applicable = {k for k in F.KINDS if syms & {v[0] for v in F.KINDS[k]["values"]}
                      and not (e == "validate" and k in F.ASSOCIATED)}
        if "*" in by_entry[e] or by_entry[e] >= applicable:
            parts.append(f"{e}/*")
        else:
            parts.append(f"{e}/" + "+".join(k for k in F.KINDS if k in by_entry[e]))
    return ",".join(parts)


def aggregate_a(viols):
    """[(case, (clause, label, member, detail))] -> [(clause, witness, history, detail)].
    One signature per (clause, rule label).  The witness is the rule label plus the FIRST failing
    entry point / kind in the fixed order of ENTRIES x KINDS (simplest form first); every other
    failing member is listed in the detail only, so the signature does not move when another
    defect is repaired or the lattice grows."""
    order = {F.cfg_key(c): i for i, c in enumerate(F.all_switch_configs())}
    kinds = list(F.KINDS) + ["*"]
    groups = {}
    for case, (clause, label, member, detail) in viols:
        g = groups.setdefault((clause, label), {})
        rank = (case["lazy"], order[F.cfg_key(case["cfg"])])
        if member not in g or rank < g[member][0]:
            g[member] = (rank, case, detail)
    out = []
    for (clause, label), g in sorted(groups.items()):
        first = min(g, key=lambda m: (ENTRIES.index(m.split("/")[0]), kinds.index(m.split("/")[1])))
        _, case, detail = g[first]
        out.append((clause, f"{label}|first-at:{first}", {"part": "A", "cases": [case]},
                    dict(detail, failing_members=len(g), all_failing=members_text(g.keys(), label))))
    return out


def replay_a(h):
    fixes = {}
    viols = []
    for case in h["cases"]:
        lazy = case.get("lazy", False)
        if lazy not in fixes:
            fixes[lazy] = F.Fix(lazy=lazy)
        fix = fixes[lazy]
        kind, cfg = case["kind"], case["cfg"]
        vspec, expected = {s: (v, e) for s, v, e in lattice_of(kind)}[case["sym"]]
        got, is_none = run_entry(fix, kind, cfg, case["entry"], vspec)
        bad = judge_a(kind, cfg, case["entry"], case["sym"], expected, got, is_none, form_loads(fix, kind, cfg))
        if bad:
            viols.append((case, bad))
    return [(c, w, d) for c, w, _, d in aggregate_a(viols)]


def items_a(ctx):
    cfgs = F.all_switch_configs()
    items = []
    if ctx.quick:
        # every switch combination on None + one valid + one invalid value for four kinds (the None
        # rule does not look at the kind); the whole value lattice of every kind on 18 corner forms.
        corners = [c for c in cfgs if c["grp"] in ("none", "on")
                   and (c["dep"], c["copt"], c["cen"], c["cval"], c["dtype"]) in (
                       ("none", False, None, None, None), ("ctl", False, None, True, None), ("ctl", True, False, True, "enabled"))
                   and (c["opt"], c["en"]) in ((False, None), (True, True), (True, False))]
        for kind, spec in F.KINDS.items():
            vals = spec["values"]
            few = {"none", vals[0][0], [v for v in vals if v[2] is False][0][0]}
            if kind in QUICK_SWITCH_KINDS:
                for cfg in cfgs:
                    items.append((kind, cfg, sorted(few), False))
            for cfg in corners:
                rest = {v[0] for v in vals} | {"none"}
                if kind in QUICK_SWITCH_KINDS:
                    rest -= few
                items.append((kind, cfg, sorted(rest), False))
    else:
        for kind in F.KINDS:
            for cfg in cfgs:
                items.append((kind, cfg, None, False))
        for kind in F.ASSOCIATED:
            for cfg in cfgs:
                if cfg["grp"] in ("none", "off") and (cfg["dep"] == "none" or (not cfg["copt"] and cfg["cen"] is None)):
                    items.append((kind, cfg, None, True))
    return items


def part_a(ctx):
    items = items_a(ctx)
    if ctx.seed:
        k = ctx.seed % len(items)
        items = items[k:] + items[:k]
    res = core.pmap(work_a, items)
    n = na = 0
    forms = set()
    viols = []
    for item, r in zip(items, res):
        n += r["n"]
        na += r["na"]
        forms.add((item[0], F.cfg_key(item[1]), item[3]))
        ctx.outcomes.update(r["outcomes"])
        if r["sample"] and len(ctx.samples) < 2:
            ctx.sample(r["sample"])
        viols += r["viol"]
    ctx.n_violating += len(viols)
    for clause, witness, hist, detail in aggregate_a(viols):
        ctx.violation(clause, witness, hist, detail)
        ctx.n_violating -= 1
    return {"forms": len(forms), "executions": n, "not_applicable": na, "violating_executions": len(viols)}


# ---------------------------------------------------------------------------
def run(ctx):
    a = part_a(ctx)
    n = N.run_part(ctx)
    b = H.run_part(ctx)
    ctx.cover(
        states=a["forms"] + n["objects"] + b["states"],
        transitions=a["executions"] + n["executions"] + b["calls"],
        traces_validated_against_impl=a["executions"] + n["executions"] + b["calls"],
        exhaustive=True,
        distinct_outcomes=len(ctx.outcomes),
        part_a=a,
        part_new_style=n,
        part_b=b,
        bound=(
            f"A: {len(F.KINDS)} form kinds x {len(F.all_switch_configs())} switch configurations x value lattice "
            f"x {len(ENTRIES)} entry points ({'quick: full switch product on None/valid/invalid, full lattice on corners' if ctx.quick else 'full product'}); "
            f"B: all call sequences of length <= {H.depth(ctx)} over each object's alphabet"
        ),
        alphabet={"kinds": list(F.KINDS), "entries": list(ENTRIES), "history_objects": H.object_names()},
    )
    ctx.assumptions += [
        "any exception is a refusal; exception classes are never compared (only recorded to tell a crash from a validation error)",
        "lists given to a non-multiSelect parameter, bool given to an integer parameter, meshType / dataType / association filters and file existence are outside the statement: not in the lattice",
        "InputValidation.validate(name, value) alone is not run on forms whose rule names another parameter (parent / geoh5): it needs the data set, which validate_data / InputFile supply",
        "new-style Parameter / FormParameter / EnforcerPool declare no required/optional rule: None is not judged there, only compared fresh-vs-used",
        "set_data_value cases whose initial InputFile.data is itself refused, or where reading the data edits the switches, are counted as not applicable in part A (histories cover them)",
        "trusted base: Workspace / Points / add_data / property groups used to build the fixtures",
    ]


def replay(history):
    part = history["part"]
    if part == "A":
        return replay_a(history)
    if part == "N":
        return N.replay(history)
    return H.replay(history)
