"""C06 - identifiers are unique within a workspace and stable across copies.

Explicit-state exploration over creations (fresh uid / uid of a live entity of the same or
another kind / uid of a removed entity), copies within and across workspaces (uid free or
taken in the target), removals, re-creations and re-opens.  Clauses: unique-live-identifiers,
unique-type-identifiers, reuse-refused, refusal-without-side-effects, lookup-returns-owner,
same-workspace-copy-fresh-ids, cross-workspace-copy-ids, one-type-per-class.  DESIGN.md §4 C06.
"""

from __future__ import annotations

from .. import treecheck
from ..treeprop import DROP_ASC, DROP_DESC, HOLD_ASC, HOLD_DESC, TreeProp

QUICK = [
    ("S1", DROP_ASC, 2, "IDS"),
    ("S2", HOLD_DESC, 1, "IDS"),
    ("S0", DROP_ASC, 3, "IDS"),
    ("S2r", DROP_ASC, 1, "IDS"),
    ("S6", DROP_ASC, 1, "IDS"),
    ("S2", DROP_ASC, 2, "COPYONLY"),
    ("S4", HOLD_DESC, 1, "IDS"),
    ("S1", DROP_ASC, 2, "PGDECL"),
]
THOROUGH = [
    ("S1", DROP_ASC, 3, "IDS"),
    ("S1", HOLD_DESC, 2, "IDS"),
    ("S2", HOLD_DESC, 2, "IDS"),
    ("S2", DROP_DESC, 2, "IDS"),
    ("S0", DROP_ASC, 4, "IDS"),
    ("S2r", DROP_ASC, 2, "IDS"),
    ("S4", HOLD_ASC, 2, "IDS"),
    ("S6", DROP_ASC, 2, "IDS"),
    ("S6", HOLD_DESC, 2, "IDS"),
    ("S2", DROP_ASC, 3, "COPYONLY"),
    ("S4", HOLD_DESC, 2, "COPYONLY"),
    ("S1", DROP_ASC, 3, "PGDECL"),
    ("S2", HOLD_DESC, 2, "PGDECL"),
]

P = TreeProp(
    "C06",
    treecheck.clauses_c06,
    treecheck.C06Protocol,
    QUICK,
    THOROUGH,
    assumptions=[
        "a request to reuse the uid of a REMOVED entity may be refused or honoured (the statement only fixes identifiers in use); either way the state must stay consistent",
    ],
)
run, replay = P.run, P.replay
