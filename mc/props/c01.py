"""C01 - re-opening a file yields exactly the state built through the API.

Explicit-state exploration of tree-alphabet histories; oracle (a) differential: live
snapshot immediately before the final close == snapshot of a fresh read-only opening;
(b) lock-step reference model == live snapshot (nothing lost / duplicated / resurrected).
GC and re-open points are deviation-bounded pseudo-operations.  DESIGN.md §4 C01.
"""

from __future__ import annotations

from .. import treecheck
from ..treeprop import DROP_ASC, DROP_DESC, GC_DROP, HOLD_ASC, HOLD_DESC, TreeProp

QUICK = [
    ("S4", DROP_ASC, 2, "RETYPE"),
    ("S7", DROP_ASC, 1, "DELCORE"),
    ("S1", DROP_ASC, 2, "FULL"),
    ("S2", HOLD_DESC, 1, "FULL"),
    ("S2r", DROP_ASC, 1, "FULL"),
    ("S0", HOLD_DESC, 3, "FULL"),
    ("S2", DROP_ASC, 2, "STRUCT"),
    ("S1r", HOLD_DESC, 2, "EDIT"),
]
THOROUGH = [
    ("S4", DROP_ASC, 3, "RETYPE"),
    ("S4", HOLD_DESC, 3, "RETYPE"),
    ("S7", DROP_ASC, 2, "DELCORE"),
    ("S1", DROP_ASC, 3, "FULL"),
    ("S2", HOLD_DESC, 2, "FULL"),
    ("S2", DROP_DESC, 2, "FULL"),
    ("S2r", DROP_ASC, 2, "FULL"),
    ("S4", HOLD_ASC, 2, "FULL"),
    ("S0", HOLD_ASC, 4, "FULL"),
    ("S1", HOLD_DESC, 3, "STRUCT"),
    ("S2", DROP_ASC, 2, "STRUCT"),
    ("S1r", HOLD_DESC, 3, "EDIT"),
    ("S2r", DROP_DESC, 2, "EDIT"),
    ("S2", GC_DROP, 2, "GCOPS"),
    ("S4", GC_DROP, 1, "GCOPS"),
]

P = TreeProp(
    "C01",
    treecheck.clauses_c01,
    ("live", "reopen"),
    QUICK,
    THOROUGH,
    assumptions=[
        "compared fields: uid, class, parent, name, six flags, geometry arrays, values, metadata, property-group membership; children as sets",
    ],
)
run, replay = P.run, P.replay
