"""C04 - concatenated drillhole storage keeps each hole's data intact and separate.

Explicit-state exploration (breadth first, canonical-key de-duplication) of histories over
the concatenated alphabet of mc/c04_exec.py, executed on the real library in lock-step with a
reference model.  Oracle clauses (each a sentence of the statement):

  hole-reads-back    every drillhole reads back exactly the values last written for each of its
                     data (live, and through a fresh read-only re-opening; copies too)
  table-view         DrillholesGroupTable.depth_table lists exactly the per-hole values, one
                     contiguous block per hole
  index-tiling       every concatenated array is exactly tiled by its index rows: no gap, overlap,
                     duplicate or stale row
  attribute-records  exactly one record per live hole, data set and property group; Property keys,
                     Concatenated object IDs
  file-content       the slices / records of the file hold the model's values (what re-opening
                     anywhere would read)
  others-untouched   an operation on one hole / data set changes no record or slice of another
"""

from __future__ import annotations

from .. import c04_exec as X
from .. import core, explorer

V20 = {"version": 2.0, "uid_order": "asc"}
V21 = {"version": 2.1, "uid_order": "asc"}
V20D = {"version": 2.0, "uid_order": "desc"}
V21D = {"version": 2.1, "uid_order": "desc"}
# the history is the body of a `with workspace:` block left through an exception
V20X = {"version": 2.0, "uid_order": "asc", "close_by": "raise"}
V21X = {"version": 2.1, "uid_order": "asc", "close_by": "raise"}

BASE = {
    "ops": ["add_hole", "add", "update", "rm_data", "rm_group", "rm_hole", "reopen"],
    "holes": ("A", "B"),
    "names": ("x", "y"),
    "groups": ("G",),
    "lens": {"depth": (0, 1, 2), "interval": (1, 2)},
    "nsurv": (1,),
    "via": ("ws", "parent"),
}
ALPHAS = {
    # building and deleting slices of shared labels, all lengths
    "BUILD": BASE,
    # everything, small argument domains
    "FULL": dict(BASE, ops=["add_hole", "copy_hole", "add", "update", "resurvey", "rename_hole", "rename_data", "rm_data", "rm_group",
                            "rm_protected", "rm_hole", "copy", "reopen"], groups=("G", "H"), lens={"depth": (2,), "interval": (1,)}, holes=("A", "B", "C")),
    # edits of an existing scene
    "EDIT": dict(BASE, ops=["add", "update", "resurvey", "rename_hole", "rm_data", "rm_group", "rm_protected", "rm_hole", "reopen"], groups=("G", "H"),
                 lens={"depth": (3,), "interval": (2,)}, holes=("A", "B", "C")),
    # removal then re-adding longer / shorter under the same name
    "READD": dict(BASE, ops=["add", "rm_data", "rm_group", "reopen"], groups=("G", "H"), lens={"depth": (0, 1, 3), "interval": (1, 2)},
                  holes=("A", "B", "C")),
    # hole level: holes come and go, surveys change length
    "HOLES": dict(BASE, ops=["add_hole", "copy_hole", "resurvey", "rename_hole", "rm_hole", "add", "reopen"], names=("x",), groups=("G",),
                  lens={"depth": (1, 2), "interval": (1,)}, holes=("A", "B", "C"), nsurv=(1, 2)),
    # copies of the whole group
    "COPY": dict(BASE, ops=["add", "update", "rm_data", "rm_hole", "copy", "reopen"], groups=("G", "H"), lens={"depth": (1,), "interval": (1,)},
                 holes=("A", "B", "C")),
    # second depth table per hole, padding of short value arrays, adding through the group only
    "TABLES": dict(BASE, ops=["add", "update", "rm_data", "rm_group", "reopen"], groups=("G", "K", "H"), lens={"depth": (1, 2), "interval": (1,)},
                   holes=("A", "B", "C"), short=True, how=("loc", "grp")),
    # text data under a label shared between holes: entries of growing width
    "TEXT": dict(BASE, ops=["add_hole", "add", "update", "rm_data", "reopen"], names=("t",), lens={"depth": (1, 2), "interval": (1,)},
                 holes=("A", "B", "C"), via=("ws",)),
}

QUICK = [
    ("S0", V20, 4, "BUILD"),
    ("S2", V21, 2, "FULL"),
    ("S3", V20X, 2, "EDIT"),
    ("S1", V20D, 3, "HOLES"),
    ("S2r", V20, 2, "COPY"),
    ("S5", V21, 2, "TABLES"),
    ("S6", V21D, 2, "READD"),
    ("S1", V20, 3, "TEXT"),
]
THOROUGH = [
    ("S0", V21D, 5, "BUILD"),
    ("S0", V20X, 4, "BUILD"),
    ("S2", V20, 2, "FULL"),
    ("S3r", V21X, 2, "EDIT"),
    ("S3", V21, 3, "READD"),
    ("S6r", V20D, 2, "READD"),
    ("S1", V20, 4, "HOLES"),
    ("S1r", V21D, 3, "HOLES"),
    ("S2", V20, 3, "COPY"),
    ("S2r", V21X, 3, "COPY"),
    ("S5", V20, 3, "TABLES"),
    ("S1", V21, 4, "TEXT"),
]


def run_one(history):
    return X.execute_forked(history, ALPHAS[history["alpha"]])


def replay(history):
    return X.execute(history, ALPHAS[history["alpha"]])["viol"]


def _merge_crosscheck(seed_h, depth):
    """The argument for merging histories by canonical key, checked: ALL histories up to
    `depth` are executed without merging; histories with equal keys must have equal verdicts,
    equal enabled operations and equal multisets of successor keys."""
    level = [dict(seed_h)]
    by_key = {}
    n = 0
    results = {}
    for d in range(depth + 1):
        res = core.pmap(run_one, level)
        n += len(level)
        nxt = []
        for h, r in zip(level, res):
            results[core.jdump(h["ops"])] = r
            if d < depth:
                for op in r["succ"]:
                    nxt.append(dict(h, ops=h["ops"] + [op]))
        level = nxt
    by_key_inner = {}
    for ops_s, r in results.items():
        ops = __import__("json").loads(ops_s)
        sig = core.jdump([sorted(f"{c}|{w}" for c, w, _ in r["viol"]), r["succ"]])
        by_key.setdefault(r["key"], {}).setdefault(sig, ops)
        if len(ops) < depth:  # successors were executed too: compare them as well
            kids = sorted(results[core.jdump(ops + [op])]["key"] for op in r["succ"])
            by_key_inner.setdefault(r["key"], {}).setdefault(core.jdump(kids), ops)
    bad = {k: v for k, v in list(by_key.items()) + list(by_key_inner.items()) if len(v) > 1}
    if bad:
        k, v = next(iter(bad.items()))
        raise core.HarnessError(f"canonical key merges histories that behave differently: {list(v.values())[:2]}")
    return {"histories": n, "distinct_keys": len(by_key)}


def run(ctx):
    budget = {"reopen": 1, "copy": 1} if ctx.quick else {"reopen": 2, "copy": 1}
    total = {"states": 0, "transitions": 0, "model_states": 0}
    runs = []
    seeds = []
    for scene, cfg, depth, alpha in QUICK if ctx.quick else THOROUGH:
        seed_h = {"property": "C04", "cfg": cfg, "scene": scene, "alpha": alpha, "ops": []}
        st = explorer.explore(ctx, run_one, [seed_h], depth, cost=X.deviations, budget=budget)
        runs.append({"scene": scene, "cfg": cfg, "depth": depth, "alphabet": alpha,
                     **{k: st[k] for k in ("states", "transitions", "model_states", "levels")}})
        for k in total:
            total[k] += st[k]
        seeds.append(seed_h)
    probe = dict(seeds[1], ops=[["update", "A", "x"], ["reopen"], ["rm_data", "B", "x", "ws"]])
    ndet = explorer.determinism_check(run_one, [seeds[0], probe])
    for h in (seeds[0], probe):
        a, b = run_one(h), X.execute(h, ALPHAS[h["alpha"]])
        if core.jdump(a) != core.jdump(b):
            raise core.HarnessError(f"forked and plain execution disagree on {h}")
    cross = _merge_crosscheck({"property": "C04", "cfg": V20, "scene": "S1", "alpha": "BUILD", "ops": []}, 2 if ctx.quick else 3)
    total["transitions"] += cross["histories"]
    import json as _json

    refused, accepted = {}, {}
    for o in ctx.outcomes:
        try:
            kind, res = _json.loads(o)[:2]
        except (TypeError, ValueError):
            continue
        if res == "-":
            continue  # the scene itself (no operation)
        tgt = accepted if res == "ok" else refused
        tgt[f"{kind}:{res}"] = tgt.get(f"{kind}:{res}", 0) + 1
    ctx.cover(
        states=total["states"],
        transitions=total["transitions"],
        traces_validated_against_impl=total["transitions"],
        model_states=total["model_states"],
        distinct_outcomes=len(ctx.outcomes),
        deviation_budget_completed=budget,
        alphabets={r["alphabet"]: ALPHAS[r["alphabet"]] for r in runs},
        scenes={r["scene"]: X.SCENES[r["scene"]] for r in runs},
        runs=runs,
        determinism_replays=ndet,
        fork_vs_plain_crosscheck=2,
        nomerge_crosscheck=cross,
        distinct_outcomes_by_last_operation={"accepted": accepted, "refused": refused},
        exhaustive=True,
        bound="all histories over the listed alphabet up to runs[].depth operations after the scene; <=3 holes, <=3 data names, <=3 property "
              "groups per hole, array lengths 0..3, format versions 2.0 and 2.1, <=1 group copy and <=1 (quick) / 2 (thorough) re-open per history",
    )
    ctx.assumptions += [
        "bounded: scenes, depths, alphabets and deviation budget as listed in coverage.runs; nothing is claimed beyond",
        "float data only (every value a float32-exact tag); other primitive types are C08's subject",
        "an operation the library refuses (raises) leaves the model unchanged; such a history is observed (witness prefix after-refused-) but not extended",
        "order of holes inside a table and order of rows inside an index are not compared (statement silent); the rows of one hole must be contiguous",
        "a state whose live objects no longer show the model (known findings D2, D3) is continued only through a re-open; nothing is explored after "
        "rename_data (known finding D1) nor after a group copy that was already wrong when made",
        "rm_protected (workspace.remove_entity on the library-protected DEPTH / FROM data) must leave the model's state: the reference keeps the data",
        "cfg close_by=raise: every close of that run is `with workspace: raise` (exit of a with-block through an exception)",
        "after a group copy, operations go on on the source only; the copy must keep equal to the state it was copied from",
        "table-view is judged only where the per-hole reading of the same observer holds; file-content only where the file structure holds",
    ]
