"""C13 - spatial selection returns exactly what lies inside the box.

Exhaustive enumeration (DESIGN.md §4 C13, §2.5) of a catalogue of objects x the lattice of
box order types (per axis every pair lo <= hi from {coordinates returned by the object,
midpoints of neighbours, min-1, max+1}; 2- and 3-column extents; inverse F/T), executed on
the real library: `mask_by_extent` on every box, `copy_from_extent` on the order-type
quotient (per distinct selection a face-touching and a loose representative), data-level
`mask_by_extent` / `copy_from_extent`, and a second selection on first-level copies.
Oracle: mc/c13_oracle.py (independent closed point-in-box test, clauses = sentences of the
statement).
"""

from __future__ import annotations

import itertools

import numpy as np

from .. import core, world
from .. import c13_lib as L
from .. import c13_oracle as O

PROP = "C13"


# ---------------------------------------------------------------------------
# executing and judging one step
# ---------------------------------------------------------------------------
def _find_data(ent, name):
    for ch in ent.children:
        if getattr(ch, "name", None) == name and hasattr(ch, "association"):
            return ch
    raise KeyError(name)


def call(ent, step, twin=None):
    ext = np.array(step["ext"], dtype=float)
    inv = bool(step["inverse"])
    try:
        if step["op"] == "mask":
            return ent.mask_by_extent(ext, inverse=inv)
        if step["op"] == "copy":
            return ent.copy_from_extent(ext, inverse=inv)
        if step["op"] == "data_mask":
            return _find_data(ent, step["data"]).mask_by_extent(ext, inverse=inv)
        if step["op"] == "data_copy":
            return _find_data(twin if twin is not None else ent, step["data"]).copy_from_extent(ext, inverse=inv)
    except Exception as err:  # a refusal of the library is an outcome to be judged
        return err
    raise ValueError(step["op"])


def judge(rec, step, res):
    ext, inv = step["ext"], bool(step["inverse"])
    if step["op"] == "mask":
        if rec["kind"] == "group":
            return []
        return O.judge_mask(rec, ext, inv, res)
    if step["op"] == "copy":
        return O.judge_copy(rec, ext, inv, res)
    if step["op"] == "data_mask":
        return O.judge_data_mask(rec, step["data"], ext, inv, res)
    if step["op"] == "data_copy":
        return O.judge_data_copy(rec, step["data"], ext, inv, res)
    raise ValueError(step["op"])


AFTER = " (after an earlier copy_from_extent on the same object)"


def disturbed_witness(rec):
    return (f"{L.CLASSNAME.get(rec['kind'], rec['kind'])}: an earlier copy_from_extent altered the source's data, "
            "so a later selection on the same object no longer yields the selection")


def run_steps(spec, steps):
    """Fresh workspace, build the object, run the steps in sequence and judge each step against the
    record its subject had when it became the subject.  A copy becomes the subject of the following
    steps, unless the step says "stay": then the following steps select again on the same object and
    are still judged against its ORIGINAL record (a selection must not depend on earlier selections)."""
    from geoh5py.workspace import Workspace

    world.reset("asc")
    ws = Workspace()
    fails = []
    try:
        cur = L.build(ws, spec)
        rec = L.record(cur)
        again = False
        for step in steps:
            res = call(cur, step)
            got = judge(rec, step, res)
            if again:
                got = [(c, w + AFTER, d) for c, w, d in got]
            fails += got
            if step["op"] == "copy":
                if step.get("stay"):
                    again = True
                    if core.digest(_plain(L.record(cur))) != core.digest(_plain(rec)):
                        fails.append(("copy-is-the-selection", disturbed_witness(rec),
                                      {"altered_by": step, "object": L.label(spec)}))
                    continue
                if res is None or isinstance(res, Exception):
                    break
                cur, again = res, False
                rec = L.record(cur)
    finally:
        ws.close()
    return fails


def replay(history):
    return run_steps(history["spec"], history["steps"])


# ---------------------------------------------------------------------------
# per-object enumeration (runs inside a worker)
# ---------------------------------------------------------------------------
def _category(rec, res, ext):
    if isinstance(res, Exception):
        return "exception"
    if res is None:
        return "none-miss" if L.misses_bbox(rec["coords"], ext) else "none-hit"
    if isinstance(res, np.ndarray):
        return "all" if res.all() else ("partial" if res.any() else "empty-mask")
    return "entity"


def _popcount(x):
    return bin(int(x)).count("1")


def _data_names(rec):
    out = []
    for name, d in rec.get("data", {}).items():
        if not isinstance(d["values"], np.ndarray):
            continue
        if rec["kind"] == "points" and d["assoc"] == "VERTEX":
            out.append(name)
        elif rec["kind"] in ("grid2d", "blockmodel", "octree") + L.CELL_KINDS and d["assoc"] == "CELL":
            out.append(name)
    return out


class Acc:
    def __init__(self, spec):
        self.spec = spec
        self.n = {"mask": 0, "copy": 0, "data_mask": 0, "data_copy": 0, "copy2": 0}
        self.states = 0
        self.viol = {}
        self.where = {}
        self.n_viol = 0
        self.outcomes = set()
        self.sample = None
        self.srclog = []

    def record(self, steps, fails, log=None):
        for clause, witness, detail in fails:
            self.n_viol += 1
            key = (clause, witness)
            if key not in self.viol:
                self.viol[key] = (clause, witness, detail, {"spec": self.spec, "steps": steps})
                # earlier copies made on the same subject (candidates for an order-dependent violation)
                self.where[key] = (steps[:-1], list(log or []), steps[-1])


def _enumerate_subject(acc, ent, rec, twin, combos, opts, prefix, depth):
    """All boxes / class representatives for one subject (the source, or a first-level copy)."""
    cls = L.CLASSNAME[rec["kind"]]
    data_names = _data_names(rec)[:1] if opts.get("data_ops") and depth == 1 else []
    firsts = []
    log = acc.srclog if depth == 1 else []  # copy_from_extent calls already made on this subject
    for ncols, inverse in combos:
        if len(rec["coords"]) == 0:
            continue
        lat = L.Lattice(rec["coords"], ncols)
        codes, miss, touch = lat.tables()
        classes = sorted({int(c) for c in np.unique(codes) if c != 0}, key=lambda c: (_popcount(c), c))
        # empty-selection representatives: one per (misses bbox, touches a coordinate)
        empties = []
        zero = np.where(codes == 0)[0]
        seen = set()
        for i in zero:
            key = (bool(miss[i]), bool(touch[i]))
            if key not in seen:
                seen.add(key)
                empties.append(lat.box_at(int(i)))
                if len(seen) == 4:
                    break
        # representatives per distinct selection; the vectorised class code and the literal oracle must agree on
        # each (harness self-check).  With coordinates one ulp apart no float lies between two neighbours, so a
        # loose / half-touching representative may not exist: those are dropped, the tight one always exists.
        reps = {}
        for c in classes:
            reps[c] = {}
            for nm, ext in lat.class_reps(c).items():
                ins = L.inside(rec["coords"], ext)
                code = sum(1 << i for i, b in enumerate(ins) if b)
                if code == c:
                    reps[c][nm] = ext
                elif nm == "tight":
                    raise RuntimeError(f"tight representative of {c} selects {code}: {ext}")
        full = depth == 1 and lat.n_boxes <= opts["full_cap"]
        # ---- masks
        if depth == 1 and rec["kind"] != "group":  # a group's own mask is not judged, so it is not executed either
            if full:
                boxes = lat.boxes()
            else:
                seenb, boxes = set(), []
                for ext in itertools.chain((e for c in classes for e in reps[c].values()), empties, lat.sweeps()):
                    k = core.jdump(ext)
                    if k not in seenb:
                        seenb.add(k)
                        boxes.append(ext)
            for ext in boxes:
                step = {"op": "mask", "ext": ext, "inverse": inverse}
                res = call(ent, step)
                acc.n["mask"] += 1
                acc.states += 1
                fails = judge(rec, step, res)
                if fails:
                    acc.record(prefix + [step], fails, log)
                acc.outcomes.add((cls, "mask", ncols, inverse, _category(rec, res, ext)))
            acc.outcomes.add((cls, "regime", "full" if full else "quotient"))
        # ---- class representatives for the heavier operations
        rep_names = ["tight", "loose"] if (rec["kind"] == "grid2d" and not inverse) else ["tight"]
        if depth == 2:
            rep_names = ["tight"]
        copy_boxes = [(c, nm, reps[c][nm]) for c in classes for nm in rep_names if nm in reps[c]] + [(0, "empty", e) for e in empties]
        if depth == 2 and opts.get("depth2_cap"):
            copy_boxes = copy_boxes[: opts["depth2_cap"]]
        for name in data_names:
            for c, nm, ext in copy_boxes:
                step = {"op": "data_mask", "data": name, "ext": ext, "inverse": inverse}
                res = call(ent, step)
                acc.n["data_mask"] += 1
                fails = judge(rec, step, res)
                if fails:
                    acc.record(prefix + [step], fails, log)
                acc.outcomes.add((cls, "data_mask", ncols, inverse, _category(rec, res, ext)))
                if nm == "loose" or twin is None:
                    continue
                step = {"op": "data_copy", "data": name, "ext": ext, "inverse": inverse}
                res = call(ent, step, twin=twin)
                acc.n["data_copy"] += 1
                fails = judge(rec, step, res)
                if fails:
                    acc.record(prefix + [step], fails, log)
        if rec["kind"] in ("curve", "surface"):
            for c in classes:
                acc.outcomes.add((cls, "vertex-subset", acc.spec.get("tag", "").split("/")[1] if depth == 1 else "copy", c if depth == 1 else 0))
        for c, nm, ext in copy_boxes:
            step = {"op": "copy", "ext": ext, "inverse": inverse}
            res = call(ent, step)
            acc.n["copy" if depth == 1 else "copy2"] += 1
            acc.states += 1
            fails = judge(rec, step, res)
            if fails:
                acc.record(prefix + [step], fails, log)
            log.append(step)
            cat = _category(rec, res, ext)
            acc.outcomes.add((cls, "copy", ncols, inverse, cat, depth))
            if acc.sample is None and cat == "entity" and c and _popcount(c) < len(rec["coords"]):
                acc.sample = {"object": L.label(acc.spec), "steps": prefix + [step], "selected": _popcount(c),
                              "of": len(rec["coords"]), "failing_clauses": [f[0] for f in fails]}
            if depth == 1 and nm == "tight" and cat == "entity" and not fails and opts.get("depth2") \
                    and rec["kind"] in opts["depth2"]:
                firsts.append((step, res))
    # ---- second selection on the first-level copies
    for step, cop in firsts:
        rec2 = L.record(cop)
        if rec2["kind"] == "group" or len(rec2["coords"]) == 0:
            continue
        ncols = len(step["ext"][0])
        _enumerate_subject(acc, cop, rec2, None, [(ncols, False), (ncols, True)], opts, prefix + [step], 2)


def run_item(item):
    from geoh5py.workspace import Workspace

    import time

    t0 = time.process_time()
    spec, combos, opts = item["spec"], item["combos"], item["opts"]
    world.reset("asc")
    ws = Workspace()
    acc = Acc(spec)
    try:
        ent = L.build(ws, spec)
        rec = L.record(ent)
        before = core.digest(_plain(rec))
        twin = L.build(ws, spec, name="twin") if opts.get("data_ops") and _data_names(rec) else None
        _enumerate_subject(acc, ent, rec, twin, [tuple(c) for c in combos], opts, [], 1)
        disturbed = core.digest(_plain(L.record(ent))) != before
    finally:
        ws.close()
    viol, dropped = [], 0
    seen = set()

    def keep(fails, hist):
        for c, w, d in fails:
            if (c, w) not in seen:
                seen.add((c, w))
                viol.append((c, w, d, hist))

    # every violation must reproduce alone in a fresh workspace.  One that does not depends on an earlier
    # selection made on the same object: it is reported as the sequence [earlier copy (stay), failing step],
    # judged against the object's original record.
    for key, (clause, witness, detail, hist) in acc.viol.items():
        again = replay(hist)
        if key in {(c, w) for c, w, _ in again}:
            keep([f for f in again if (f[0], f[1]) == key], hist)
            continue
        prefix, log, step = acc.where[key]
        if step in log:
            log = log[: log.index(step)]
        stays = [dict(e, stay=True) for e in log]
        found = False
        for cand in [[e] for e in stays[:60]] + [stays]:
            h = {"spec": spec, "steps": prefix + cand + [step]}
            got = replay(h)
            if any(c == clause and w == witness + AFTER for c, w, _ in got):
                keep(got, h)
                found = True
                break
        if not found:
            dropped += 1
    # the selections altered the source itself: show it with a second selection on the same object
    if disturbed:
        coords = rec["coords"]
        probe = {"op": "copy", "inverse": False,
                 "ext": [[float(coords[:, k].min()) - 1.0 for k in range(3)], [float(coords[:, k].max()) + 1.0 for k in range(3)]]}
        stays = [dict(e, stay=True) for e in acc.srclog]
        for cand in [[e] for e in stays[:80]] + [stays]:
            h = {"spec": spec, "steps": cand + [probe]}
            got = replay(h)
            if any(w == disturbed_witness(rec) for _, w, _ in got):
                keep(got, h)
                break
        else:
            dropped += 1
    return {"n": acc.n, "states": acc.states, "viol": viol, "n_viol": acc.n_viol, "outcomes": sorted(acc.outcomes, key=repr),
            "sample": acc.sample, "label": L.label(spec), "cpu": time.process_time() - t0, "dropped": dropped}


def _plain(rec):
    if rec["kind"] == "group":
        return {"kind": "group", "children": [_plain(c) for c in rec["children"]]}
    return {k: v for k, v in rec.items() if k != "name"}


# ---------------------------------------------------------------------------
# catalogue per tier
# ---------------------------------------------------------------------------
ALL4 = [(2, False), (2, True), (3, False), (3, True)]


def catalogue(quick):
    """[(spec, opts)] simplest first."""
    items = []
    base = {"full_cap": 4000 if quick else 40000, "data_ops": True, "depth2": [], "depth2_cap": 0}
    everything = 10 ** 9

    def add(spec, **kw):
        items.append((spec, dict(base, **kw)))

    # point clouds: every subset of size 1-3 of the lattice (quick: size 3 only through the lattice origin)
    lattice = L.LATTICE_Q if quick else L.LATTICE_T
    for spec in L.clouds(lattice, 3):
        if quick and len(spec["v"]) == 3 and spec["v"][0] != [0.0, 0.0, 0.0]:
            continue
        d2 = ["points"] if spec["v"] == [[0.0, 0.0, 0.0], [1.0, 1.0, 0.0], [2.0, 1.0, 1.0]] else []
        # quick: data-level operations on the clouds of size 1 and 3 only (size 2 adds no new data path)
        add(spec, full_cap=(base["full_cap"] if quick else everything), depth2=d2,
            data_ops=not (quick and len(spec["v"]) == 2))
    # drillholes (collar only / with a survey)
    add(L.drillhole_spec([1.0, 2.0, 0.5]), full_cap=everything)
    add(L.drillhole_spec([1.0, 2.0, 0.5], surveys=[[0.0, 10.0, -80.0], [5.0, 12.0, -75.0]]), full_cap=everything)
    # curves / surfaces of the C07 catalogue placed on the lattice
    for place in (["A", "D"] if quick else list(L.PLACE4)):
        for cells in L.CURVE_CELLS:
            add(L.curve_spec(place, cells), full_cap=everything, depth2=["curve"] if (place == "A" or not quick) else [])
    perms = list(itertools.permutations(range(4)))
    for place in (["A"] if quick else ["A", "B"]):
        for perm in (perms[1::8] if quick else perms[1:]):
            for cells in (["chain", "star"] if quick else L.CURVE_CELLS):
                add(L.curve_spec(place, cells, perm=list(perm)), full_cap=everything)
    for place in (["A"] if quick else list(L.PLACE5)):
        for cells in L.SURF_CELLS:
            add(L.surface_spec(place, cells), full_cap=everything, depth2=["surface"] if (cells != "fan" or not quick) else [])
    # surveys overriding copy / copy_from_extent: tipper receivers with base stations, DC potentials with currents
    for cells in (["two_parts"] if quick else ["chain", "two_parts", "star"]):
        for n_base in (4, 1):
            add(L.tipper_spec("A", cells, n_base), full_cap=0)
        add(L.dc_spec("A", cells), full_cap=0)
    # 2-D grids
    if quick:
        shapes = [(1, 1), (2, 2), (3, 2), (2, 3)]
        for nu, nv in shapes:
            for size in (L.SIZES if (nu, nv) == (2, 2) else L.SIZES[:1]):
                for rot in L.ROTATIONS:
                    for dip in L.DIPS:
                        if nu * nv == 6 and (rot, dip) not in ((30.0, 0.0), (30.0, 30.0), (-45.0, 30.0), (0.0, 0.0)):
                            continue
                        if size != L.SIZES[0] and rot != 30.0:
                            continue
                        if nu * nv == 1 and rot not in (0.0, 30.0):
                            continue
                        d2 = ["grid2d"] if (nu, nv, size, rot, dip) in (
                            (2, 2, L.SIZES[0], 30.0, 30.0), (2, 2, L.SIZES[0], -45.0, 0.0)) else []
                        data = ("fc", "ic") if (nu, nv) == (2, 2) else ("fc",)
                        add(L.grid2d_spec(nu, nv, size, rot, dip, L.ORIGINS[1], data=data), depth2=d2)
        for rot, dip in ((30.0, 0.0), (-45.0, 30.0)):
            add(L.grid2d_spec(3, 3, L.SIZES[0], rot, dip, L.ORIGINS[1], data=("fc",)))
    else:
        for nu, nv in itertools.product((1, 2, 3), repeat=2):
            for size in L.SIZES:
                for rot in L.ROTATIONS:
                    for dip in L.DIPS:
                        for origin in L.ORIGINS:
                            d2 = ["grid2d"] if ((nu, nv) in ((2, 2), (2, 3)) and size == L.SIZES[0] and origin == L.ORIGINS[1]) else []
                            data = ("fc", "ic") if origin == L.ORIGINS[1] else ("fc",)
                            add(L.grid2d_spec(nu, nv, size, rot, dip, origin, data=data), depth2=d2)
    # block models and octrees
    for name in L.BLOCKS:
        for rot in (L.ROTATIONS[:2] if quick else L.ROTATIONS):
            add(L.block_spec(name, rot, L.ORIGINS[1]))
    for name in L.OCTREES:
        for rot in (L.ROTATIONS[:2] if quick else L.ROTATIONS):
            add(L.octree_spec(name, rot, L.ORIGINS[1]))
    # groups holding two of the above (one of them nested)
    members = [
        L.points_spec([(0, 0, 0), (1, 1, 0), (2, 2, 1)], data=("fv",)),
        L.curve_spec("A", "two_parts", data=("fv", "fc")),
        L.drillhole_spec([1.0, 1.0, 0.0]),
        L.grid2d_spec(2, 2, (1.0, 1.0), 30.0, 0.0, [0.0, 0.0, 0.0], data=("fc",)),
        L.block_spec("2x2x2", 0.0, [0.0, 0.0, 0.0], data=("fc",)),
        L.group_spec([L.drillhole_spec([2.0, 0.0, 1.0]), L.points_spec([(0, 2, 1)], data=("fv",))], tag="nested"),
    ]
    pairs = list(itertools.combinations(range(len(members)), 2))
    if quick:
        pairs = [(0, 2), (1, 5), (2, 3)]
    for i, j in pairs:
        add(L.group_spec([members[i], members[j]]), full_cap=0, data_ops=False)
    # other data kinds following their elements (text, boolean, referenced; object-level data alongside)
    kinds = [
        L.points_spec([(0, 0, 0), (1, 1, 0), (2, 2, 1)], data=("tv", "to")),
        L.points_spec([(0, 0, 0), (1, 1, 0), (2, 2, 1)], data=("bv", "rv", "fo")),
        L.curve_spec("A", "two_parts", data=("tv", "tc")),
        L.curve_spec("A", "chain", data=("bv", "rv", "ic", "iv")),
        L.grid2d_spec(2, 2, (1.0, 1.0), 30.0, 0.0, [0.0, 0.0, 0.0], data=("fc", "to")),
        L.grid2d_spec(2, 2, (1.0, 1.0), 30.0, 0.0, [0.0, 0.0, 0.0], data=("fc", "fo")),
    ]
    for spec in kinds:
        add(spec, full_cap=0, data_ops=False)
    return items


def split(items):
    """One work item per (object, column count, inverse) for the heavier objects."""
    out = []
    for spec, opts in items:
        if spec["kind"] in ("points", "drillhole"):
            out.append({"spec": spec, "combos": ALL4, "opts": opts})
        else:
            for combo in ALL4:
                out.append({"spec": spec, "combos": [combo], "opts": opts})
    return out


def run(ctx):
    import os

    items = split(catalogue(ctx.quick))
    only = os.environ.get("C13_ONLY")  # development aid: restrict the catalogue to some kinds (evidence says so)
    if only:
        items = [it for it in items if it["spec"]["kind"] in only.split(",")]
        ctx.assumptions.append(f"PARTIAL RUN: catalogue restricted to kinds {only}")
    results = core.pmap(run_item, items, chunksize=1 if len(items) < 4000 else 2)
    tot = {"mask": 0, "copy": 0, "data_mask": 0, "data_copy": 0, "copy2": 0}
    states = 0
    per_kind = {}
    for item, res in zip(items, results):
        for k, v in res["n"].items():
            tot[k] += v
        states += res["states"]
        kind = item["spec"]["kind"]
        pk = per_kind.setdefault(kind, {"objects": set(), "executions": 0, "cpu": 0.0})
        pk["cpu"] += res["cpu"]
        pk["objects"].add(core.digest(item["spec"]))
        pk["executions"] += sum(res["n"].values())
        for o in res["outcomes"]:
            ctx.outcomes.add(tuple(o))
        ctx.n_violating += max(0, res["n_viol"] - len(res["viol"]))
        for clause, witness, detail, hist in res["viol"]:
            ctx.violation(clause, witness, hist, detail)
        if res["sample"] is not None and kind not in {s.get("kind") for s in ctx.samples}:
            ctx.sample(dict(res["sample"], kind=kind), cap=8)
    dropped = sum(r.get("dropped", 0) for r in results)
    if dropped:
        ctx.assumptions.append(f"{dropped} violating execution(s) seen while objects were shared between selections could not be "
                               "reproduced by any replayed sequence and are not reported")
    transitions = sum(tot.values())
    subsets = len({o for o in ctx.outcomes if len(o) == 4 and o[1] == "vertex-subset" and o[2] != "copy"})
    ctx.cover(
        states=states,
        transitions=transitions,
        traces_validated_against_impl=transitions,
        exhaustive=not only,
        distinct_outcomes=len(ctx.outcomes),
        executions=tot,
        objects={k: len(v["objects"]) for k, v in per_kind.items()},
        executions_per_kind={k: v["executions"] for k, v in per_kind.items()},
        cpu_seconds_per_kind={k: round(v["cpu"], 1) for k, v in per_kind.items()},
        cell_object_vertex_subsets_reached=subsets,
        curve_pattern_x_vertex_subset_pairs_reached=f"{len({o for o in ctx.outcomes if len(o) == 4 and o[1] == 'vertex-subset' and o[0] == 'Curve' and o[2] != 'copy'})} of {6 * 15}",
        surface_pattern_x_vertex_subset_pairs_reached=f"{len({o for o in ctx.outcomes if len(o) == 4 and o[1] == 'vertex-subset' and o[0] == 'Surface' and o[2] != 'copy'})} of {4 * 31}",
        alphabet=["mask_by_extent(ext, inverse)", "copy_from_extent(ext, inverse)", "data.mask_by_extent", "data.copy_from_extent",
                  "copy_from_extent on the first-level copy"],
        bound=(
            "objects: point clouds = all subsets of size 1-3 of the lattice "
            + ("{0,1,2}x{0,1}x{0,1}" if ctx.quick else "{0,1,2}x{0,1,2}x{0,1}")
            + "; curves (4 vertices, 6 cell patterns) and surfaces (5 vertices, 4 patterns) on the lattice incl. vertex permutations; "
            "Grid2D (nU,nV) in {1,2,3}^2 x sizes x rotations {0,30,90,-45,180} x dips {0,30,90}"
            + (" (quick: <= 6 cells, one origin)" if ctx.quick else " x 2 origins")
            + "; BlockModel 2x2x2, 3x1x2; Octree 2x2x2, 4x2x2 (mixed levels); drillhole; groups of two members. "
            "boxes: per axis every pair lo<=hi from {coordinates, midpoints, min-1, max+1}, 2 and 3 columns, inverse F/T; "
            "full product executed when it has <= full_cap boxes, otherwise every distinct selection x {tight, loose, lo-touch, hi-touch} "
            "+ all per-axis order types with the other axes open; copies on one or two representatives per distinct selection; depth 2 on listed kinds"
        ),
    )
    ctx.assumptions += [
        "a group's own mask_by_extent (always None) is not judged: a group has no elements of its own; its copy_from_extent is judged member by member",
        "Grid2D with inverse=True: the statement's 'smallest sub-grid' sentence is read for inverse=False only; for inverse the copy must be a sub-grid of the source covering the selection with the other values blanked",
        "the bounding box of grid objects is taken over the cell centres (the most permissive reading of 'misses the bounding box')",
        "BlockModel/Octree copies cannot shrink: 'exactly that selection' is read as: selected cells keep their values, all others hold the no-data value",
        "order of vertices / cells in a copy is not compared (multisets of coordinates, of cells as coordinate tuples, and of (element, value) pairs)",
        "object-level data, property groups, names and other attributes of copies are not compared (C12)",
        "VERTEX data masks of curves/surfaces (Data.mask_by_extent) are not judged: the statement defines vertex retention through cells only",
        "computed Grid2D centres are matched with 1e-9 relative tolerance; box membership itself is exact on the coordinates the object returns",
        "surveys (tipper receivers, DC potential electrodes) are judged as the curves they are; their complement entities (base stations, currents) and the renumbered 'A-B Cell ID' data are not compared",
        "extents with lo > hi, other column counts, GeoImage, Label, NoType objects and other survey classes are outside the enumeration",
    ]
