"""C02 - every file the library writes is a structurally valid geoh5 file.

Exhaustive exploration of tree-alphabet histories; after EVERY close along the way (each
`reopen` and the final close) the independent validator mc.rawh5.validate runs on the
bytes.  DESIGN.md §4 C02.
"""

from __future__ import annotations

from .. import treecheck
from ..treeprop import DROP_ASC, DROP_DESC, GC_DROP, HOLD_ASC, HOLD_DESC, TreeProp

QUICK = [
    ("S4", DROP_ASC, 2, "RETYPE"),
    ("S4", DROP_ASC, 2, "DELCORE"),
    ("S7", DROP_ASC, 1, "DELCORE"),
    ("S1", DROP_ASC, 2, "FULL"),
    ("S2", HOLD_DESC, 1, "FULL"),
    ("S2r", DROP_ASC, 1, "FULL"),
    ("S0", DROP_ASC, 3, "FULL"),
    ("S2", HOLD_DESC, 2, "STRUCT"),
    ("S1r", DROP_ASC, 2, "STRUCT"),
]
THOROUGH = [
    ("S4", DROP_ASC, 3, "RETYPE"),
    ("S4", HOLD_DESC, 3, "RETYPE"),
    ("S4", DROP_ASC, 2, "DELCORE"),
    ("S7", DROP_ASC, 2, "DELCORE"),
    ("S1", DROP_ASC, 3, "FULL"),
    ("S2", HOLD_DESC, 2, "FULL"),
    ("S2", DROP_DESC, 2, "FULL"),
    ("S2r", DROP_ASC, 2, "FULL"),
    ("S4", HOLD_ASC, 2, "FULL"),
    ("S0", DROP_ASC, 4, "FULL"),
    ("S1", HOLD_DESC, 3, "STRUCT"),
    ("S2", DROP_ASC, 2, "STRUCT"),
    ("S1r", HOLD_ASC, 3, "STRUCT"),
    ("S2", GC_DROP, 2, "GCOPS"),
    ("S4", GC_DROP, 1, "GCOPS"),
]

P = TreeProp(
    "C02",
    treecheck.clauses_c02,
    (),
    QUICK,
    THOROUGH,
    assumptions=[
        "validator implements docs/content/geoh5_format/hierarchy/*.rst; concatenated (drillhole) content is validated by C04",
    ],
)
run, replay = P.run, P.replay
