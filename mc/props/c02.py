"""C02 - every file the library writes is a structurally valid geoh5 file.

Exhaustive exploration of tree-alphabet histories; after EVERY close along the way (each
`reopen` and the final close) the independent validator mc.rawh5.validate runs on the
bytes.  See DESIGN.md §4 C02.
"""

from __future__ import annotations

from .. import core, explorer, rawh5, treecheck, treeops

ALPHA = {
    "ops": ["rename", "flag", "values", "meta", "mk_group", "mk_obj", "add_data", "pg_add", "pg_rm", "pg_del",
            "move", "copy", "rm_ws", "rm_par", "reopen", "gc"],
    "flags": ("allow_delete",),
    "classes": ("Points", "Curve"),
    "dkinds": ("fv", "to"),
    "pgs": ("P", "Q"),
    "caps": {"groups": 3, "objects": 3, "data_per_object": 3, "entities": 12},
    "ws2": True,
    "move_data": True,
    "copy_data": True,
}


WANT = ()  # C02 looks at the bytes only


def body(ex, obs):
    return {
        "key": obs["key"],
        "model_key": obs["model_key"],
        "viol": treecheck.clauses_c02(ex, obs),
        "succ": treeops.enabled(ex.model, ALPHA),
        "outcome": core.digest([ex.results, rawh5.validate(obs["bytes"]) == [], sorted(k[0] + k[1][:4] for k in rawh5.tree(obs["bytes"])["nodes"])]),
    }


def run_one(history):
    return treecheck.execute_forked(history, body, WANT)


def replay(history):
    """Plain replay: fresh workspace, no fork, no explorer."""
    return body(*treecheck.execute(history, WANT))["viol"]


def plan(ctx):
    cfgs = [
        {"uid_order": "asc", "policy": "drop"},
        {"uid_order": "desc", "policy": "hold"},
    ]
    if ctx.quick:
        return [("S1", cfgs[0], 2), ("S2", cfgs[1], 2), ("S2r", cfgs[0], 1), ("S0", cfgs[0], 3)]
    cfgs += [{"uid_order": "desc", "policy": "drop"}, {"uid_order": "asc", "policy": "hold"}]
    out = []
    for c in cfgs:
        out += [("S1", c, 3), ("S2", c, 3), ("S2r", c, 2), ("S0", c, 4), ("S1r", c, 3)]
    return out


def run(ctx):
    budget = {"reopen": 1, "gc": 1} if ctx.quick else {"reopen": 2, "gc": 2}
    total = {"states": 0, "transitions": 0, "model_states": 0}
    runs = []
    first = last = None
    for scene, cfg, depth in plan(ctx):
        seed_h = {"property": "C02", "cfg": cfg, "scene": scene, "ops": []}
        st = explorer.explore(ctx, run_one, [seed_h], depth, cost=treeops.deviations, budget=budget)
        runs.append({"scene": scene, "cfg": cfg, "depth": depth, **{k: st[k] for k in ("states", "transitions", "model_states", "levels")}})
        for k in total:
            total[k] += st[k]
        first = first or seed_h
        last = seed_h
    probe = dict(last, ops=[["mk_group", "root"], ["reopen"], ["copy", 0, "root2", True]])
    ndet = explorer.determinism_check(run_one, [first, probe])
    # forked execution must agree with the plain in-process replay path
    for h in (first, probe):
        a, b = run_one(h), body(*treecheck.execute(h, WANT))
        if core.jdump(a) != core.jdump(b):
            raise core.HarnessError(f"forked and plain execution disagree on {h}")
    ctx.cover(
        states=total["states"],
        transitions=total["transitions"],
        traces_validated_against_impl=total["transitions"],
        model_states=total["model_states"],
        distinct_outcomes=len(ctx.outcomes),
        deviation_budget_completed=budget,
        alphabet=ALPHA,
        runs=runs,
        determinism_replays=ndet,
        exhaustive=True,
        bound="all histories over the tree alphabet up to the per-scene depth listed in runs, validator after every close",
    )
    ctx.assumptions += [
        "validator implements docs/content/geoh5_format/hierarchy/*.rst; concatenated (drillhole) content is validated by C04",
        "bounded: entity caps and depths as listed; nothing claimed beyond",
    ]
